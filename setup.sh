#!/bin/sh
# Offline setup: warm the build caches the checks use (MIR dump deps, replay binary). Idempotent.
cd "$(dirname "$0")" || exit 1
export CARGO_NET_OFFLINE=true
mkdir -p .cache evidence replays
python3-vt - <<'PY'
import sys
sys.path.insert(0, "/verif")
from mirsym import frontend, replay
for p in ("dev", "release"):
    m = frontend.load(p)
    print("MIR", p, len(m.funcs), "bodies", "%.1fs" % m.dump_s)
print("replay binaries:", replay.build())
print("lexer reference:", replay.build_lex("dev"))
from mirsym import kanicross
r, info = kanicross.run(["value.rs"], ["verdict_rules"], tag="setup")
print("kani warm-up:", {k: v["status"] for k, v in r.items()}, info.get("wall_s"), "s")
PY
