#!/bin/bash
# development aid: like tools_matrix.sh for selected seeded ids: tools_matrix2.sh C09-m4 C09-m5 ...
cd /verif
for id in "$@"; do
  prop=${id%%-*}
  out=$(./tools_try.sh /verif/seeded/$id/patch.diff $prop 2>&1)
  rc=$(echo "$out" | grep -o 'rc=[0-9]*' | tail -1)
  obs=$(echo "$out" | grep "^  obligation=" | sed 's/ profile.*//' | sort -u | tr '\n' ' ' | cut -c1-200)
  echo "$id  $rc  $obs"
done
