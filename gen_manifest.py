#!/usr/bin/env python3
"""Regenerate MANIFEST.json from the table below (development aid; MANIFEST.json is what counts)."""
import json

TECH = "symbolic execution of rustc MIR into SMT (z3 decides, cvc5 confirms); counterexamples replayed natively through the public API"
NOTE_COMMON = ("Trusted: rustc MIR of the pinned nightly for both arithmetic profiles, mirsym's translation and its exact models "
               "of core/alloc functions (mirsym/models.py, itermodels.py), z3 (cvc5 / z3 4.8 confirm a seeded subset). Scope is "
               "per function / per loop segment / per bounded harness as stated; the step to whole runs is argued in DESIGN.md, not mechanised.")

CLAIMS = {
 "C01": "Per-transition obligations on the resumable interpreter StmtIterator::next_with_context (every arm from an arbitrary state: statement dispatch, bound evaluated once before any frame operation, loop skipped iff bound <= 0, counter bookkeeping, while re-evaluation, rows passed up unchanged), data rows (<= 3 entries, in order), bits expansion MSB-first for every k <= 64 and every value in both profiles, FramedMap push/pop kernels (bounded).",
 "C06": "build_indices for 2 signals x 2 header columns with symbolic names (string identities) and all 16 direction combinations; input/expected entry closures (signal of the index, changed flag of the entry's own column, defaults unflagged, X for omitted expected); check_changed_entries (<= 2 entries).",
 "C17": "Relative to rand's contract (generator uninterpreted, one event per draw): func_random evaluates its bound once, draws once from the context's generator, result in [0,n); reset_random_seed re-creates the generator from the stored seed and with_seed stores the seed it uses; no operand evaluation is skipped (Expr::eval step) and ite is lazy; the interpreter reseeds exactly where resetRandom stands.",
 "C18": "vars() = FramedMap::flatten of the visible map, unchanged; flatten keeps the innermost binding of each name (<= 3 bindings); maps swapped back after every extraction; loop exit always pops exactly one frame; push/pop kernels. The frame discipline over whole runs is argued from these kernels, not mechanised.",
 "C02": "Trace obligations over the generic MIR of try_new / next / handle_io / the provided write_input and the default-entry closure: exactly one driver call per constructor and per row, of the right kind, with the very input slice of the row; no other call site in the crate (scan of all MIR call sites). Holds for every driver type because the trait methods are uninterpreted.",
 "C03": "Verdict kernels (ExpectedValue::check, OutputValue::check, OutputResultEntry::check / is_checked, failing_outputs filter) for all tags and 64-bit payloads; attribution at closure level and for extract_output_values as a whole (<= 2 entries); into_data_row zip (<= 3 entries); build_output_indices first-match positions for (2,2), (2,1), (1,2) expected/answer entries.",
 "C14": "Virtual arm of the extraction closure (one evaluation against the closure's context, value or Runtime error), swap bracket on every path, set_outputs before extraction, set_outputs rebuilds the map from exactly the answer (<= 2 entries, Z/X included), virtual signals 64 bits wide and unmasked.",
 "C04": "EvalContext::get (variables first), placement of set_outputs (only after a successful output-reading call, with that call's answer, before extraction), construction answer installed, row evaluated before its IO, swap_vars restored on every path, Variable arm Ok iff Value.",
 "C05": "Bounded model checking of the real get_row / expand_x / expand_c / generate_* code through a synthetic MIR harness: one source row of 3 columns (4 in the thorough tier) with symbolic entry kinds, values and widths, all 48 shapes per layout, compared by the solver with the expansion the property prescribes (order, clock triples, checked flag, expected X). Rows wider than the bound and interaction with loops are outside.",
 "C07": "Exhaustive symbolic execution of the two per-signal masking closures (with the bit_mask helper inlined) and the virtual-signal constructor for all widths 1..=64 and all 64-bit values in the dev and release arithmetic profiles.",
 "C08": "BinOp::eval and UnaryOp::eval against the statement's semantics for all i64 operands in both profiles; precedence table order-isomorphic to the eight levels; one step of BinOpTree::add from an arbitrary tree; one recursion step of Expr::eval (operand order, error propagation); lazy ite as a trace obligation.",
 "C09": "Bounded model checking of the real parser code over symbolic token sequences: parse_stmt_block(None) over every sequence of N <= 3 token kinds (4 in the thorough tier) and over every statement prefix (loop / while / repeat / let / declare / bits / call heads and bodies) followed by up to 2 arbitrary tokens; HeaderParser::parse over every sequence of <= 4 header tokens; TokenIter::next span/Eof bookkeeping. No path may panic. Outside: termination, the lexer's DFA (assumed: header rules cover every character; WS/Comment are never produced), the character-boundary clause beyond span pass-through.",
 "C12": "Same token-sequence exploration: a nested block is accepted only if its last two consumed tokens are `end <kind>` (N <= 3 tokens, 4 thorough); a row is accepted only with exactly one entry per header column; bits widths 0..=64 equal to the literal; calls only for known functions with the table's arity; literals only if from_str_radix accepts them with the radix of the token kind; expect() only on the expected kind; header accepted only if terminated, non-empty and duplicate-free (<= 4 header tokens).",
 "C19": "Token-sequence exploration of the real parser with one header column: every accepted row records starting line + number of line-break tokens consumed before it (N <= 2 arbitrary tokens, and 0-1 arbitrary tokens between a loop / while header and its body, repeat rows); Parser::get counts exactly the line breaks and peek/at/peek_span none; the header parser starts at 1, counts one per line break (<= 4 header tokens) and hands the count over; X/C expansions of two source rows on different lines keep each row's own line (bounded get_row harness). Outside: which bytes become line-break tokens (lexer).",
 "C11": "The pieces that decide the verdict: parser arms build scopes as prescribed (loop / repeat frame around the body, bound outside; while none; let after its initialiser; declare with the variable set emptied and restored) over the statements' token streams with sub-parsers as events; identifiers recorded as output reads iff not in scope; C recorded under the header name of its column (bits(k) counting k); with_signals runs its five checks in order, first error wins, Ok iff all pass; matchers of check_and_consume_expected_inputs / build_read_outputs; check_missing_signals (2 columns, bounded); build_indices incl. exact `<name>_out`. The composition into an iff over whole programs is argued, not mechanised.",
 "C15": "Parser::finish returns every HashMap-derived list only after sorting it (data-flow over the trace); try_iter_static fails iff read_outputs is non-empty and otherwise builds the iterator over this very test; StaticDataRow conversion (<= 2 outputs); iterators borrow the test immutably and TestCase has no interior mutability (signature / type facts); variable maps restored after a fault; output reads recorded by the parser (static gate sees them). Interleavings beyond immutability are argued, not mechanised.",
 "C16": "roxmltree is an uninterpreted environment: load_test (index check, the selected test's own source, bound to a clone of the file's signals) and load_test_by_name (first match, <= 3 tests, string identities); attrib returns the last child of an entry whose FIRST child is the <string> key; width default 1; File::parse (<= 2 tests) builds its name sets once and never empties them while scanning, and its panic sites are either unreachable or on the assumed-unreachable list and replayed. Outside: totality over arbitrary XML text (roxmltree), text_pos_to_range.",
 "C10": "Kernels that used to panic (arithmetic, zero divisors, empty random range, signExt, unknown variable, loop counter overflow) proved panic-free for all values in both profiles; variables-first lookup as the invariant behind the counter read-back.",
 "C13": "Driver errors leave try_new / handle_io / the provided write_input at once as IterationError::Driver with the driver's own value; extract_output_values rejects a wrong output count before evaluating anything and attributes a value only after the identity check of the very answer entry it uses (closure level and whole function with <= 2 expected entries).",
}
NA = {
 "C20": "not claimed: statement about the logos-generated lexer DFA on arbitrary bytes; see DESIGN.md section 4",
}

def main():
    props = [json.loads(l) for l in open("/verif/properties.jsonl")]
    checks = []
    for p in props:
        pid = p["id"]
        if pid in CLAIMS:
            checks.append({
                "property_id": pid, "quick_cmd": "./check %s quick" % pid, "thorough_cmd": "./check %s thorough" % pid,
                "evidence_file": "/verif/evidence/%s.json" % pid, "engine": "mirsym",
                "replay_cmd_template": "python3-vt -m mirsym.replay_cli {path}",
                "level_claimed": {"category": "model_checking", "text": CLAIMS[pid], "design_ref": "DESIGN.md section 4, %s" % pid},
                "level_note": NOTE_COMMON, "technique": TECH})
    man = {"version": 1, "setup_cmd": "./setup.sh",
           "hooks": {"guard": "(none)", "enable": "no source hooks: checks read /repo's working tree, dump its MIR with the pre-installed nightly and build a replay binary against a scratch copy",
                     "baseline_off_cmd": "cd /repo && cargo test --workspace --no-fail-fast --offline", "source_commits": [], "add_only": True},
           "engines": [{"name": "mirsym", "path": "/verif/mirsym", "serves_properties": sorted(CLAIMS),
                        "kind_free_text": "symbolic executor for rustc MIR (text dump) producing per-path SMT summaries with models of core/alloc (iterators, Vec, Option/Result, strings as identities) and bounded loops; z3 decides, cvc5 / z3 4.8 confirm; native replay of solver models through the public API"}],
           "checks": checks,
           "not_applicable": [{"property_id": k, "reason": v} for k, v in sorted(NA.items()) if k not in CLAIMS],
           "notes": "exit 0 held / exit 1 VIOLATION (solver model reproduced natively) / exit 2 inconclusive (never success, never a violation)."}
    json.dump(man, open("/verif/MANIFEST.json", "w"), indent=1)
    import jsonschema
    jsonschema.validate(man, json.load(open("/root/.vp/MANIFEST.schema.json")))
    print("MANIFEST ok:", len(checks), "checks,", len(man["not_applicable"]), "not applicable")

if __name__ == "__main__":
    main()
