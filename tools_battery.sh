#!/bin/sh
# development aid: tools_battery.sh <patch.diff> <battery...>  -- does a battery reproduce a mutant natively?
P="$1"; shift
D=/var/tmp/mutb.$$
rm -rf "$D"; mkdir -p "$D"
rsync -a --exclude target --exclude .git /repo/ "$D/"
(cd "$D" && patch -p1 -s < "$P") || { echo "patch failed"; rm -rf "$D"; exit 3; }
cd /verif && VERIF_REPO="$D" python3-vt -m mirsym.battery_selftest "$@" 2>&1 | grep "DEVIATION\|deviations"
rm -rf "$D"
