#!/bin/sh
# development aid: tools_mut.sh <dir> -- make a scratch copy of /repo at <dir> (outside /repo and /verif)
set -e
D="$1"
rm -rf "$D"
mkdir -p "$D"
rsync -a --exclude target --exclude .git /repo/ "$D/"
