#!/bin/bash
# development aid: parallel matrix: tools_pmatrix.sh <jobs> <logfile> <id> ...   (scratch copies; /repo untouched)
cd /verif
J="$1"; LOG="$2"; shift 2
: > "$LOG"
one() {
  id="$1"; prop=${id%%-*}
  t0=$(date +%s)
  out=$(./tools_try.sh /verif/seeded/$id/patch.diff $prop 2>&1)
  rc=$(echo "$out" | grep -o 'rc=[0-9]*' | tail -1)
  obs=$(echo "$out" | grep "^  obligation=" | sed 's/ profile.*//' | sort -u | tr '\n' ' ' | cut -c1-200)
  echo "$id  $rc  $(( $(date +%s) - t0 ))s  $obs"
  echo "$out" > /var/tmp/pm_$id.out
}
export -f one
printf '%s\n' "$@" | xargs -P "$J" -I{} bash -c 'one {}' >> "$LOG"
