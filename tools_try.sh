#!/bin/sh
# development aid: tools_try.sh <patch.diff> <PROP> [more run args]  -- run a check against a scratch copy of /repo with the patch applied
P="$1"; PROP="$2"; shift 2
D=/var/tmp/mut.$$
rm -rf "$D"; mkdir -p "$D"
rsync -a --exclude target --exclude .git /repo/ "$D/"
(cd "$D" && patch -p1 -s < "$P") || { echo "patch failed"; rm -rf "$D"; exit 3; }
cd /verif && VERIF_REPO="$D" python3-vt -m mirsym.run "$PROP" --no-evidence "$@"
RC=$?
rm -rf "$D"
echo "rc=$RC"
