#!/bin/bash
# development aid: run every seeded mutant against the check of its property (scratch copies; /repo untouched)
# usage: tools_matrix.sh [PROP ...]
cd /verif
for d in seeded/*/; do
  id=$(basename $d); prop=${id%%-*}
  if [ $# -gt 0 ] && [[ ! " $* " =~ " $prop " ]]; then continue; fi
  [ -f mirsym/props/$prop.py ] || { echo "$id  no-check"; continue; }
  out=$(./tools_try.sh /verif/$d/patch.diff $prop 2>&1)
  rc=$(echo "$out" | grep -o 'rc=[0-9]*' | tail -1)
  obs=$(echo "$out" | grep "^  obligation=" | sed 's/ profile.*//' | sort -u | tr '\n' ' ' | cut -c1-160)
  echo "$id  $rc  $obs"
done
