//! Native replay of solver counterexamples through the *public* API of digital_test_runner.
//!
//! Reads a scenario file (line based, see /verif/mirsym/replay.py), runs it against the real crate
//! built from the current working tree, and prints one observation per line. Every stage runs under
//! catch_unwind so a panic is an observation, not a crash.
use digital_test_runner::{
    dig, InputEntry, InputValue, OutputEntry, OutputValue, ParsedTestCase, Signal, SignalType, TestCase,
    TestDriver,
};
use std::cell::RefCell;
use std::collections::HashMap;
use std::panic::{catch_unwind, AssertUnwindSafe};
use std::rc::Rc;

#[derive(Debug)]
struct DriverError(usize);
impl std::fmt::Display for DriverError {
    fn fmt(&self, f: &mut std::fmt::Formatter<'_>) -> std::fmt::Result {
        write!(f, "scripted driver failure at call {}", self.0)
    }
}
impl std::error::Error for DriverError {}

#[derive(Clone, Debug)]
enum Val {
    Num(i64),
    Z,
    X,
}

#[derive(Default)]
struct Script {
    layout: Vec<String>,
    layout_at: HashMap<usize, Vec<String>>,
    default_answer: Vec<Val>,
    answers: HashMap<usize, Vec<Val>>,
    fail_at: Vec<usize>,
    override_write: bool,
    echo: bool,
}

struct Driver {
    script: Rc<Script>,
    signals: Vec<Signal>,
    /// signals the test case does not know: a layout entry `?k` makes the driver report a value for foreign signal k
    foreign: Vec<Signal>,
    calls: Rc<RefCell<usize>>,
    log: Rc<RefCell<Vec<String>>>,
}

fn fmt_in(v: &InputValue) -> String {
    match v {
        InputValue::Value(n) => format!("{n}"),
        InputValue::Z => "Z".into(),
    }
}

impl Driver {
    fn record(&mut self, kind: &str, inputs: &[InputEntry<'_>]) -> usize {
        let idx = *self.calls.borrow();
        *self.calls.borrow_mut() += 1;
        let mut s = format!("CALL {idx} {kind}");
        for i in inputs {
            s.push_str(&format!(
                " {}={}:{}:{}",
                i.signal.name,
                fmt_in(&i.value),
                i.changed as u8,
                i.signal.bits
            ));
        }
        self.log.borrow_mut().push(s);
        idx
    }
    fn answer(&self, idx: usize, inputs: &[InputEntry<'_>]) -> Vec<OutputEntry<'_>> {
        let layout = self.script.layout_at.get(&idx).unwrap_or(&self.script.layout);
        let vals = self.script.answers.get(&idx).unwrap_or(&self.script.default_answer);
        let mut out = vec![];
        for (k, name) in layout.iter().enumerate() {
            let sig = if let Some(k) = name.strip_prefix('?') {
                let k: usize = k.parse().unwrap_or(0);
                &self.foreign[k % self.foreign.len()]
            } else {
                let Some(sig) = self.signals.iter().find(|s| &s.name == name) else {
                    continue;
                };
                sig
            };
            let v = if self.script.echo {
                // echo mode: output k carries (call index * 16 + k) xor the first numeric input
                let base = inputs.iter().find_map(|i| i.value.value()).unwrap_or(0);
                OutputValue::Value(((idx as i64) * 16 + k as i64) ^ base)
            } else {
                match vals.get(k).cloned().unwrap_or(Val::Num(0)) {
                    Val::Num(n) => OutputValue::Value(n),
                    Val::Z => OutputValue::Z,
                    Val::X => OutputValue::X,
                }
            };
            out.push(OutputEntry { signal: sig, value: v });
        }
        out
    }
}

struct PlainDriver(Driver);
struct OverridingDriver(Driver);

impl TestDriver for PlainDriver {
    type Error = DriverError;
    fn write_input_and_read_output(
        &mut self,
        inputs: &[InputEntry<'_>],
    ) -> Result<Vec<OutputEntry<'_>>, Self::Error> {
        let idx = self.0.record("read", inputs);
        if self.0.script.fail_at.contains(&idx) {
            return Err(DriverError(idx));
        }
        Ok(self.0.answer(idx, inputs))
    }
}

impl TestDriver for OverridingDriver {
    type Error = DriverError;
    fn write_input_and_read_output(
        &mut self,
        inputs: &[InputEntry<'_>],
    ) -> Result<Vec<OutputEntry<'_>>, Self::Error> {
        let idx = self.0.record("read", inputs);
        if self.0.script.fail_at.contains(&idx) {
            return Err(DriverError(idx));
        }
        Ok(self.0.answer(idx, inputs))
    }
    fn write_input(&mut self, inputs: &[InputEntry<'_>]) -> Result<(), Self::Error> {
        let idx = self.0.record("write", inputs);
        if self.0.script.fail_at.contains(&idx) {
            return Err(DriverError(idx));
        }
        Ok(())
    }
}

fn one_line(s: &str) -> String {
    s.replace('\\', "\\\\").replace('\n', "\\n").replace('\r', "\\r")
}

fn panic_msg(e: Box<dyn std::any::Any + Send>) -> String {
    if let Some(s) = e.downcast_ref::<&str>() {
        one_line(s)
    } else if let Some(s) = e.downcast_ref::<String>() {
        one_line(s)
    } else {
        "<non-string panic>".into()
    }
}

fn unhex(s: &str) -> String {
    let bytes: Vec<u8> = (0..s.len() / 2)
        .map(|i| u8::from_str_radix(&s[2 * i..2 * i + 2], 16).unwrap())
        .collect();
    String::from_utf8(bytes).unwrap()
}

fn parse_val(s: &str) -> Val {
    match s {
        "Z" => Val::Z,
        "X" => Val::X,
        n => Val::Num(n.parse().unwrap()),
    }
}

fn describe_signal(s: &Signal) -> String {
    let t = match &s.typ {
        SignalType::Input { default } => format!("in:{}", fmt_in(default)),
        SignalType::Output => "out".into(),
        SignalType::Bidirectional { default } => format!("bidir:{}", fmt_in(default)),
        SignalType::Virtual { expr } => format!("virtual:{}", one_line(&format!("{expr}")).replace(' ', "")),
    };
    format!("{}:{}:{}", s.name, s.bits, t)
}

fn run_rows<'a, T: TestDriver<Error = DriverError>>(
    tc: &'a TestCase,
    driver: &mut T,
    log: &Rc<RefCell<Vec<String>>>,
    max_rows: usize,
    show_vars: bool,
    stop_on_err: bool,
    step: usize,
) {
    let flush = |log: &Rc<RefCell<Vec<String>>>| {
        for l in log.borrow_mut().drain(..) {
            println!("{l}");
        }
    };
    let mut slot = Some(driver);
    let it = catch_unwind(AssertUnwindSafe(|| tc.try_iter(slot.take().unwrap())));
    flush(log);
    let mut it = match it {
        Err(e) => {
            println!("NEW panic {}", panic_msg(e));
            return;
        }
        Ok(Err(e)) => {
            let kind = match &e {
                digital_test_runner::errors::IterationError::Driver(d) => format!("driver {}", d.0),
                digital_test_runner::errors::IterationError::Runtime(r) => {
                    format!("runtime {}", one_line(&format!("{r}")))
                }
            };
            println!("NEW err {kind}");
            return;
        }
        Ok(Ok(it)) => it,
    };
    println!("NEW ok");
    let mut n = 0;
    loop {
        if n >= max_rows {
            println!("TRUNCATED {n}");
            break;
        }
        // step > 0: the consumer steps over rows with the standard adaptor machinery (Iterator::nth), as skip / step_by do
        let item = catch_unwind(AssertUnwindSafe(|| if step > 0 { it.nth(step) } else { it.next() }));
        flush(log);
        match item {
            Err(e) => {
                println!("ITEM panic {}", panic_msg(e));
                break;
            }
            Ok(None) => {
                println!("END");
                // a further next() must not touch the driver
                let again = catch_unwind(AssertUnwindSafe(|| it.next().is_none()));
                flush(log);
                match again {
                    Ok(b) => println!("AFTER_END none={}", b as u8),
                    Err(e) => println!("AFTER_END panic {}", panic_msg(e)),
                }
                break;
            }
            Ok(Some(Err(e))) => {
                let kind = match &e {
                    digital_test_runner::errors::IterationError::Driver(d) => format!("driver {}", d.0),
                    digital_test_runner::errors::IterationError::Runtime(r) => {
                        format!("runtime {}", one_line(&format!("{r}")))
                    }
                };
                println!("ITEM err {kind}");
                if stop_on_err {
                    break;
                }
            }
            Ok(Some(Ok(row))) => {
                let mut s = format!("ROW {} IN", row.line);
                for i in &row.inputs {
                    s.push_str(&format!(" {}={}:{}", i.signal.name, fmt_in(&i.value), i.changed as u8));
                }
                s.push_str(" OUT");
                for o in &row.outputs {
                    s.push_str(&format!(
                        " {}={}/{}:{}:{}",
                        o.signal.name,
                        o.expected,
                        o.output,
                        o.check() as u8,
                        o.is_checked() as u8
                    ));
                }
                let failing: Vec<_> = row.failing_outputs().map(|o| o.signal.name.clone()).collect();
                s.push_str(&format!(" FAIL {}", failing.join(",")));
                println!("{s}");
                if show_vars {
                    let mut vars: Vec<_> = it.vars().into_iter().collect();
                    vars.sort();
                    let v: Vec<_> = vars.iter().map(|(k, v)| format!("{k}={v}")).collect();
                    println!("VARS {}", v.join(" "));
                }
            }
        }
        n += 1;
    }
    // dropping the iterator (wherever the run stopped: at the end, at an error item, in the middle of an expansion)
    // must not touch the driver: calls logged here are accounted for by no row, constructor or error item
    let dropped = catch_unwind(AssertUnwindSafe(move || drop(it)));
    flush(log);
    match dropped {
        Ok(()) => println!("DROPPED ok"),
        Err(e) => println!("DROPPED panic {}", panic_msg(e)),
    }
}

fn main() {
    // keep panic messages out of stderr noise but still printed by us
    std::panic::set_hook(Box::new(|_| {}));
    let path = std::env::args().nth(1).expect("scenario file");
    let text = std::fs::read_to_string(path).unwrap();
    let mut mode = "run".to_string();
    let mut source = String::new();
    let mut signals: Vec<Signal> = vec![];
    let mut script = Script {
        override_write: true,
        ..Default::default()
    };
    let mut explicit_layout = false;
    let mut max_rows = 2000usize;
    let mut show_vars = false;
    let mut stop_on_err = true;
    let mut load: Option<String> = None;
    let mut repeat_parse = 1usize;
    let mut render = false;
    let mut abandon: Option<usize> = None;
    let mut pre_layouts: Vec<Vec<String>> = vec![];
    let mut pre_digs: Vec<(String, Option<String>)> = vec![];
    let mut set_bits: Vec<(String, usize)> = vec![];
    let mut step = 0usize;
    for line in text.lines() {
        let mut w = line.split_whitespace();
        let Some(cmd) = w.next() else { continue };
        let rest: Vec<&str> = w.collect();
        match cmd {
            "MODE" => mode = rest[0].to_string(),
            "SOURCE_HEX" => source = unhex(rest.first().copied().unwrap_or("")),
            "SIGNAL" => {
                let name = unhex(rest[1]);
                let bits: usize = rest[2].parse().unwrap();
                let def = |s: &str| match s {
                    "Z" => InputValue::Z,
                    n => InputValue::Value(n.parse().unwrap()),
                };
                signals.push(match rest[0] {
                    "in" => Signal::input(name, bits, def(rest[3])),
                    "out" => Signal::output(name, bits),
                    "bidir" => Signal::bidirectional(name, bits, def(rest[3])),
                    other => panic!("bad signal kind {other}"),
                });
            }
            "LAYOUT" => {
                explicit_layout = true;
                script.layout = rest.iter().map(|s| unhex(s)).collect();
            }
            "LAYOUT_AT" => {
                let k: usize = rest[0].parse().unwrap();
                script.layout_at.insert(k, rest[1..].iter().map(|s| unhex(s)).collect());
            }
            "ANSWER" => {
                let vals: Vec<Val> = rest[1..].iter().map(|s| parse_val(s)).collect();
                if rest[0] == "*" {
                    script.default_answer = vals;
                } else {
                    script.answers.insert(rest[0].parse().unwrap(), vals);
                }
            }
            "FAIL" => script.fail_at.push(rest[0].parse().unwrap()),
            "WRITE_OVERRIDE" => script.override_write = rest[0] == "1",
            "ECHO" => script.echo = rest[0] == "1",
            "MAX_ROWS" => max_rows = rest[0].parse().unwrap(),
            "VARS" => show_vars = rest[0] == "1",
            "STOP_ON_ERR" => stop_on_err = rest[0] == "1",
            "LOAD" => load = Some(rest[0].to_string()),
            "REPEAT_PARSE" => repeat_parse = rest[0].parse().unwrap(),
            "RENDER" => render = rest[0] == "1",
            "ABANDON" => abandon = Some(rest[0].parse().unwrap()),
            "PRE_LAYOUT" => pre_layouts.push(rest.iter().map(|s| unhex(s)).collect()),
            "PRE_DIG" => pre_digs.push((unhex(rest[0]), rest.get(1).map(|s| s.to_string()))),
            "SET_BITS" => set_bits.push((unhex(rest[0]), rest[1].parse().unwrap())),
            "STEP" => step = rest[0].parse().unwrap(),
            _ => panic!("unknown scenario line {line}"),
        }
    }

    // documents loaded (and a test of them loaded) earlier in this process: they must leave nothing behind
    for (doc, sel) in &pre_digs {
        let r = catch_unwind(AssertUnwindSafe(|| match dig::File::parse(doc) {
            Ok(f) => match sel {
                Some(l) => match l.strip_prefix("name:") {
                    Some(name) => f.load_test_by_name(&unhex(name)).is_ok(),
                    None => f.load_test(l.parse().unwrap()).is_ok(),
                },
                None => true,
            },
            Err(_) => false,
        }));
        println!("PRE_DIG {}", match r { Ok(true) => "ok", Ok(false) => "err", Err(_) => "panic" });
    }

    // ---- obtain a TestCase
    #[allow(unused_mut)]
    let mut test_case: TestCase = if mode == "dig" {
        let f = catch_unwind(|| dig::File::parse(&source));
        let f = match f {
            Err(e) => {
                println!("DIG panic {}", panic_msg(e));
                return;
            }
            Ok(Err(e)) => {
                println!("DIG err {}", one_line(&format!("{e:?}")));
                return;
            }
            Ok(Ok(f)) => f,
        };
        println!("DIG ok");
        for s in &f.signals {
            println!("DIGSIGNAL {}", describe_signal(s));
        }
        for t in &f.test_cases {
            println!("DIGTEST {} {}", hex(&t.name), hex(&t.source));
        }
        let Some(l) = load else { return };
        let r = catch_unwind(AssertUnwindSafe(|| {
            if let Some(name) = l.strip_prefix("name:") {
                f.load_test_by_name(&unhex(name))
            } else {
                f.load_test(l.parse().unwrap())
            }
        }));
        match r {
            Err(e) => {
                println!("LOAD panic {}", panic_msg(e));
                return;
            }
            Ok(Err(e)) => {
                // every label of the diagnostic must lie inside the source attached to it (else it cannot be rendered)
                let (nlabels, labels_ok) = {
                    use miette::Diagnostic;
                    let d: &dyn Diagnostic = &e;
                    let labels: Vec<miette::LabeledSpan> = d.labels().map(|l| l.collect()).unwrap_or_default();
                    let ok = match d.source_code() {
                        Some(src) => labels.iter().all(|l| src.read_span(l.inner(), 0, 0).is_ok()),
                        None => labels.is_empty(),
                    };
                    (labels.len(), ok)
                };
                println!("LOAD err labels={} labels_ok={} {}", nlabels, labels_ok as u8, one_line(&format!("{e}")));
                let r = catch_unwind(AssertUnwindSafe(|| format!("{:?}", miette::Report::new(e)).len()));
                match r {
                    Ok(n) => println!("RENDER ok {n}"),
                    Err(e) => println!("RENDER panic {}", panic_msg(e)),
                }
                return;
            }
            Ok(Ok(tc)) => {
                println!("LOAD ok");
                tc
            }
        }
    } else {
        let mut first: Option<ParsedTestCase> = None;
        for k in 0..repeat_parse {
            let parsed = catch_unwind(|| source.parse::<ParsedTestCase>());
            let parsed = match parsed {
                Err(e) => {
                    println!("PARSE panic {}", panic_msg(e));
                    return;
                }
                Ok(Err(e)) => {
                    let spans: Vec<String> = e.at.iter().map(|s| format!("{}..{}", s.start, s.end)).collect();
                    let ok_spans = e.at.iter().all(|s| {
                        s.start <= s.end
                            && s.end <= source.len()
                            && source.is_char_boundary(s.start)
                            && source.is_char_boundary(s.end)
                    });
                    println!(
                        "PARSE err spans={} spans_ok={} {}",
                        spans.join(","),
                        ok_spans as u8,
                        one_line(&format!("{:?}", std::error::Error::source(&e).map(|s| s.to_string())))
                    );
                    if render {
                        let src = source.clone();
                        let r = catch_unwind(AssertUnwindSafe(|| {
                            let report = miette::Report::new(e).with_source_code(src);
                            format!("{report:?}").len()
                        }));
                        match r {
                            Ok(n) => println!("RENDER ok {n}"),
                            Err(e) => println!("RENDER panic {}", panic_msg(e)),
                        }
                    }
                    return;
                }
                Ok(Ok(p)) => p,
            };
            if k == 0 {
                println!("PARSE ok");
                println!("HEADER {}", parsed.signals.iter().map(|s| hex(s)).collect::<Vec<_>>().join(" "));
                first = Some(parsed);
            } else if Some(&parsed) != first.as_ref() {
                println!("REPARSE differs at {k}");
            }
        }
        let parsed = first.unwrap();
        if repeat_parse > 1 {
            println!("REPARSE done {repeat_parse}");
        }
        if mode == "parse" {
            return;
        }
        let sigs = signals.clone();
        let bound = catch_unwind(AssertUnwindSafe(|| parsed.with_signals(sigs)));
        match bound {
            Err(e) => {
                println!("BIND panic {}", panic_msg(e));
                return;
            }
            Ok(Err(e)) => {
                println!("BIND err {}", one_line(&format!("{:?}", e)));
                return;
            }
            Ok(Ok(tc)) => {
                println!("BIND ok");
                tc
            }
        }
    };
    for s in &test_case.signals {
        println!("SIGNALS {}", describe_signal(s));
    }
    if mode == "bind" {
        return;
    }

    if !explicit_layout {
        script.layout = test_case
            .signals
            .iter()
            .filter(|s| s.is_output())
            .map(|s| s.name.clone())
            .collect();
    }

    // the caller changes the width of a signal of the bound test (a public field) before running it
    for (name, bits) in &set_bits {
        for sg in test_case.signals.iter_mut() {
            if &sg.name == name {
                sg.bits = *bits;
            }
        }
        println!("SET_BITS {} {}", hex(name), bits);
    }

    // earlier complete runs of the SAME TestCase value with other (individually consistent) drivers - another output
    // layout, all answers 0 - before the observed run: they must leave nothing behind in the test case
    for lay in &pre_layouts {
        let pre = Script {
            layout: lay.clone(),
            override_write: true,
            ..Default::default()
        };
        let d = Driver {
            script: Rc::new(pre),
            signals: test_case.signals.clone(),
            foreign: vec![Signal::output("FOREIGN_A", 8)],
            calls: Rc::new(RefCell::new(0usize)),
            log: Rc::new(RefCell::new(vec![])),
        };
        let mut drv = OverridingDriver(d);
        let r = catch_unwind(AssertUnwindSafe(|| {
            let mut n = 0usize;
            if let Ok(it) = test_case.try_iter(&mut drv) {
                for _ in it.take(max_rows) {
                    n += 1;
                }
            }
            n
        }));
        match r {
            Ok(n) => println!("PRE_RUN ok {n}"),
            Err(e) => println!("PRE_RUN panic {}", panic_msg(e)),
        }
    }

    if let Some(k) = abandon {
        // another iterator over the same test, on this thread, stepped k times and dropped (possibly in the middle of
        // a row expansion) before the observed run starts: it must leave nothing behind
        let r = catch_unwind(AssertUnwindSafe(|| {
            if let Ok(mut it0) = test_case.try_iter_static() {
                for _ in 0..k {
                    let _ = it0.next();
                }
            }
        }));
        println!("ABANDONED {} {}", k, if r.is_ok() { "ok" } else { "panic" });
    }

    if mode == "static" || mode == "both" {
        let it = catch_unwind(AssertUnwindSafe(|| test_case.try_iter_static()));
        match it {
            Err(e) => println!("STATIC panic {}", panic_msg(e)),
            Ok(Err(e)) => println!("STATIC err {}", one_line(&format!("{e}"))),
            Ok(Ok(mut it)) => {
                println!("STATIC ok");
                let mut n = 0;
                loop {
                    if n >= max_rows {
                        println!("STRUNCATED {n}");
                        break;
                    }
                    n += 1;
                    match catch_unwind(AssertUnwindSafe(|| it.next())) {
                        Err(e) => {
                            println!("SITEM panic {}", panic_msg(e));
                            break;
                        }
                        Ok(None) => {
                            println!("SEND");
                            break;
                        }
                        Ok(Some(Err(e))) => {
                            println!("SITEM err {}", one_line(&format!("{e}")));
                            break;
                        }
                        Ok(Some(Ok(row))) => {
                            let mut s = format!("SROW {} IN", row.line);
                            for i in &row.inputs {
                                s.push_str(&format!(" {}={}:{}", i.signal.name, fmt_in(&i.value), i.changed as u8));
                            }
                            s.push_str(" EXP");
                            for o in &row.expected {
                                s.push_str(&format!(" {}={}", o.signal.name, o.value));
                            }
                            println!("{s}");
                        }
                    }
                }
            }
        }
        if mode == "static" {
            return;
        }
    }

    let script = Rc::new(script);
    let log = Rc::new(RefCell::new(vec![]));
    let calls = Rc::new(RefCell::new(0usize));
    let d = Driver {
        script: script.clone(),
        signals: test_case.signals.clone(),
        foreign: vec![
            Signal::output("FOREIGN_A", 8),
            Signal::output("FOREIGN_B", 4),
            Signal::input("FOREIGN_IN", 1, InputValue::Value(0)),
        ],
        calls,
        log: log.clone(),
    };
    if script.override_write {
        let mut drv = OverridingDriver(d);
        run_rows(&test_case, &mut drv, &log, max_rows, show_vars, stop_on_err, step);
    } else {
        let mut drv = PlainDriver(d);
        run_rows(&test_case, &mut drv, &log, max_rows, show_vars, stop_on_err, step);
    }
}

fn hex(s: &str) -> String {
    s.bytes().map(|b| format!("{b:02x}")).collect()
}
