"""mirsym: symbolic execution of MIR bodies into z3 terms.

* Values live in `Node`s that are materialised lazily: reading a field, a tag, a
  length, a pointee or an element of a node that has none yet creates a fresh symbolic one whose
  *name* is a function of the node's name, so that copies of the same unmaterialised value agree.
* Elements of slices reached at symbolic indices are uninterpreted functions of the index, so two
  reads at equal indices agree (congruence) and possibly-equal indices are left to the solver.
* Calls are (a) modelled exactly (models.py), (b) inlined from the dump (crate-local, on the
  obligation's inline list), or (c) recorded as an uninterpreted event with a fresh result and
  havoc of everything reachable through `&mut`/moved arguments.
* Exploration is depth-first with the path condition pushed to an incremental solver; the result
  is one `Path` per feasible path: condition, call trace, outcome (return value / panic / cut).
"""
import re
import itertools
import z3

from . import mirparse


class Unsupported(Exception):
    pass


# ------------------------------------------------------------------ types

INT_TYPES = {
    "i8": (8, True), "u8": (8, False), "i16": (16, True), "u16": (16, False), "i32": (32, True),
    "u32": (32, False), "i64": (64, True), "u64": (64, False), "isize": (64, True), "usize": (64, False),
    "i128": (128, True), "u128": (128, False), "char": (32, False),
}


def strip_lifetimes(ty):
    ty = re.sub(r"&'[a-z_]\w* ", "&", ty)
    ty = re.sub(r"<'[a-z_]\w*(, '[a-z_]\w*)*>", "", ty)
    ty = re.sub(r"'[a-z_]\w*, ", "", ty)
    return ty


def strip_ref(ty):
    if ty is None:
        return None
    ty = ty.strip()
    for p in ("&mut ", "*const ", "*mut ", "&"):
        if ty.startswith(p):
            rest = ty[len(p):]
            rest = re.sub(r"^'[a-z_]\w* ", "", rest)
            if rest.startswith("mut "):
                rest = rest[4:]
            return rest.strip()
    m = re.match(r"(?:std::boxed::)?Box<(.*)>$", ty)
    if m:
        return m.group(1)
    return None


def elem_ty(ty):
    if ty is None:
        return None
    ty = ty.strip()
    m = re.match(r"\[(.*); [^;\]]+\]$", ty)
    if m:
        return m.group(1)
    m = re.match(r"\[(.*)\]$", ty)
    if m:
        return m.group(1)
    m = re.match(r"(?:std::vec::)?Vec<(.*)>$", ty)
    if m:
        return m.group(1)
    return None


def type_head(ty):
    """`std::option::Option<value::InputValue>` -> `Option`;  `&'a [T]` -> `&[T]` (kept)."""
    if ty is None:
        return None
    ty = ty.strip()
    i = mirparse.scan_balanced(ty, 0, "<")
    base = ty[:i]
    return base.split("::")[-1].strip()


def scalar_kind(ty):
    if ty is None:
        return None
    ty = ty.strip()
    if ty == "bool":
        return ("bool",)
    if ty in INT_TYPES:
        w, s = INT_TYPES[ty]
        return ("bv", w, s)
    return None


STD_ENUMS = {
    "Option": ["None", "Some"],
    "Result": ["Ok", "Err"],
    "ControlFlow": ["Continue", "Break"],
    "Cow": ["Borrowed", "Owned"],
    "Ordering": ["Less", "Equal", "Greater"],
}
STD_ENUM_DISCR = {"Ordering": {"Less": -1, "Equal": 0, "Greater": 1}}


VARIANT_KIND = {("Option", "None"): "unit", ("Option", "Some"): "tuple", ("Result", "Ok"): "tuple", ("Result", "Err"): "tuple",
                ("ControlFlow", "Continue"): "tuple", ("ControlFlow", "Break"): "tuple", ("Ordering", "Less"): "unit",
                ("Ordering", "Equal"): "unit", ("Ordering", "Greater"): "unit"}


def parse_enums_from_source(src_texts):
    """Very small Rust reader: enum name -> [variant names] in declaration order."""
    enums = {}
    for text in src_texts:
        # drop comments
        t = re.sub(r"//[^\n]*", "", text)
        t = re.sub(r"/\*.*?\*/", "", t, flags=re.S)
        for m in re.finditer(r"\benum\s+([A-Za-z_]\w*)\s*(<[^{]*>)?\s*(where[^{]*)?\{", t):
            name = m.group(1)
            i = m.end()
            depth = 1
            j = i
            while j < len(t) and depth:
                if t[j] == "{":
                    depth += 1
                elif t[j] == "}":
                    depth -= 1
                j += 1
            body = t[i:j - 1]
            variants = []
            for part in mirparse.split_top(body):
                part = part.strip()
                # attributes may contain nested brackets/parens; strip repeatedly
                while part.startswith("#"):
                    k = mirparse.scan_balanced(part, part.index("[") + 1, "]")
                    part = part[k + 1:].strip()
                mm = re.match(r"([A-Za-z_]\w*)\s*([({]?)", part)
                if mm:
                    variants.append(mm.group(1))
                    VARIANT_KIND[(name, mm.group(1))] = {"(": "tuple", "{": "struct"}.get(mm.group(2), "unit")
            enums[name] = variants
    return enums


def parse_structs_from_source(src_texts):
    """struct name -> [field names] in declaration order (MIR field indices follow declaration order)."""
    structs = {}
    for text in src_texts:
        t = re.sub(r"//[^\n]*", "", text)
        t = re.sub(r"/\*.*?\*/", "", t, flags=re.S)
        for m in re.finditer(r"\bstruct\s+([A-Za-z_]\w*)\s*(<[^{;(]*>)?\s*(where[^{]*)?\{", t):
            name = m.group(1)
            i = m.end()
            depth = 1
            j = i
            while j < len(t) and depth:
                if t[j] == "{":
                    depth += 1
                elif t[j] == "}":
                    depth -= 1
                j += 1
            body = t[i:j - 1]
            fields = []
            for part in mirparse.split_top(body):
                part = part.strip()
                while part.startswith("#"):
                    k = mirparse.scan_balanced(part, part.index("[") + 1, "]")
                    part = part[k + 1:].strip()
                part = re.sub(r"^pub(\([^)]*\))?\s+", "", part)
                mm = re.match(r"([A-Za-z_]\w*)\s*:", part)
                if mm:
                    fields.append(mm.group(1))
            structs[name] = fields
    return structs


# ------------------------------------------------------------------ nodes

_counter = itertools.count()


class Node:
    __slots__ = ("root", "idxs", "path", "ty", "term", "target", "tag", "variants", "fields", "length",
                 "elems", "conc", "vec")

    def __init__(self, root, idxs=(), path="", ty=None):
        self.root = root
        self.idxs = idxs
        self.path = path
        self.ty = ty
        self.term = None      # scalar value
        self.target = None    # pointee (for references / raw pointers / boxes' inner pointer)
        self.tag = None       # enum discriminant term (BV64)
        self.variants = None  # variant name -> Node (payload aggregate)
        self.fields = None    # idx -> Node
        self.length = None    # slice length term (BV64)
        self.elems = None     # list of (index term, Node)
        self.conc = None      # python constant (str literal, fn item name, ...)
        self.vec = None       # Vec/String model: Node of the backing slice

    # -- naming
    def name(self, suffix=""):
        return "%s%s%s" % (self.root, self.path, suffix)

    def child(self, suffix, ty=None):
        return Node(self.root, self.idxs, self.path + suffix, ty)

    def leaf(self, suffix, sort):
        nm = self.name(suffix)
        if self.idxs:
            f = z3.Function(nm, *([i.sort() for i in self.idxs] + [sort]))
            return f(*self.idxs)
        return z3.Const(nm, sort)

    def is_materialised(self):
        return any(x is not None for x in (self.term, self.target, self.tag, self.variants, self.fields,
                                           self.length, self.elems, self.conc, self.vec))

    def __repr__(self):
        return "<Node %s %s>" % (self.name(), self.ty or "")


def fresh_root(prefix):
    return "%s%d" % (prefix, next(_counter))


BV64 = z3.BitVecSort(64)


def bv64(n):
    return z3.BitVecVal(n, 64)


def sort_of_kind(k):
    if k[0] == "bool":
        return z3.BoolSort()
    return z3.BitVecSort(k[1])


def mk_scalar(term, ty):
    n = Node(fresh_root("v"), ty=ty)
    n.term = term
    return n


def mk_bool(term):
    return mk_scalar(term, "bool")


def mk_usize(term):
    if isinstance(term, int):
        term = bv64(term)
    return mk_scalar(term, "usize")


def mk_unit():
    n = Node(fresh_root("unit"), ty="()")
    n.fields = {}
    return n


def mk_ref(target, ty=None):
    n = Node(fresh_root("r"), ty=ty)
    n.target = target
    return n


def mk_str(text):
    """&'static str literal."""
    s = Node("str:" + text, ty="str")
    s.conc = text
    s.length = bv64(len(text.encode()))
    return mk_ref(s, "&str")


TABLE = ("table",)     # .conc of a read-only constant table (generated jump tables): shared, never duplicated


def copy_node(n, memo=None, shallow_targets=True):
    """Value copy: materialised structure is duplicated, pointees are shared."""
    c = Node(n.root, n.idxs, n.path, n.ty)
    if n.conc is TABLE:
        c.conc = TABLE
        c.length = n.length
        c.elems = n.elems
        return c
    c.term = n.term
    c.target = n.target
    c.tag = n.tag
    c.length = n.length
    c.conc = n.conc
    if n.variants is not None:
        c.variants = {k: copy_node(v) for k, v in n.variants.items()}
    if n.fields is not None:
        c.fields = {k: copy_node(v) for k, v in n.fields.items()}
    if n.elems is not None:
        c.elems = [(i, copy_node(v)) for i, v in n.elems]
    c.vec = n.vec      # heap buffer: shared by moves/copies of the owning struct (Vec::clone is a model)
    return c


def assign_node(dst, src):
    """dst := src (by value); dst keeps its identity so that references to it observe the write."""
    c = copy_node(src)
    keep_ty = dst.ty
    for s in Node.__slots__:
        setattr(dst, s, getattr(c, s))
    if dst.ty is None:
        dst.ty = keep_ty


def clone_graph(n, memo):
    """Deep clone preserving aliasing (used when a state forks)."""
    if n is None:
        return None
    c = memo.get(id(n))
    if c is not None:
        return c
    c = Node(n.root, n.idxs, n.path, n.ty)
    memo[id(n)] = c
    if n.conc is TABLE:
        c.conc = TABLE
        c.length = n.length
        c.elems = n.elems
        return c
    c.term = n.term
    c.tag = n.tag
    c.length = n.length
    c.conc = n.conc
    c.target = clone_graph(n.target, memo)
    if n.variants is not None:
        c.variants = {k: clone_graph(v, memo) for k, v in n.variants.items()}
    if n.fields is not None:
        c.fields = {k: clone_graph(v, memo) for k, v in n.fields.items()}
    if n.elems is not None:
        c.elems = [(i, clone_graph(v, memo)) for i, v in n.elems]
    c.vec = clone_graph(n.vec, memo)
    return c


# ------------------------------------------------------------------ state

class Frame:
    __slots__ = ("fn", "locals", "bb", "dest", "ret_bb", "visits", "cont", "stash", "stmt_idx")

    def __init__(self, fn):
        self.fn = fn
        self.locals = {}
        self.bb = 0
        self.dest = None
        self.ret_bb = None
        self.visits = {}
        self.stmt_idx = None
        self.cont = None     # python continuation run when this frame returns (model-driven calls of closures)
        self.stash = None    # nodes the continuation needs (cloned with the state)


def clone_value(v, memo):
    if isinstance(v, Node):
        return clone_graph(v, memo)
    if isinstance(v, list):
        return [clone_value(x, memo) for x in v]
    if isinstance(v, tuple):
        return tuple(clone_value(x, memo) for x in v)
    if isinstance(v, dict):
        return {k: clone_value(x, memo) for k, x in v.items()}
    return v


class _Chain(tuple):
    """(root, path) of the pointee of a reference argument at call time; `.chain` holds the names along up to
    three further dereferences (pointers stored in locals may be overwritten later, names are not)."""

    def __new__(cls, t, a):
        if t is None:
            self = super().__new__(cls, ())
            self.chain = []
            return self
        self = super().__new__(cls, t)
        ch = []
        n = a
        for _ in range(4):
            n = n.target if n is not None else None
            if n is None:
                break
            ch.append((n.root, n.path))
        self.chain = ch
        return self

    def __bool__(self):
        return len(self) > 0


class Event:
    __slots__ = ("callee", "norm", "args", "ret", "site", "depth", "kind", "crate", "tnames")

    def __init__(self, callee, norm, args, ret, site, depth, kind="call", crate=False, tnames=None):
        self.crate = crate
        # symbolic names (root, path) of the pointees of reference arguments *at call time* (before any havoc)
        self.tnames = tnames if tnames is not None else [
            ((a.target.root, a.target.path) if (a is not None and a.target is not None) else None) for a in args]
        if isinstance(self.tnames, list) and (not self.tnames or not isinstance(self.tnames[0], _Chain)):
            self.tnames = [_Chain(t, a) for t, a in zip(self.tnames, args)] if tnames is None else self.tnames
        self.callee = callee
        self.norm = norm
        self.args = args
        self.ret = ret
        self.site = site
        self.depth = depth
        self.kind = kind

    def __repr__(self):
        return "<%s %s @%s>" % (self.kind, self.norm, self.site)


class State:
    def __init__(self):
        self.frames = []
        self.pc = []
        self.trace = []
        self.assumptions = []   # environment contracts used (strings)
        self.extra = {}
        self.heap = {}          # symbolic pointer name -> pointee node (interned lazily)

    def clone(self):
        memo = {}
        s = State()
        s.pc = list(self.pc)
        s.assumptions = list(self.assumptions)
        for f in self.frames:
            g = Frame(f.fn)
            g.bb = f.bb
            g.ret_bb = f.ret_bb
            g.visits = dict(f.visits)
            g.locals = {k: clone_graph(v, memo) for k, v in f.locals.items()}
            g.dest = clone_graph(f.dest, memo)
            g.stmt_idx = f.stmt_idx
            g.cont = f.cont
            g.stash = clone_value(f.stash, memo) if f.stash is not None else None
            s.frames.append(g)
        for e in self.trace:
            s.trace.append(Event(e.callee, e.norm, [clone_graph(a, memo) for a in e.args],
                                 clone_graph(e.ret, memo), e.site, e.depth, e.kind, e.crate, e.tnames))
        s.extra = {k: clone_value(v, memo) for k, v in self.extra.items()}
        s.heap = {k: clone_graph(v, memo) for k, v in self.heap.items()}
        return s


class Path:
    def __init__(self, state, outcome, detail=None, ret=None, site=None):
        self.state = state
        self.pc = list(state.pc)
        self.trace = list(state.trace)
        self.outcome = outcome      # 'return' | 'panic' | 'cut' | 'unsupported'
        self.detail = detail        # panic message / cut reason
        self.ret = ret
        self.site = site
        self.args = state.extra.get("args")

    def crate_calls(self):
        """Calls into the crate itself or into the driver (std helpers such as iterators are left out)."""
        return [e for e in self.trace if e.kind == "call" and e.crate]

    def calls(self, pattern=None):
        if pattern is None:
            return [e for e in self.trace if e.kind == "call"]
        rx = re.compile(pattern)
        return [e for e in self.trace if e.kind == "call" and rx.search(e.norm)]

    def __repr__(self):
        return "<Path %s %s calls=%s>" % (self.outcome, self.detail or "", [e.norm for e in self.trace])


# ------------------------------------------------------------------ callee-name normalisation

def strip_turbofish(s):
    out = []
    i = 0
    n = len(s)
    while i < n:
        if s.startswith("::<", i) and not s.startswith("::<impl ", i):
            j = mirparse.scan_balanced(s, i + 3, ">")
            i = j + 1
            continue
        out.append(s[i])
        i += 1
    return "".join(out)


def clean_path(text):
    t = strip_turbofish(strip_lifetimes(text))
    while "::::" in t:
        t = t.replace("::::", "::")
    return t


def normalise_callee(text):
    """`Option::<InputValue>::unwrap` -> `Option::unwrap`;
    `<Result<A, B> as Try>::branch` -> `<Result as Try>::branch`;
    `<&i64 as BitAnd<i64>>::bitand` -> `<&i64 as BitAnd>::bitand`."""
    t = strip_lifetimes(text.strip())
    t = re.sub(r"<impl \[[^\]]*\]>", "<impl [T]>", t)
    t = _normalise_callee(t)
    while "::::" in t:
        t = t.replace("::::", "::")
    return t


def _normalise_callee(t):
    if t.startswith("<"):
        j = mirparse.scan_balanced(t, 1, ">")
        inside = t[1:j]
        rest = strip_turbofish(t[j + 1:])
        k = 0
        as_pos = -1
        while k < len(inside):
            m = mirparse.scan_balanced(inside, k, " ")
            if m >= len(inside):
                break
            if inside.startswith(" as ", m):
                as_pos = m
                break
            k = m + 1
        if as_pos >= 0:
            a = inside[:as_pos]
            b = inside[as_pos + 4:]
            return "<%s as %s>%s" % (_head_keep_ref(a), _head_keep_ref(b), rest)
        return "<%s>%s" % (_head_keep_ref(inside), rest)
    return strip_turbofish(t)


def _head_keep_ref(ty):
    ty = ty.strip()
    pref = ""
    while True:
        for p in ("&mut ", "&", "*const ", "*mut "):
            if ty.startswith(p):
                pref += p
                ty = ty[len(p):]
                break
        else:
            break
    if ty.startswith("{closure@"):
        return pref + "{closure}"
    if ty.startswith("["):
        return pref + "[_]"
    if ty.startswith("("):
        return pref + "(_)"
    i = mirparse.scan_balanced(ty, 0, "<")
    return pref + ty[:i].split("::")[-1]


# ------------------------------------------------------------------ the engine

class Cut(Exception):
    """Path ends here (not an error)."""
    def __init__(self, outcome, detail=None, ret=None):
        self.outcome = outcome
        self.detail = detail
        self.ret = ret


class Engine:
    def __init__(self, funcs, enums, profile="dev", timeout_ms=60000, repo_root="/repo"):
        self.funcs = funcs
        self.repo_root = repo_root
        self.enums = dict(STD_ENUMS)
        self.enums.update(enums)
        self.profile = profile
        self.solver = z3.Solver()
        self.solver.set("timeout", timeout_ms)
        self.timeout_ms = timeout_ms
        self.inline = {}        # normalised callee -> Function
        self.models = {}        # normalised callee (or regex) -> python model
        self.model_rx = []
        self.max_visits = 1     # per block per frame (loop cut)
        self.paths = []
        self.stats = {"solver_checks": 0, "branches_pruned": 0, "blocks": 0, "solver_s": 0.0, "forks": 0}
        self.max_paths = 20000
        self.on_loop = "cut"
        self.record_inlined = True
        self.pure = {}          # normalised callee -> True : result is an uninterpreted function of scalar args
        self.auto_inline = True   # crate-local acyclic helpers are executed, not havocked ...
        self.keep = []            # ... except callees matching these regexes (kept as trace events)
        self.auto_inline_max_blocks = 80
        self.keep_path = None       # predicate on the outcome: which paths to retain (None = all)
        self.outcomes = {}
        self.npaths = 0
        self.deadline = None
        self.max_recursion = 1      # how many activations of one function may be on the stack (bounded recursion)
        self.path_hook = None
        self.drop_hook = None       # fn(eng, st, frame, place, type) called for MIR drop terminators (RefCell guards)
        self.cut_blocks = set()     # blocks of the explored function at which a second visit ends the path (segment cut)
        self.inline_cyclic = False  # bounded-loop mode: cyclic crate functions are executed too (max_visits per block)
        self.auto_inline_depth = 5
        self.inlined_fns = set()
        self._index = None
        self.cur_state = None
        self.view_heap = {}
        from . import models
        models.install(self)
        from . import itermodels
        itermodels.install(self)

    def keep_events(self, *patterns):
        self.keep.extend(re.compile(p) for p in patterns)
        return self

    # ---------------- callee resolution (crate-local bodies)
    def index(self):
        if self._index is not None:
            return self._index
        idx = {}
        impl_cache = {}
        for name, fn in self.funcs.items():
            if fn.kind != "fn" or "{closure" in name or "promoted" in name:
                continue
            name = re.sub(r"#\d+$", "", name)     # same-named bodies stay ambiguous (never silently the first)
            m = re.search(r"<impl at (src/[\w/]+\.rs):(\d+):(\d+): \d+:(\d+)>::([A-Za-z_]\w*(?:::[A-Za-z_]\w*)*)$", name)
            if m:
                key = (m.group(1), int(m.group(2)), int(m.group(3)), int(m.group(4)))
                if key not in impl_cache:
                    impl_cache[key] = impl_header(self.repo_root, key[0], key[1], key[2], key[3])
                trait, selfty = impl_cache[key]
                if selfty is None:
                    continue
                meth = m.group(5)
                idx.setdefault("%s::%s" % (selfty, meth), []).append(fn)
                if trait:
                    idx.setdefault("<%s as %s>::%s" % (selfty, trait, meth), []).append(fn)
            elif re.fullmatch(r"(?:[a-z_]\w*::)*[A-Za-z_]\w*", name):
                idx.setdefault(name.split("::")[-1], []).append(fn)
        self._index = idx
        return idx

    def resolve(self, norm, nargs):
        idx = self.index()
        m = re.fullmatch(r"(?:\w+::)*<impl ([A-Za-z_]\w*)(?:<.*>)?>::(\w+)", norm)
        if m:
            norm = "%s::%s" % (m.group(1), m.group(2))
        cands = idx.get(norm)
        if cands is None and not norm.startswith("<"):
            # `module::func` / `Type::method` with a module prefix
            segs = norm.split("::")
            if len(segs) >= 2:
                cands = idx.get("::".join(segs[-2:]))
            if cands is None:
                cands = idx.get(segs[-1]) if len(segs) == 1 else None
        if not cands:
            return None
        cands = [c for c in cands if len(c.params) == nargs]
        return cands[0] if len(cands) == 1 else None

    # ---------------- solver helpers
    def feasible(self, extra=None):
        import time
        t = time.time()
        self.stats["solver_checks"] += 1
        if extra is not None:
            self.solver.push()
            self.solver.add(extra)
        r = self.solver.check()
        if extra is not None:
            self.solver.pop()
        self.stats["solver_s"] += time.time() - t
        if r == z3.unknown:
            raise Unsupported("solver returned unknown during exploration")
        return r == z3.sat

    # ---------------- enum helpers
    def variant_index(self, enum_head, variant):
        vs = self.enums.get(enum_head)
        if vs is None or variant not in vs:
            return None
        if enum_head in STD_ENUM_DISCR:
            return STD_ENUM_DISCR[enum_head][variant]
        return vs.index(variant)

    def tag_of(self, node, st):
        if node.tag is None:
            node.tag = node.leaf(".tag", BV64)
            head = type_head(node.ty) if node.ty else None
            vs = self.enums.get(head)
            if vs is not None and head not in STD_ENUM_DISCR and st is not None:
                c = z3.ULT(node.tag, bv64(len(vs)))
                st.pc.append(c)
                self.solver.add(c)
        return node.tag

    # ---------------- node views
    def scalar(self, node, ty=None):
        if node.term is None:
            k = scalar_kind(node.ty) or scalar_kind(ty)
            if k is None:
                raise Unsupported("scalar read of non-scalar %r (ty %r / %r)" % (node, ty, node.ty))
            node.term = node.leaf("", sort_of_kind(k))
            if scalar_kind(node.ty) is None:
                node.ty = ty
        return node.term

    def field(self, node, idx, ty=None):
        if node.fields is None:
            node.fields = {}
        f = node.fields.get(idx)
        if f is None:
            f = node.child(".%s" % idx, ty)
            node.fields[idx] = f
        elif f.ty is None:
            f.ty = ty
        return f

    def downcast(self, node, variant):
        if node.variants is None:
            node.variants = {}
        v = node.variants.get(variant)
        if v is None:
            v = node.child("#%s" % variant, node.ty)
            node.variants[variant] = v
        return v

    def deref(self, node, ty=None):
        """Pointee of a pointer-like node. Lazily created pointees are interned per state by the pointer's
        symbolic name, so every copy of the same symbolic pointer dereferences to the same object."""
        if node.target is None:
            if node.vec is not None:
                return node.vec
            heap = self.cur_state.heap if self.cur_state is not None else self.view_heap
            key = (node.root, tuple(i.get_id() for i in node.idxs), node.path)
            t = heap.get(key)
            if t is None:
                t = node.child(".*", ty or strip_ref(node.ty))
                heap[key] = t
            node.target = t
        return node.target

    def intern(self, node, suffix, ty=None):
        """Heap object owned by `node` (e.g. a Vec's buffer), interned per state by symbolic name."""
        heap = self.cur_state.heap if self.cur_state is not None else self.view_heap
        key = (node.root, tuple(i.get_id() for i in node.idxs), node.path + suffix)
        t = heap.get(key)
        if t is None:
            t = node.child(suffix, ty)
            heap[key] = t
        return t

    def focus(self, path_or_state):
        """Navigate (deref) relative to the final state of a path; None = initial-state view."""
        if path_or_state is None:
            self.cur_state = None
        else:
            self.cur_state = getattr(path_or_state, "state", path_or_state)
        return self

    def length(self, node):
        if node.length is None:
            node.length = node.leaf(".len", BV64)
        return node.length

    def elem(self, node, idx_term, ty=None):
        """Element of a slice-like node at a (symbolic) index; no bounds check here."""
        if isinstance(node.conc, tuple) and node.conc[0] == "fill":
            return copy_node(node.fields[0])
        if node.elems is None:
            node.elems = []
        idx_term = z3.simplify(idx_term)
        for i, e in node.elems:
            if z3.eq(i, idx_term):
                return e
        e = Node(node.root, node.idxs + (idx_term,), node.path + "[]", ty or elem_ty(node.ty))
        node.elems.append((idx_term, e))
        return e

    # ---------------- place / operand evaluation
    def local_ty(self, frame, n):
        return frame.fn.locals.get(n)

    def place(self, st, frame, p):
        k = p[0]
        if k == "local":
            n = frame.locals.get(p[1])
            if n is None:
                n = Node(fresh_root("u%d_" % p[1]), ty=self.local_ty(frame, p[1]))
                frame.locals[p[1]] = n
            return n
        if k == "deref":
            base = self.place(st, frame, p[1])
            return self.deref(base)
        if k == "field":
            base = self.place(st, frame, p[1])
            return self.field(base, p[2], p[3])
        if k == "downcast":
            base = self.place(st, frame, p[1])
            return self.downcast(base, p[2])
        if k == "index":
            base = self.place(st, frame, p[1])
            idx = self.scalar(self.place(st, frame, ("local", p[2])), "usize")
            return self.index_node(st, base, idx)
        if k == "cindex":
            base = self.place(st, frame, p[1])
            if p[4]:
                idx = self.length(base) - bv64(p[2])
            else:
                idx = bv64(p[2])
            return self.index_node(st, base, idx)
        raise Unsupported("place kind %s" % k)

    def index_node(self, st, base, idx):
        from .itermodels import index_elem
        if base.vec is not None:
            base = base.vec
        return index_elem(self, st, base, idx)

    def operand(self, st, frame, op, ty_hint=None):
        k = op[0]
        if k in ("copy", "move"):
            n = self.place(st, frame, op[1])
            return copy_node(n)
        if k == "const":
            return self.const(op[1], ty_hint)
        raise Unsupported("operand %r" % (op,))

    def const(self, text, ty_hint=None):
        t = text.strip()
        if t in ("true", "false"):
            return mk_bool(z3.BoolVal(t == "true"))
        m = re.fullmatch(r"(-?\d+)_([iu](?:8|16|32|64|128|size))", t)
        if m:
            w, _ = INT_TYPES[m.group(2)]
            return mk_scalar(z3.BitVecVal(int(m.group(1)), w), m.group(2))
        m = re.fullmatch(r"(?:(?:core|std)::num::<impl )?([iu](?:8|16|32|64|128|size))>?::(MIN|MAX)", t)
        if m:
            w, s = INT_TYPES[m.group(1)]
            if s:
                v = -(1 << (w - 1)) if m.group(2) == "MIN" else (1 << (w - 1)) - 1
            else:
                v = 0 if m.group(2) == "MIN" else (1 << w) - 1
            return mk_scalar(z3.BitVecVal(v, w), m.group(1))
        if t.startswith('"'):
            body = t[1:t.rindex('"')]
            try:
                body = bytes(body, "utf-8").decode("unicode_escape")
            except Exception:
                pass
            return mk_str(body)
        m = re.fullmatch(r"'(.)'", t)
        if m:
            return mk_scalar(z3.BitVecVal(ord(m.group(1)), 32), "char")
        if t == "()":
            return mk_unit()
        # unit enum variants of known enums, e.g. `const TokenKind::Eol` / `Option::<T>::None`
        nt = clean_path(t)
        m = re.fullmatch(r"(?:[\w]+::)*([A-Za-z_]\w*)::([A-Za-z_]\w*)", nt)
        if (m and self.variant_index(m.group(1), m.group(2)) is not None
                and VARIANT_KIND.get((m.group(1), m.group(2)), "unit") == "unit"):
            n = Node(fresh_root("k"), ty=m.group(1))
            n.tag = bv64(self.variant_index(m.group(1), m.group(2)))
            n.variants = {}
            return n
        # promoted constants / consts / statics whose body is in the dump: evaluate the body
        body = self.const_body(t)
        if body is not None:
            return copy_node(body)
        # anything else: an opaque constant, identified by its text
        n = Node("const:" + t, ty=ty_hint)
        n.conc = ("const", t)
        return n

    def const_body(self, text):
        cache = self.__dict__.setdefault("_consts", {})
        key = strip_lifetimes(text).replace("::<>", "")
        if key in cache:
            return cache[key]
        fn = None
        cands = [strip_lifetimes(text), key, re.sub(r"::<[^>]*>", "", strip_lifetimes(text))]
        gen = self._generated_item(text)
        if gen is not None:
            cache[key] = gen
            return gen
        for name, f in self.funcs.items():
            if f.kind != "fn" or "promoted" in name:
                nn = strip_lifetimes(name)
                if nn in cands or re.sub(r"<impl at [^>]*>", "", nn) in cands:
                    fn = f
                    break
                # `Type::method::promoted[0]` vs dump name `module::<impl at ..>::method::promoted[0]`
                if "promoted" in nn and nn.split("::")[-1] == key.split("::")[-1]:
                    a = [x for x in re.sub(r"<impl at [^>]*>", "", nn).split("::") if x]
                    b = [x for x in key.split("::") if x]
                    if len(a) >= 2 and len(b) >= 2 and a[-2] == b[-2] and (len(a) < 3 or len(b) < 3 or a[-3] == b[-3]
                                                                              or "closure" not in a[-2]):
                        fn = f
                        break
        val = None
        if fn is not None:
            try:
                val = self.eval_straight(fn)
            except Unsupported:
                val = None
        cache[key] = val
        return val

    def _generated_item(self, text):
        """Constants and statics that a derive macro nests inside generated functions (logos jump tables):
        `<T as Logos<'s>>::lex::goto15::LUT`, `<T as Logos<'s>>::lex::pattern1::LUT`,
        `<static(DefId(.. ~ crate[..]::..::lex::COMPACT_TABLE_0))>`.  Same-named items are refused, never guessed."""
        t = strip_lifetimes(text).strip()
        ms = re.fullmatch(r"<static\(DefId\([^~]*~ [^)]*?::([A-Za-z_]\w*)\)\)>", t)
        if ms:
            nm = ms.group(1)
            f = self.funcs.get(nm)
            if f is None or f.kind != "static" or (nm + "#2") in self.funcs:
                return None
            body = self.eval_straight(f)
            if body is not None and body.elems is not None and len(body.elems) >= 16 and body.conc is None:
                body.conc = TABLE
            r = mk_ref(body, "&" + (f.ret_ty or ""))
            return r
        if "::lex::" not in t:
            return None
        norm = normalise_callee(t)
        tail = norm.split("::lex::", 1)[1]
        hits = []
        for name, f in self.funcs.items():
            if f.kind == "fn":
                continue
            base = re.sub(r"#\d+$", "", name)
            if base == tail:
                hits.append(f)
                continue
            m = re.search(r"<impl at (src/[\w/]+\.rs):(\d+):(\d+): \d+:(\d+)>::(.*)$", base)
            if m and m.group(5).endswith("lex::" + tail):
                trait, selfty = impl_header(self.repo_root, m.group(1), int(m.group(2)), int(m.group(3)), int(m.group(4)))
                if selfty and norm.startswith("<%s as " % selfty):
                    hits.append(f)
        if len(hits) != 1:
            return None
        try:
            v = self.eval_straight(hits[0])
        except Unsupported:
            return None
        if v is not None and v.elems is not None and len(v.elems) >= 16 and v.conc is None:
            v.conc = TABLE
        return v

    def eval_straight(self, fn):
        """Evaluate a body without branches (promoted constants)."""
        st = State()
        fr = Frame(fn)
        st.frames.append(fr)
        saved = self.cur_state
        self.cur_state = st
        try:
            bb = 0
            for _ in range(64):
                stmts, term = fn.blocks[bb]
                for s_ in stmts:
                    self.statement(st, fr, s_)
                if term[0] == "return":
                    return fr.locals.get(0)
                if term[0] == "goto":
                    bb = term[1]
                    continue
                raise Unsupported("const body with terminator %s" % term[0])
        finally:
            self.cur_state = saved
        raise Unsupported("const body too long")

    # ---------------- rvalues
    def rvalue(self, st, frame, rv, dest_ty=None):
        k = rv[0]
        if k == "use":
            return self.operand(st, frame, rv[1], dest_ty)
        if k == "ref":
            target = self.place(st, frame, rv[2])
            return mk_ref(target, dest_ty)
        if k == "discr":
            n = self.place(st, frame, rv[1])
            return mk_scalar(self.tag_of(n, st), "isize")
        if k == "len":
            n = self.place(st, frame, rv[1])
            return mk_usize(self.length(n))
        if k == "unop":
            a = self.operand(st, frame, rv[2])
            if rv[1] == "PtrMetadata":
                tgt = self.deref(a)
                if tgt.vec is not None:
                    tgt = tgt.vec
                return mk_usize(self.length(tgt))
            if rv[1] == "Not":
                t = self.scalar(a, dest_ty)
                return mk_scalar(z3.Not(t) if z3.is_bool(t) else ~t, a.ty or dest_ty)
            if rv[1] == "Neg":
                t = self.scalar(a, dest_ty)
                return mk_scalar(-t, a.ty or dest_ty)
            raise Unsupported("unop %s" % rv[1])
        if k == "binop":
            a = self.operand(st, frame, rv[2])
            b = self.operand(st, frame, rv[3])
            return self.binop(rv[1], a, b, dest_ty)
        if k == "cast":
            a = self.operand(st, frame, rv[1])
            return self.cast(a, rv[2], rv[3])
        if k == "agg_tuple" or k == "agg_array":
            n = Node(fresh_root("t"), ty=dest_ty)
            if k == "agg_tuple":
                n.fields = {i: self.operand(st, frame, o) for i, o in enumerate(rv[1])}
            else:
                n.elems = [(bv64(i), self.operand(st, frame, o)) for i, o in enumerate(rv[1])]
                n.length = bv64(len(rv[1]))
            return n
        if k == "agg_struct":
            path = clean_path(rv[1])
            segs = path.split("::")
            if len(segs) >= 2 and self.variant_index(segs[-2], segs[-1]) is not None:
                n = Node(fresh_root("e"), ty=dest_ty or segs[-2])
                n.tag = bv64(self.variant_index(segs[-2], segs[-1]))
                payload = Node(fresh_root("p"), ty=n.ty)
                payload.fields = {i: self.operand(st, frame, o) for i, (_, o) in enumerate(rv[2])}
                n.variants = {segs[-1]: payload}
                return n
        if k == "agg_struct" or k == "agg_closure":
            n = Node(fresh_root("s"), ty=dest_ty or rv[1])
            n.fields = {i: self.operand(st, frame, o) for i, (_, o) in enumerate(rv[2])}
            return n
        if k == "agg_variant":
            path = clean_path(rv[1])
            segs = path.split("::")
            ops = [self.operand(st, frame, o) for o in rv[2]]
            if len(segs) >= 2 and self.variant_index(segs[-2], segs[-1]) is not None:
                n = Node(fresh_root("e"), ty=dest_ty or segs[-2])
                n.tag = bv64(self.variant_index(segs[-2], segs[-1]))
                payload = Node(fresh_root("p"), ty=n.ty)
                payload.fields = {i: o for i, o in enumerate(ops)}
                n.variants = {segs[-1]: payload}
                return n
            # tuple struct constructor
            n = Node(fresh_root("s"), ty=dest_ty or path)
            n.fields = {i: o for i, o in enumerate(ops)}
            return n
        if k == "repeat":
            n = Node(fresh_root("a"), ty=dest_ty)
            v = self.operand(st, frame, rv[1])
            try:
                cnt = int(re.match(r"(\d+)", rv[2].replace("const ", "")).group(1))
            except Exception:
                raise Unsupported("repeat count %r" % rv[2])
            n.elems = [(bv64(i), copy_node(v)) for i in range(cnt)]
            n.length = bv64(cnt)
            return n
        raise Unsupported("rvalue %r" % (rv,))

    def signed(self, node, default=False):
        k = scalar_kind(node.ty)
        if k and k[0] == "bv":
            return k[2]
        return default

    def binop(self, name, a, b, dest_ty=None):
        # pointer comparisons etc. are not modelled
        if scalar_kind(a.ty) is None and scalar_kind(b.ty) is not None and not name.startswith("Sh"):
            a.ty = b.ty
        ta = self.scalar(a, dest_ty)
        tb = self.scalar(b, a.ty)
        if z3.is_bool(ta) != z3.is_bool(tb):
            raise Unsupported("binop sort mismatch")
        sg = self.signed(a)
        ty = a.ty
        if z3.is_bool(ta):
            ops = {"BitAnd": z3.And, "BitOr": z3.Or, "BitXor": z3.Xor, "Eq": lambda x, y: x == y,
                   "Ne": lambda x, y: x != y}
            if name not in ops:
                raise Unsupported("bool binop %s" % name)
            return mk_bool(ops[name](ta, tb))
        w = ta.size()
        if name in ("Shl", "Shr", "ShlUnchecked", "ShrUnchecked"):
            # MIR semantics: the shift amount is reduced modulo the width of the left operand
            wb = tb.size()
            amt = tb
            if wb > w:
                amt = z3.Extract(w - 1, 0, tb)
            elif wb < w:
                amt = z3.ZeroExt(w - wb, tb)
            amt = amt & z3.BitVecVal(w - 1, w)
            if name.startswith("Shl"):
                return mk_scalar(ta << amt, ty)
            return mk_scalar((ta >> amt) if sg else z3.LShR(ta, amt), ty)
        if tb.size() != w:
            raise Unsupported("binop width mismatch %s" % name)
        if name in ("Add", "AddUnchecked"):
            return mk_scalar(ta + tb, ty)
        if name in ("Sub", "SubUnchecked"):
            return mk_scalar(ta - tb, ty)
        if name in ("Mul", "MulUnchecked"):
            return mk_scalar(ta * tb, ty)
        if name == "Div":
            return mk_scalar(ta / tb if sg else z3.UDiv(ta, tb), ty)
        if name == "Rem":
            return mk_scalar(z3.SRem(ta, tb) if sg else z3.URem(ta, tb), ty)
        if name == "BitAnd":
            return mk_scalar(ta & tb, ty)
        if name == "BitOr":
            return mk_scalar(ta | tb, ty)
        if name == "BitXor":
            return mk_scalar(ta ^ tb, ty)
        if name == "Eq":
            return mk_bool(ta == tb)
        if name == "Ne":
            return mk_bool(ta != tb)
        if name == "Lt":
            return mk_bool(ta < tb if sg else z3.ULT(ta, tb))
        if name == "Le":
            return mk_bool(ta <= tb if sg else z3.ULE(ta, tb))
        if name == "Gt":
            return mk_bool(ta > tb if sg else z3.UGT(ta, tb))
        if name == "Ge":
            return mk_bool(ta >= tb if sg else z3.UGE(ta, tb))
        if name in ("AddWithOverflow", "SubWithOverflow", "MulWithOverflow"):
            if name[0] == "A":
                res = ta + tb
                ovf = z3.Not(z3.BVAddNoOverflow(ta, tb, sg))
                if sg:
                    ovf = z3.Or(ovf, z3.Not(z3.BVAddNoUnderflow(ta, tb)))
            elif name[0] == "S":
                res = ta - tb
                ovf = z3.Not(z3.BVSubNoUnderflow(ta, tb, sg))
                if sg:
                    ovf = z3.Or(ovf, z3.Not(z3.BVSubNoOverflow(ta, tb)))
            else:
                res = ta * tb
                ovf = z3.Not(z3.BVMulNoOverflow(ta, tb, sg))
                if sg:
                    ovf = z3.Or(ovf, z3.Not(z3.BVMulNoUnderflow(ta, tb)))
            n = Node(fresh_root("t"), ty="(%s, bool)" % ty)
            n.fields = {0: mk_scalar(res, ty), 1: mk_bool(ovf)}
            return n
        raise Unsupported("binop %s" % name)

    def cast(self, a, ty, kind):
        kind0 = kind.split("(")[0]
        if kind0 == "IntToInt":
            src = self.scalar(a)
            dk = scalar_kind(ty)
            if dk is None:
                raise Unsupported("cast to %s" % ty)
            if z3.is_bool(src):
                if dk[0] == "bool":
                    return mk_bool(src)
                return mk_scalar(z3.If(src, z3.BitVecVal(1, dk[1]), z3.BitVecVal(0, dk[1])), ty)
            sw = src.size()
            dw = dk[1]
            if dw == sw:
                t = src
            elif dw < sw:
                t = z3.Extract(dw - 1, 0, src)
            else:
                t = z3.SignExt(dw - sw, src) if self.signed(a) else z3.ZeroExt(dw - sw, src)
            return mk_scalar(t, ty)
        if kind0 in ("Transmute", "PtrToPtr", "PointerCoercion", "Subtype"):
            c = copy_node(a)
            c.ty = ty
            return c
        raise Unsupported("cast kind %s" % kind)

    # ---------------- exploration
    def explore(self, fn, args=None, start_bb=0, setup=None, max_visits=None):
        """Run `fn` from `start_bb` with symbolic arguments. Returns list of Path.
        (Executed on a thread with a large stack: deep fork nesting recurses in Python.)"""
        import sys
        import threading
        box = {}

        def work():
            try:
                box["r"] = self._explore(fn, args, start_bb, setup, max_visits)
            except BaseException as e:      # noqa: re-raised in the caller's thread
                box["e"] = e
        old = sys.getrecursionlimit()
        sys.setrecursionlimit(max(old, 1000000))
        threading.stack_size(1 << 30)
        t = threading.Thread(target=work)
        t.start()
        t.join()
        threading.stack_size(0)
        if "e" in box:
            raise box["e"]
        return box["r"]

    def _explore(self, fn, args=None, start_bb=0, setup=None, max_visits=None):
        global _counter
        self.paths = []
        self.outcomes = {}
        self.npaths = 0
        self.solver.reset()
        self.solver.set("timeout", self.timeout_ms)
        if max_visits is not None:
            self.max_visits = max_visits
        st = State()
        fr = Frame(fn)
        fr.bb = start_bb
        argnodes = {}
        for (n, ty) in fn.params:
            if args and n in args:
                node = args[n]
            else:
                node = Node("arg%d" % n, ty=ty)
            fr.locals[n] = node
            argnodes[n] = node
        if start_bb != 0:
            for n, ty in fn.locals.items():
                if n not in fr.locals and n != 0:
                    fr.locals[n] = Node("loc%d" % n, ty=ty)
        st.frames.append(fr)
        # keep the argument nodes reachable for obligations (aliasing preserved through clones)
        holder = Node("args")
        holder.fields = dict(argnodes)
        st.extra["args"] = holder
        self.cur_state = st
        if setup:
            setup(self, st, fr)
            for c in st.pc:
                self.solver.add(c)
        self.cur_state = st
        self._run(st)
        self.cur_state = None
        self.view_heap = {}
        return self.paths

    def _end(self, st, outcome, detail=None, ret=None, site=None):
        self.outcomes[outcome] = self.outcomes.get(outcome, 0) + 1
        self.npaths += 1
        keep = self.keep_path is None or self.keep_path(outcome)
        if self.path_hook is not None:
            # obligations that judge every path on the fly (and keep only the interesting ones)
            pth = Path(st, outcome, detail, ret, site)
            if self.path_hook(pth) or keep:
                self.paths.append(pth)
        elif keep:
            self.paths.append(Path(st, outcome, detail, ret, site))
        if self.npaths > self.max_paths:
            raise Unsupported("more than %d paths" % self.max_paths)
        if self.deadline is not None:
            import time
            if time.time() > self.deadline:
                raise Unsupported("exploration exceeded its time budget after %d paths" % self.npaths)

    def _fork(self, st, alternatives):
        """alternatives: list of (condition term or None, continuation(st)). Explores each feasible one."""
        feas = []
        for cond, cont in alternatives:
            if cond is None or self.feasible(cond):
                feas.append((cond, cont))
            else:
                self.stats["branches_pruned"] += 1
        for i, (cond, cont) in enumerate(feas):
            s2 = st if i == len(feas) - 1 else st.clone()
            self.stats["forks"] += 1
            self.solver.push()
            if cond is not None:
                self.solver.add(cond)
                s2.pc.append(cond)
            try:
                cont(s2)
            finally:
                self.solver.pop()

    def site(self, frame):
        return "%s:bb%d" % (short_name(frame.fn.name), frame.bb)

    def _run(self, st):
        from .itermodels import NeedSplit
        while True:
            self.cur_state = st
            frame = st.frames[-1]
            fn = frame.fn
            bb = frame.bb
            resume = frame.stmt_idx          # None, or (bb, statement index) after a NeedSplit
            frame.stmt_idx = None
            if resume is not None and resume[0] != bb:
                resume = None
            if resume is None:
                v = frame.visits.get(bb, 0)
                if v >= 1 and len(st.frames) == 1 and bb in self.cut_blocks:
                    self._end(st, "cut", "loop:bb%d" % bb, site=self.site(frame))
                    return
                if v >= self.max_visits:
                    self._end(st, "cut", "loop:bb%d" % bb, site=self.site(frame))
                    return
                frame.visits[bb] = v + 1
                self.stats["blocks"] += 1
            if bb not in fn.blocks:
                self._end(st, "unsupported", "missing block bb%d" % bb, site=self.site(frame))
                return
            stmts, term = fn.blocks[bb]
            i = resume[1] if resume is not None else 0
            try:
                while i < len(stmts):
                    self.statement(st, frame, stmts[i])
                    i += 1
                cont = self.terminator(st, frame, term)
            except NeedSplit as ns:
                if st.frames[-1] is not frame:
                    self._end(st, "unsupported", "symbolic index into a concrete vector inside a model continuation",
                              site=self.site(frame))
                    return
                self.stats["splits"] = self.stats.get("splits", 0) + 1
                frame.stmt_idx = (bb, i)
                self._fork(st, [(c, self._resume()) for c in ns.conds])
                return
            except Unsupported as e:
                self._end(st, "unsupported", str(e), site=self.site(frame))
                return
            except Cut as c:
                self._end(st, c.outcome, c.detail, c.ret, site=self.site(frame))
                return
            if cont is None:
                return

    def _resume(self):
        def cont(s2):
            self._run(s2)
        return cont

    def statement(self, st, frame, s):
        k = s[0]
        if k == "nop":
            return
        if k == "assign":
            dest_ty = self.place_ty(frame, s[1])
            val = self.rvalue(st, frame, s[2], dest_ty)
            dst = self.place(st, frame, s[1])
            assign_node(dst, val)
            self._log_write(st, frame, s[1])
            return
        if k == "setdiscr":
            dst = self.place(st, frame, s[1])
            dst.tag = bv64(s[2])
            self._log_write(st, frame, s[1])
            return
        if k == "assume":
            t = self.scalar(self.operand(st, frame, s[1]), "bool")
            st.pc.append(t)
            self.solver.add(t)
            return
        raise Unsupported("statement %r" % (s,))

    def _log_write(self, st, frame, p):
        """Stores through a dereference (memory the caller can see) are logged per path: (function, place, trace length)."""
        q, through = p, False
        chain = []
        while q[0] != "local":
            if q[0] == "deref":
                through = True
            chain.append(q[0] if q[0] != "field" else "f%s" % (q[2],))
            q = q[1]
        if through:
            st.extra.setdefault("writes", []).append((short_name(frame.fn.name), "_%d.%s" % (q[1], ".".join(reversed(chain))),
                                                      len(st.trace), len(st.frames)))

    def place_ty(self, frame, p):
        k = p[0]
        if k == "local":
            return frame.fn.locals.get(p[1])
        if k == "field":
            return p[3]
        if k == "deref":
            return strip_ref(self.place_ty(frame, p[1]))
        if k == "downcast":
            return self.place_ty(frame, p[1])
        if k in ("index", "cindex"):
            return elem_ty(self.place_ty(frame, p[1]))
        return None

    def terminator(self, st, frame, term):
        """Returns True to continue the straight-line loop, None if this path was finished/forked."""
        k = term[0]
        if k == "goto":
            frame.bb = term[1]
            return True
        if k == "drop":
            if self.drop_hook is not None:
                try:
                    ty = self.place_ty(frame, term[1])
                except Exception:
                    ty = None
                if ty:
                    self.drop_hook(self, st, frame, term[1], ty)
            frame.bb = term[2]
            return True
        if k == "return":
            ret = frame.locals.get(0)
            if ret is None:
                ret = mk_unit()
            if len(st.frames) == 1:
                self._end(st, "return", ret=ret, site=self.site(frame))
                return None
            st.frames.pop()
            caller = st.frames[-1]
            if frame.cont is not None:
                if self.record_inlined:
                    st.trace.append(Event(frame.fn.name, "ret:" + short_name(frame.fn.name), [], copy_node(ret),
                                          self.site(caller), len(st.frames), "inline-ret"))
                return frame.cont(self, st, frame.stash, ret)
            if frame.dest is not None:
                assign_node(frame.dest, ret)
            if self.record_inlined:
                st.trace.append(Event(frame.fn.name, "ret:" + short_name(frame.fn.name), [], copy_node(ret),
                                      self.site(caller), len(st.frames), "inline-ret"))
            if frame.ret_bb is None:
                raise Unsupported("return from diverging call")
            caller.bb = frame.ret_bb
            return True
        if k == "unreachable":
            # rustc emits this for statically impossible arms: treat as infeasible (assume false)
            raise Cut("infeasible", "unreachable terminator")
        if k == "resume":
            raise Cut("cut", "resume")
        if k == "switch":
            op = self.operand(st, frame, term[1])
            t = self.scalar(op)
            alts = []
            if z3.is_bool(t):
                conds = []
                for val, bb in term[2]:
                    c = t if val != 0 else z3.Not(t)
                    conds.append(c)
                    alts.append((c, self._goto(bb)))
                if term[3] is not None:
                    alts.append((z3.And([z3.Not(c) for c in conds]) if conds else None, self._goto(term[3])))
            else:
                w = t.size()
                conds = []
                for val, bb in term[2]:
                    c = t == z3.BitVecVal(val, w)
                    conds.append(c)
                    alts.append((c, self._goto(bb)))
                if term[3] is not None:
                    alts.append((z3.And([z3.Not(c) for c in conds]) if conds else None, self._goto(term[3])))
            self._fork(st, alts)
            return None
        if k == "assert":
            t = self.scalar(self.operand(st, frame, term[1]), "bool")
            ok = t if term[2] else z3.Not(t)
            msg = term[3]
            site = self.site(frame)

            def fail(s2, msg=msg):
                self._end(s2, "panic", "assert: " + msg, site=site)

            self._fork(st, [(z3.Not(ok), fail), (ok, self._goto(term[5]))])
            return None
        if k == "call":
            return self.call(st, frame, term)
        raise Unsupported("terminator %r" % (term,))

    def _goto(self, bb):
        def cont(s2):
            s2.frames[-1].bb = bb
            self._run(s2)
        return cont

    # ---------------- calls
    def call(self, st, frame, term):
        _, dest, callee, ops, ret_bb = term
        norm = normalise_callee(callee)
        args = [self.operand(st, frame, o) for o in ops]
        dest_ty = self.place_ty(frame, dest) if dest is not None else None
        site = self.site(frame)

        # callees the obligation wants to observe as events take precedence over models and inlining
        if self.keep and any(rx.search(norm) for rx in self.keep) and norm not in self.inline:
            return self.uninterpreted(st, frame, dest, dest_ty, ret_bb, callee, norm, args, site)

        # (a) exact model
        model = self.models.get(norm)
        if model is None:
            for rx, m in self.model_rx:
                if rx.fullmatch(norm):
                    model = m
                    break
        if model is not None:
            from .models import CallCtx
            ctx = CallCtx(self, st, frame, dest, dest_ty, ret_bb, callee, norm, args, site)
            return model(ctx)

        # (b) inline
        target = self.inline.get(norm)
        if target is None and self.auto_inline and not any(rx.search(norm) for rx in self.keep):
            target = self.resolve(norm, len(args))
            if target is not None:
                if ((not self.inline_cyclic and not target.is_acyclic()) or len(target.blocks) > self.auto_inline_max_blocks
                        or len(st.frames) > self.auto_inline_depth
                        or sum(1 for f in st.frames if f.fn is target) >= self.max_recursion):
                    target = None
        if target is not None:
            self.inlined_fns.add(target)
            return self.enter(st, frame, target, args, dest, ret_bb, callee)

        # (c) uninterpreted event
        return self.uninterpreted(st, frame, dest, dest_ty, ret_bb, callee, norm, args, site)

    def enter(self, st, frame, target, args, dest, ret_bb, callee):
        dest_node = self.place(st, frame, dest) if dest is not None else None
        return self.enter_node(st, frame, target, args, dest_node, ret_bb, callee)

    def enter_node(self, st, frame, target, args, dest_node, ret_bb, callee):
        depth = len(st.frames)
        if depth > 40:
            raise Unsupported("inline depth")
        g = Frame(target)
        if len(args) != len(target.params):
            raise Unsupported("arity mismatch inlining %s" % target.name)
        for (n, ty), a in zip(target.params, args):
            if a.ty is None:
                a.ty = ty
            g.locals[n] = a
        g.dest = dest_node
        g.ret_bb = ret_bb
        if self.record_inlined:
            st.trace.append(Event(callee, "enter:" + short_name(target.name), [copy_node(a) for a in args], None,
                                  self.site(frame), depth, "inline-enter"))
        st.frames.append(g)
        return True

    def call_then(self, st, target, args, stash, cont, callee="<closure>"):
        """Model-driven call: run `target` on `args`; when it returns, cont(eng, st, stash, ret) continues."""
        if len(st.frames) > 60:
            raise Unsupported("call depth")
        g = Frame(target)
        if len(args) != len(target.params):
            raise Unsupported("arity mismatch calling %s" % target.name)
        for (n, ty), a in zip(target.params, args):
            if a.ty is None:
                a.ty = ty
            g.locals[n] = a
        g.cont = cont
        g.stash = stash
        self.inlined_fns.add(target)
        if self.record_inlined:
            st.trace.append(Event(callee, "enter:" + short_name(target.name), [copy_node(a) for a in args], None,
                                  self.site(st.frames[-1]), len(st.frames), "inline-enter"))
        st.frames.append(g)
        return True

    def closure_body(self, clos_ty):
        """MIR body of the closure whose type prints as `{closure@src/...}` (None if not in the dump)."""
        if not clos_ty:
            return None
        m = re.search(r"\{closure@[^}]*\}", clos_ty)
        if not m:
            return None
        key = m.group(0)
        cache = self.__dict__.setdefault("_closures", {})
        if key not in cache:
            found = None
            for name, fn in self.funcs.items():
                if "{closure#" in name and fn.params and key in fn.params[0][1]:
                    found = fn
                    break
            cache[key] = found
        return cache[key]

    def call_closure(self, st, clos, call_args, stash, cont):
        """Invoke closure value `clos` (node whose .ty names the closure type) on call_args (list of nodes,
        passed as the closure's parameters after the environment)."""
        body = self.closure_body(clos.ty)
        if body is None:
            raise Unsupported("closure body not found for %r" % clos.ty)
        p0 = body.params[0][1].strip()
        if p0.startswith("&"):
            env = mk_ref(clos, p0)
        else:
            env = clos
        # rustc passes the arguments of Fn*/call as separate parameters _2, _3.. in closure bodies
        return self.call_then(st, body, [env] + list(call_args), stash, cont, callee="closure " + (clos.ty or ""))

    def havoc(self, node, seen=None, top=True):
        """Forget everything reachable from `node` through pointers (contents may have been changed)."""
        if seen is None:
            seen = set()
        if node is None or id(node) in seen:
            return
        seen.add(id(node))
        tgt = node.target
        if tgt is not None:
            self.havoc_target(tgt, seen)
        for d in (node.fields, node.variants):
            if d:
                for c in d.values():
                    self.havoc(c, seen, False)
        if node.elems:
            for _, c in node.elems:
                self.havoc(c, seen, False)
        if node.vec is not None:
            self.havoc(node.vec, seen, False)

    def havoc_target(self, tgt, seen):
        if id(tgt) in seen:
            return
        # first follow pointers inside (they are about to be forgotten)
        self.havoc(tgt, seen, False)
        if tgt.conc is not None:
            return
        tgt.root = fresh_root("h")
        tgt.idxs = ()
        tgt.path = ""
        tgt.term = tgt.target = tgt.tag = tgt.variants = tgt.fields = tgt.length = tgt.elems = tgt.vec = None

    def uninterpreted(self, st, frame, dest, dest_ty, ret_bb, callee, norm, args, site, havoc_mut=True):
        # materialise the pointees of reference arguments first: events then carry object identities and the
        # havoc below reaches memory that has not been read yet (reads after the call must not see old values)
        for a in args:
            ty = (a.ty or "").strip()
            if a.target is None and a.vec is None and a.conc is None and (ty.startswith("&") or ty.startswith("*")):
                try:
                    self.deref(a)
                except Unsupported:
                    pass
        snap = [copy_node(a) for a in args]
        ret = Node(fresh_root("c"), ty=dest_ty)
        ev = Event(callee, norm, snap, ret, site, len(st.frames))
        ev.crate = ("TestDriver" in norm) or (self.resolve(norm, len(args)) is not None)
        st.trace.append(ev)
        if havoc_mut:
            fn = frame.fn
            for a in args:
                ty = a.ty or ""
                if ty.startswith("&mut") or ty.startswith("*mut"):
                    self.havoc(a)
        if ret_bb is None:
            raise Cut("panic", "diverging call: " + norm)
        if dest is not None:
            assign_node(self.place(st, frame, dest), ret)
        frame.bb = ret_bb
        return True


_impl_rx = re.compile(r"^\s*(?:unsafe\s+)?impl\s*(<[^>]*(?:<[^>]*>[^>]*)*>)?\s*(.*?)\s*(?:where\b.*)?\{?\s*$")


def impl_header(repo_root, relfile, line, col=None, endcol=None):
    """(trait_head|None, self_type_head|None) of the `impl` that starts at relfile:line (or of the derive
    attribute at line:col..endcol)."""
    try:
        with open("%s/%s" % (repo_root, relfile)) as f:
            lines = f.read().split("\n")
    except OSError:
        return (None, None)
    text = lines[line - 1] if 0 < line <= len(lines) else ""
    if "derive(" in text and col is not None:
        trait = text[col - 1:endcol - 1].strip().split("::")[-1]
        for k in range(line, min(line + 12, len(lines))):
            mm = re.match(r"\s*(?:pub(?:\([^)]*\))?\s+)?(?:struct|enum|union)\s+([A-Za-z_]\w*)", lines[k])
            if mm:
                return (trait or None, mm.group(1))
        return (None, None)
    # header may span lines
    k = line
    while "{" not in text and k < len(lines) and k < line + 6:
        text += " " + lines[k]
        k += 1
    text = text.split("{")[0]
    m = re.match(r"\s*(?:unsafe\s+)?impl\b", text)
    if not m:
        return (None, None)
    rest = text[m.end():].strip()
    if rest.startswith("<"):
        j = mirparse.scan_balanced(rest, 1, ">")
        rest = rest[j + 1:].strip()
    rest = re.split(r"\bwhere\b", rest)[0].strip()
    trait = None
    parts = re.split(r"\s+for\s+", rest)
    if len(parts) == 2:
        trait, rest = parts[0].strip(), parts[1].strip()

    def head(t):
        t = strip_lifetimes(t)
        t = t.lstrip("&").strip()
        i = mirparse.scan_balanced(t, 0, "<")
        return t[:i].split("::")[-1].strip()
    return (head(trait) if trait else None, head(rest))


def short_name(name):
    n = re.sub(r"<impl at src/([\w/]+)\.rs:[\d: ]+>", lambda m: "<" + m.group(1) + ">", name)
    return n


# ------------------------------------------------------------------ lookup helpers

def find_fn(funcs, suffix, file=None, param0=None, nparams=None, contains=None):
    """Unique body whose name ends with `suffix` (e.g. '::generate_input_entries::{closure#0}')."""
    cands = []
    for name, fn in funcs.items():
        if not name.endswith(suffix):
            continue
        pre = name[:-len(suffix)]
        if pre and not (pre.endswith("::") or pre.endswith(">") or suffix.startswith("::")):
            continue
        if file and ("src/%s" % file) not in name and not name.startswith(file.replace(".rs", "").replace("/", "::")):
            continue
        if param0 is not None:
            if not fn.params or param0 not in strip_lifetimes(fn.params[0][1]):
                continue
        if nparams is not None and len(fn.params) != nparams:
            continue
        if contains and contains not in name:
            continue
        cands.append(fn)
    if len(cands) != 1:
        raise LookupError("find_fn(%r, file=%r, param0=%r): %d candidates %s" % (
            suffix, file, param0, len(cands), [c.name for c in cands][:5]))
    return cands[0]
