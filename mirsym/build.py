"""Construction of concrete-shape / symbolic-content initial states and synthetic MIR harnesses."""
import z3

from . import mirparse
from .sym import Node, fresh_root, bv64, mk_ref, mk_scalar, mk_usize, mk_bool
from .itermodels import new_vec, vec_push


def struct(fields, ty=None):
    n = Node(fresh_root("S"), ty=ty)
    n.fields = dict(enumerate(fields))
    return n


def enum_val(eng, enum, variant, payload=(), ty=None):
    n = Node(fresh_root("E"), ty=ty or enum)
    n.tag = bv64(eng.variant_index(enum, variant))
    p = Node(fresh_root("P"), ty=n.ty)
    p.fields = dict(enumerate(payload))
    n.variants = {variant: p}
    return n


def sym_enum(name, ty):
    """Enum value with a symbolic tag and symbolic payloads (lazily materialised)."""
    return Node(name, ty=ty)


def vec_of(eng, items, ty=None):
    v = new_vec(ty)
    for it in items:
        vec_push(eng, v, it)
    return v


def slice_of_items(items, ty=None):
    s = Node(fresh_root("SL"), ty=ty)
    s.elems = [(bv64(i), it) for i, it in enumerate(items)]
    s.length = bv64(len(items))
    return s


def usize(n):
    return mk_usize(bv64(n))


def i64(term_or_int):
    if isinstance(term_or_int, int):
        term_or_int = z3.BitVecVal(term_or_int, 64)
    return mk_scalar(term_or_int, "i64")


def harness(name, params, body_lines, locals_=None, ret="()"):
    """Parse a hand-written MIR body: params = [(n, ty)], body_lines = list of 'bbK: stmt; stmt; TERM' strings."""
    hdr = "fn %s(%s) -> %s {" % (name, ", ".join("_%d: %s" % (n, t) for n, t in params), ret)
    lines = [hdr, "    let mut _0: %s;" % ret]
    for n, t in (locals_ or {}).items():
        lines.append("    let mut _%d: %s;" % (n, t))
    lines.append("")
    for bl in body_lines:
        label, rest = bl.split(":", 1)
        lines.append("    %s: {" % label.strip())
        for st in [x.strip() for x in rest.split(";;") if x.strip()]:
            lines.append("        %s;" % st)
        lines.append("    }")
        lines.append("")
    lines.append("}")
    fns = mirparse.parse_dump("\n".join(lines))
    fn = list(fns.values())[0]
    bad = mirparse.unparsed_items(fn)
    if bad:
        raise ValueError("harness does not parse: %r" % bad)
    return fn
