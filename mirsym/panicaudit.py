"""Per-function audit of panic sites in the run-time half of the crate (C10).

Every function of the files that run after a test was accepted (row iterator, interpreter, evaluation context,
expressions, framed map, values, the glue in lib.rs and static_test.rs) is executed symbolically *in isolation*, from its
entry and from every loop header, from an arbitrary state, with crate-local callees as events (no inlining) and the exact
models of core/alloc (unwrap / expect / indexing / arithmetic asserts panic where std does).  The result is the set of
panic sites that are *locally* reachable: (function, kind of panic).  Sites on the committed list
/verif/panic_sites.json carry the cross-function invariant that keeps them unreachable (most of them are re-derived by
other C10 / C11 / C12 obligations); any other site is a candidate that the run-time batteries decide natively.
"""
import json
import os
import re
import time

from . import frontend, sym

FILES = ("data_row_iterator.rs", "stmt.rs", "eval_context.rs", "expr.rs", "framed_map.rs", "value.rs", "lib.rs", "static_test.rs")
LIST = os.path.join(frontend.VERIF, "panic_sites.json")
SKIP_LAST = ("fmt",)             # Display / Debug formatting is not part of running a test


def _norm_msg(d):
    d = re.sub(r"\d+", "N", d or "")
    d = re.sub(r"\s+", " ", d)
    return d[:100]


def runtime_functions(m):
    for name, fn in sorted(m.funcs.items()):
        if fn.kind != "fn" or "promoted" in name:
            continue
        sn = sym.short_name(name)
        mm = re.search(r"src/([\w/]+\.rs)", name)
        f = mm.group(1) if mm else None
        mod = sn.split("::")[0]
        if f not in FILES and mod + ".rs" not in FILES:
            continue
        if f and f.startswith(("parser/", "lexer/")) or mod in ("parser", "lexer", "dig", "errors"):
            continue
        if re.search(r"::tests?::", sn) or sn.split("::")[-1] in SKIP_LAST or "load_test" in sn:
            continue
        yield sn, fn


def collect(O, budget_s=20):
    """{(function, outcome kind, message)} over all run-time functions; also the number of functions and paths."""
    m = O.mir
    sites = {}
    nfn = npaths = 0
    for sn, fn in runtime_functions(m):
        nfn += 1
        starts = [None] + sorted(set(d for _, d in fn.back_edges()))
        for sb in starts:
            eng = O.engine()
            eng.auto_inline = False
            # everything is an event except what can panic by itself or steers control flow on Option / Result:
            # unwrap / expect / indexing / `?` / explicit panics keep their exact models
            eng.keep_events(r"^(?!.*(?:unwrap|expect|[Ii]ndex|panic|unreachable|Try>::branch|FromResidual|assert)).*$")
            eng.deadline = time.time() + budget_s
            eng.max_paths = 5000
            if sb is not None:
                eng.cut_blocks = {sb}
            try:
                paths = eng.explore(fn, **({"start_bb": sb} if sb is not None else {}))
            except Exception as e:
                sites.setdefault((sn, "unsupported", _norm_msg(str(e))), []).append(None)
                continue
            O.rec["functions"][sn] = fn.text_hash
            O.rec["blocks"] += eng.stats["blocks"]
            for p in paths:
                if p.outcome == "infeasible":
                    continue
                npaths += 1
                if p.outcome == "panic":
                    sites.setdefault((sn, "panic", _norm_msg(p.detail)), []).append(p)
                elif p.outcome == "unsupported":
                    sites.setdefault((sn, "unsupported", _norm_msg(p.detail)), []).append(p)
    return sites, nfn, npaths


def load_list():
    if not os.path.exists(LIST):
        return {}
    d = json.load(open(LIST))
    return {(e["function"], e["message"]): e["invariant"] for e in d.get("sites", [])}
