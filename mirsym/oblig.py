"""Obligation framework: registry, recorder, solver queries with second-solver confirmation,
violation candidates with public-API replay, known findings, evidence."""
import hashlib
import json
import os
import random
import re
import subprocess
import tempfile
import time
import traceback

import z3

from . import frontend, sym, replay as replay_mod
from .sym import Unsupported

REGISTRY = {}   # prop -> [Obligation]


class Obligation:
    def __init__(self, oid, prop, func, profiles, tier, desc):
        self.id = oid
        self.prop = prop
        self.func = func
        self.profiles = profiles
        self.tier = tier
        self.desc = desc


def obligation(oid, profiles=("dev",), tier="quick", desc=""):
    prop = oid.split("/")[0]

    def deco(f):
        REGISTRY.setdefault(prop, []).append(Obligation(oid, prop, f, profiles, tier, desc or (f.__doc__ or "").strip()))
        return f
    return deco


class Candidate:
    """A solver-found counterexample awaiting native confirmation."""

    def __init__(self, ob_id, profile, label, model, facts, scenarios, judge, detail, assumed=None):
        self.assumed = assumed      # invariant text: a locally reachable site that is on the assumed-unreachable list -
        #                             it is still replayed; only if it does NOT reproduce it counts as an assumption
        self.ob_id = ob_id
        self.profile = profile
        self.label = label
        self.model = model          # dict name -> value (strings)
        self.facts = facts          # dict used by known-finding predicates
        self.scenarios = scenarios  # list of replay.Scenario
        self.judge = judge          # fn(observations: {profile: Observation}, scenario) -> str | None
        self.detail = detail
        self.reproduced = None
        self.replay_path = None
        self.observed = None


def model_dict(model, limit=40):
    out = {}
    for d in model.decls()[:limit]:
        try:
            v = model[d]
            out[d.name()] = str(v) if not z3.is_bv_value(v) else str(v.as_signed_long() if v.size() == 64 else v.as_long())
        except Exception:
            pass
    return out


class ObCtx:
    """Handed to each obligation function."""

    def __init__(self, run, ob, mir):
        self.run = run
        self.ob = ob
        self.mir = mir
        self.profile = mir.profile
        self.rec = {"id": ob.id, "profile": mir.profile, "desc": ob.desc, "functions": {}, "paths": 0,
                    "paths_by_outcome": {}, "queries": 0, "unsat": 0, "sat": 0, "unknown": 0, "witnesses": [],
                    "status": "held", "notes": [], "blocks": 0, "solver_s": 0.0, "pruned": 0,
                    "assumed_unreachable": [], "models_used": [], "uninterpreted": []}
        self.tier = run.tier
        self._engines = []

    # ---- engines and exploration
    def engine(self, **kw):
        e = self.mir.engine(**kw)
        self._engines.append(e)
        return e

    def find(self, suffix, **kw):
        return self.mir.find(suffix, **kw)

    def explore(self, eng, fn, **kw):
        paths = eng.explore(fn, **kw)
        self.rec["functions"][sym.short_name(fn.name)] = fn.text_hash
        for f in set(v for v in eng.inline.values() if hasattr(v, "text_hash")) | set(eng.inlined_fns):
            self.rec["functions"][sym.short_name(f.name)] = f.text_hash
        real = [p for p in paths if p.outcome != "infeasible"]
        for oc, cnt in eng.outcomes.items():
            if oc == "infeasible":
                continue
            self.rec["paths"] += cnt
            self.rec["paths_by_outcome"][oc] = self.rec["paths_by_outcome"].get(oc, 0) + cnt
        self.rec["blocks"] += eng.stats["blocks"]
        self.rec["solver_s"] += eng.stats["solver_s"]
        self.rec["pruned"] += eng.stats["branches_pruned"]
        self.rec["queries"] += eng.stats["solver_checks"]
        self.run.total_branch_checks += eng.stats["solver_checks"]
        for k in eng.stats:
            eng.stats[k] = 0 if not isinstance(eng.stats[k], float) else 0.0
        if isinstance(self.rec.get("contracts"), set):
            self.rec["contracts"] = sorted(self.rec["contracts"])
        uns = [p for p in real if p.outcome == "unsupported"]
        if uns:
            for p in uns[:3]:
                self.inconclusive("unsupported construct on a path of %s at %s: %s" % (
                    sym.short_name(fn.name), p.site, p.detail))
        for p in real:
            for e in p.trace:
                if e.kind == "call" and e.norm not in self.rec["uninterpreted"]:
                    self.rec["uninterpreted"].append(e.norm)
        return real

    # ---- verdicts
    def inconclusive(self, reason):
        self.rec["status"] = "inconclusive" if self.rec["status"] != "violated" else "violated"
        self.rec["notes"].append("INCONCLUSIVE: " + reason)

    def note(self, text):
        self.rec["notes"].append(text)

    def solve(self, constraints, want_model=True):
        """sat/unsat/unknown with model; counted and queued for second-solver confirmation."""
        s = z3.Solver()
        s.set("timeout", self.run.query_timeout_ms)
        for c in constraints:
            s.add(c)
        t = time.time()
        r = s.check()
        dt = time.time() - t
        self.rec["solver_s"] += dt
        self.rec["queries"] += 1
        self.run.total_queries += 1
        res = "sat" if r == z3.sat else ("unsat" if r == z3.unsat else "unknown")
        self.rec[res] += 1
        self.run.queue_crosscheck(self.ob.id, s, res)
        m = s.model() if (r == z3.sat and want_model) else None
        return res, m

    def witness(self, paths, label, extra=None):
        """Vacuity guard: the class of paths an obligation talks about must be inhabited."""
        if not paths:
            self.inconclusive("vacuous: no feasible path in class '%s'" % label)
            return None
        res = "unsat"
        inhabited = 0
        first = None
        for p in paths:
            res, m = self.solve(list(p.pc) + (extra or []))
            if res == "sat":
                inhabited += 1
                if first is None:
                    first = m
                if not extra:
                    inhabited = len(paths)
                    break
        if first is None:
            self.inconclusive("vacuous: no path in class '%s' is satisfiable (last: %s)" % (label, res))
            return None
        self.rec["witnesses"].append({"class": label, "paths": inhabited, "model": model_dict(first, 8)})
        return first

    def prove(self, path, claim, label, facts=None, scenarios=None, judge=None, extra=None, detail=None):
        """claim must hold on `path` for all values: solver refutes pc /\\ not claim."""
        cons = list(path.pc) + (extra or []) + [z3.Not(claim)]
        res, m = self.solve(cons)
        if res == "unsat":
            return True
        if res == "unknown":
            self.inconclusive("solver unknown on '%s'" % label)
            return False
        f = facts(m) if callable(facts) else (facts or {})
        sc = scenarios(m) if callable(scenarios) else (scenarios or [])
        self.violation(label, m, f, sc, judge, detail or ("claim fails: " + label))
        return False

    def fail_path(self, path, label, facts=None, scenarios=None, judge=None, detail=None, extra=None, assumed=None):
        """A structural (trace-shape) violation on a path the solver found feasible."""
        res, m = self.solve(list(path.pc) + (extra or []))
        if res == "unsat":
            return
        if res == "unknown":
            self.inconclusive("solver unknown on '%s'" % label)
            return
        f = facts(m) if callable(facts) else (facts or {})
        sc = scenarios(m) if callable(scenarios) else (scenarios or [])
        self.violation(label, m, f, sc, judge, detail or label, assumed=assumed)

    def violation(self, label, model, facts, scenarios, judge, detail, assumed=None):
        if assumed is None:
            self.rec["status"] = "violated"
        c = Candidate(self.ob.id, self.profile, label, model_dict(model) if model is not None else {}, facts,
                      scenarios, judge, detail, assumed=assumed)
        self.run.candidates.append(c)
        self.rec["notes"].append("COUNTEREXAMPLE: %s %s" % (label, json.dumps(facts, default=str)))

    def assumed_unreachable(self, site, invariant):
        self.rec["assumed_unreachable"].append({"site": site, "invariant": invariant})


class Run:
    def __init__(self, prop, tier="quick", seed=0):
        self.prop = prop
        self.tier = tier
        self.seed = seed
        self.rng = random.Random(seed)
        self.records = []
        self.candidates = []
        self.crosschecks = []
        self.cross_stats = {"cvc5_run": 0, "cvc5_agree": 0, "cvc5_disagree": 0, "cvc5_error": 0, "z3old_run": 0,
                            "z3old_agree": 0, "z3old_disagree": 0, "budget_exhausted": 0}
        self.total_queries = 0
        self.total_branch_checks = 0
        self.query_timeout_ms = 60000 if tier == "quick" else 300000
        self.t0 = time.time()
        self.problems = []
        self.replays = 0
        self.validation = {"vectors": 0, "mismatches": []}
        self.extra_evidence = {}

    def queue_crosscheck(self, ob_id, solver, res):
        # every sat, every unknown; a seeded third of the unsats in quick tier, all in thorough
        if res == "unsat" and self.tier == "quick" and self.rng.random() > 0.34:
            return
        try:
            txt = solver.to_smt2()
        except Exception:
            return
        self.crosschecks.append((ob_id, txt, res))

    def run_crosschecks(self, budget_s=120):
        t0 = time.time()
        todo = self.crosschecks
        cap = 160 if self.tier == "quick" else 1500
        if len(todo) > cap:
            # every sat/unknown answer, and a seeded sample of the unsat ones
            keep = [c for c in todo if c[2] != "unsat"][:cap]
            rest = [c for c in todo if c[2] == "unsat"]
            self.rng.shuffle(rest)
            todo = keep + rest[:max(0, cap - len(keep))]
            self.cross_stats["sampled_out"] = self.cross_stats.get("sampled_out", 0) + len(self.crosschecks) - len(todo)
        for ob_id, txt, res in todo:
            if time.time() - t0 > budget_s:
                self.cross_stats["budget_exhausted"] = self.cross_stats.get("budget_exhausted", 0) + 1
                break
            r2 = run_external(["cvc5", "--lang", "smt2", "--tlimit=20000"], txt)
            self.cross_stats["cvc5_run"] += 1
            if r2 == res:
                self.cross_stats["cvc5_agree"] += 1
            elif r2 in ("sat", "unsat"):
                self.cross_stats["cvc5_disagree"] += 1
                self.problems.append("cvc5 disagrees with z3 on a query of %s: z3=%s cvc5=%s" % (ob_id, res, r2))
            else:
                self.cross_stats["cvc5_error"] += 1
            if self.tier == "thorough":
                r3 = run_external(["/usr/bin/z3", "-in", "-T:20"], "(set-logic ALL)\n" + txt)
                self.cross_stats["z3old_run"] += 1
                if r3 == res:
                    self.cross_stats["z3old_agree"] += 1
                elif r3 in ("sat", "unsat"):
                    self.cross_stats["z3old_disagree"] += 1
                    self.problems.append("z3 4.8.12 disagrees on a query of %s: %s vs %s" % (ob_id, res, r3))


def run_external(cmd, smt2):
    try:
        p = subprocess.run(cmd, input=smt2, stdout=subprocess.PIPE, stderr=subprocess.PIPE, text=True, timeout=40)
    except subprocess.TimeoutExpired:
        return "timeout"
    out = p.stdout.strip().split("\n")
    if any(l.startswith("(error") for l in out):
        return "error"
    for l in out:
        if l.strip() in ("sat", "unsat", "unknown"):
            return l.strip()
    return "error"


# ------------------------------------------------------------------ known findings

def load_known():
    p = os.path.join(frontend.VERIF, "known_findings.json")
    if not os.path.exists(p):
        return {"findings": [], "fixed": []}
    return json.load(open(p))


def finding_matches(f, cand):
    if f.get("property") != cand.ob_id.split("/")[0]:
        return False
    if f.get("obligation") and f["obligation"] != cand.ob_id:
        return False
    for k, spec in (f.get("match") or {}).items():
        v = cand.facts.get(k)
        if isinstance(spec, dict):
            if "in" in spec and v not in spec["in"]:
                return False
            if "eq" in spec and v != spec["eq"]:
                return False
            if "re" in spec and (v is None or not re.search(spec["re"], str(v))):
                return False
        elif v != spec:
            return False
    return True
