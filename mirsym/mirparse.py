"""Parser for rustc's `-Zunpretty=mir` text dump (pinned nightly).

Produces, per function body, locals with types and basic blocks whose
statements / terminators are small tuples.  Anything that is not understood is
kept as ('unparsed', text): the executor turns reaching it into an
*inconclusive* obligation, never into "held".

AST
  place    ('local', n) | ('deref', P) | ('field', P, idx, ty) | ('downcast', P, variant)
           | ('index', P, n_local) | ('cindex', P, i, minlen, from_end) | ('subslice', P, a, b, from_end)
  operand  ('copy', P) | ('move', P) | ('const', text, ty_hint)
  rvalue   ('use', op) | ('ref', kind, P) | ('cast', op, ty, kind) | ('binop', name, a, b)
           | ('unop', name, a) | ('discr', P) | ('ptrmeta', op) | ('len', P)
           | ('agg_struct', path, [(fname, op)]) | ('agg_variant', path, variant, [op])
           | ('agg_tuple', [op]) | ('agg_array', [op]) | ('repeat', op, n) | ('agg_closure', path, [(name, op)])
           | ('unparsed', text)
  stmt     ('assign', P, rvalue) | ('setdiscr', P, n) | ('nop',) | ('unparsed', text)
  term     ('goto', bb) | ('switch', op, [(val, bb)], otherwise_bb) | ('return',) | ('unreachable',)
           | ('resume',) | ('drop', P, bb) | ('assert', cond_op, expected_bool, msg, [ops], bb)
           | ('call', dest_place|None, callee_text, [ops], ret_bb|None) | ('unparsed', text)
"""
import re
import hashlib


class ParseError(Exception):
    pass


class Function:
    __slots__ = ("name", "header", "params", "ret_ty", "locals", "blocks", "cleanup", "text_hash",
                 "nlines", "kind", "debug")

    def __init__(self):
        self.name = None
        self.header = None
        self.params = []      # [(n, ty)]
        self.ret_ty = None
        self.locals = {}      # n -> ty
        self.blocks = {}      # bb -> (stmts, term)
        self.cleanup = set()
        self.text_hash = None
        self.nlines = 0
        self.kind = "fn"
        self.debug = {}       # debug name -> text

    def successors(self, bb):
        term = self.blocks[bb][1]
        k = term[0]
        if k == "goto":
            return [term[1]]
        if k == "switch":
            return [t for _, t in term[2]] + ([term[3]] if term[3] is not None else [])
        if k == "drop":
            return [term[2]]
        if k == "assert":
            return [term[5]]
        if k == "call":
            return [term[4]] if term[4] is not None else []
        return []

    def is_acyclic(self):
        color = {}
        def dfs(b):
            color[b] = 1
            for s in self.successors(b):
                if s in self.cleanup:
                    continue
                c = color.get(s, 0)
                if c == 1:
                    return False
                if c == 0 and not dfs(s):
                    return False
            color[b] = 2
            return True
        return dfs(0)

    def back_edges(self):
        """(src, dst) edges closing a cycle in DFS order from bb0 (non-cleanup)."""
        res = []
        color = {}
        import sys
        sys.setrecursionlimit(10000)
        def dfs(b):
            color[b] = 1
            for s in self.successors(b):
                if s in self.cleanup:
                    continue
                c = color.get(s, 0)
                if c == 1:
                    res.append((b, s))
                elif c == 0:
                    dfs(s)
            color[b] = 2
        dfs(0)
        return res


# ------------------------------------------------------------------ low-level scanning

OPEN = "([{<"
CLOSE = ")]}>"
PAIR = {")": "(", "]": "[", "}": "{", ">": "<"}


def scan_balanced(s, i, stops):
    """Scan from i until one of the characters in `stops` is met at nesting depth 0.
    Understands string literals, `->` and `=>` (not brackets) and the comparison-free type syntax.
    Returns index of the stop character (or len(s))."""
    depth = 0
    n = len(s)
    while i < n:
        c = s[i]
        if c == '"':
            i += 1
            while i < n and s[i] != '"':
                if s[i] == "\\":
                    i += 1
                i += 1
            i += 1
            continue
        if c == "'" and i + 2 < n and (s[i + 2] == "'" or (s[i + 1] == "\\" and "'" in s[i + 2:i + 6])):
            # char literal 'x' or '\n'
            j = s.index("'", i + 2 if s[i + 1] != "\\" else i + 3)
            i = j + 1
            continue
        if c == "-" and i + 1 < n and s[i + 1] == ">":
            i += 2
            continue
        if c == "=" and i + 1 < n and s[i + 1] == ">":
            i += 2
            continue
        if depth == 0 and c in stops:
            return i
        if c in OPEN:
            depth += 1
        elif c in CLOSE:
            if depth == 0:
                return i  # unbalanced close: caller decides
            depth -= 1
        i += 1
    return n


def split_top(s, sep=","):
    """Split s at top-level separators."""
    out = []
    i = 0
    start = 0
    n = len(s)
    while i <= n:
        j = scan_balanced(s, i, sep)
        if j >= n:
            out.append(s[start:].strip())
            break
        if s[j] == sep:
            out.append(s[start:j].strip())
            start = j + 1
            i = j + 1
        else:
            # unbalanced close bracket at depth 0: skip it
            i = j + 1
    if out and out[-1] == "":
        out.pop()
    return out


# ------------------------------------------------------------------ places / operands

_local_re = re.compile(r"_(\d+)")


def parse_place(s, i=0):
    """Parse a place starting at s[i]; returns (place, next_index)."""
    n = len(s)
    if s.startswith("(*", i):
        inner, j = parse_place(s, i + 2)
        if j >= n or s[j] != ")":
            raise ParseError("deref: expected ) in %r at %d" % (s, j))
        p = ("deref", inner)
        j += 1
    elif s[i] == "(":
        inner, j = parse_place(s, i + 1)
        if s.startswith(" as ", j):
            k = scan_balanced(s, j + 4, ")")
            p = ("downcast", inner, s[j + 4:k].strip())
            j = k + 1
        elif s[j] == ".":
            m = re.compile(r"\.(\d+): ").match(s, j)
            if not m:
                raise ParseError("field: bad syntax in %r at %d" % (s, j))
            k = scan_balanced(s, m.end(), ")")
            p = ("field", inner, int(m.group(1)), s[m.end():k].strip())
            j = k + 1
        else:
            raise ParseError("place: unexpected %r in %r" % (s[j:j + 10], s))
    else:
        m = _local_re.match(s, i)
        if not m:
            raise ParseError("place: expected local in %r at %d" % (s, i))
        p = ("local", int(m.group(1)))
        j = m.end()
    # postfix projections
    while j < n and s[j] == "[":
        k = s.index("]", j)
        inside = s[j + 1:k]
        m = _local_re.fullmatch(inside)
        if m:
            p = ("index", p, int(m.group(1)))
        else:
            m = re.fullmatch(r"(-?)(\d+) of (\d+)", inside)
            if m:
                p = ("cindex", p, int(m.group(2)), int(m.group(3)), m.group(1) == "-")
            else:
                m = re.fullmatch(r"(\d+):(-?)(\d*)", inside) or re.fullmatch(r"(\d+)\.\.(-?)(\d*)", inside)
                if not m:
                    raise ParseError("index: %r" % inside)
                p = ("subslice", p, int(m.group(1)), int(m.group(3) or 0), m.group(2) == "-")
        j = k + 1
    return p, j


def parse_operand(s):
    s = s.strip()
    if s.startswith("no_retag "):
        s = s[len("no_retag "):]
    if s.startswith("copy "):
        p, j = parse_place(s, 5)
        if j != len(s):
            raise ParseError("operand: trailing %r" % s[j:])
        return ("copy", p)
    if s.startswith("move "):
        p, j = parse_place(s, 5)
        if j != len(s):
            raise ParseError("operand: trailing %r" % s[j:])
        return ("move", p)
    if s.startswith("const "):
        return ("const", s[6:].strip())
    if re.match(r"[A-Za-z_<{]", s) and not s.startswith(("copy", "move")):
        # bare fn item / constructor used as a value (e.g. `InputValue::Value`, `Option::<T>::is_some`)
        return ("const", s)
    raise ParseError("operand: %r" % s)


BINOPS = {"Add", "Sub", "Mul", "Div", "Rem", "BitAnd", "BitOr", "BitXor", "Shl", "Shr", "Eq", "Ne", "Lt", "Le",
          "Gt", "Ge", "AddWithOverflow", "SubWithOverflow", "MulWithOverflow", "AddUnchecked", "SubUnchecked",
          "MulUnchecked", "ShlUnchecked", "ShrUnchecked", "Offset", "Cmp"}
UNOPS = {"Not", "Neg", "PtrMetadata"}


def parse_rvalue(s):
    s = s.strip()
    try:
        return _parse_rvalue(s)
    except (ParseError, ValueError, IndexError) as e:
        return ("unparsed", s)


def _split_cast(s):
    """`<operand> as <ty> (<CastKind>)` -> (operand_text, ty, kind) or None."""
    if not s.endswith(")"):
        return None
    # find the opening paren of the trailing (Kind) group
    depth = 0
    i = len(s) - 1
    while i >= 0:
        if s[i] == ")":
            depth += 1
        elif s[i] == "(":
            depth -= 1
            if depth == 0:
                break
        i -= 1
    if i <= 0 or s[i - 1] != " ":
        return None
    kind = s[i + 1:-1]
    if not re.match(r"(IntToInt|IntToFloat|FloatToInt|FloatToFloat|PtrToPtr|FnPtrToPtr|Transmute|PointerCoercion|PointerExposeProvenance|PointerWithExposedProvenance|Subtype)", kind):
        return None
    head = s[:i - 1]
    # top-level " as " (the last one outside brackets)
    j = 0
    last = -1
    n = len(head)
    while j < n:
        k = scan_balanced(head, j, " ")
        if k >= n:
            break
        if head.startswith(" as ", k):
            last = k
        j = k + 1
    if last < 0:
        return None
    return head[:last], head[last + 4:].strip(), kind


def _parse_rvalue(s):
    c = _split_cast(s)
    if c is not None:
        return ("cast", parse_operand(c[0]), c[1], c[2])
    if s.startswith(("copy ", "move ", "const ", "no_retag ")):
        return ("use", parse_operand(s))
    if s.startswith("&"):
        for pref, kind in (("&raw const (fake) ", "rawfake"), ("&raw const ", "rawconst"), ("&raw mut ", "rawmut"),
                           ("&mut ", "mut"), ("&fake shallow ", "fake"), ("&", "shared")):
            if s.startswith(pref):
                p, j = parse_place(s, len(pref))
                if j != len(s):
                    raise ParseError("ref trailing")
                return ("ref", kind, p)
    m = re.match(r"([A-Za-z]+)\(", s)
    if m and s.endswith(")"):
        name = m.group(1)
        inner = s[m.end():-1]
        if name == "discriminant":
            p, j = parse_place(inner)
            if j == len(inner):
                return ("discr", p)
        if name == "Len":
            p, j = parse_place(inner)
            return ("len", p)
        if name == "CopyForDeref":
            p, j = parse_place(inner)
            return ("use", ("copy", p))
        if name in BINOPS:
            a, b = split_top(inner)
            return ("binop", name, parse_operand(a), parse_operand(b))
        if name in UNOPS:
            return ("unop", name, parse_operand(inner))
    if s.startswith("["):
        inner = s[1:-1]
        parts = split_top(inner, ";")
        if len(parts) == 2:
            return ("repeat", parse_operand(parts[0]), parts[1].strip())
        return ("agg_array", [parse_operand(x) for x in split_top(inner)])
    if s.startswith("("):
        inner = s[1:-1]
        return ("agg_tuple", [parse_operand(x) for x in split_top(inner)])
    if s.startswith("{closure@") or s.startswith("{coroutine@"):
        k = scan_balanced(s, 1, "}")
        path = s[:k + 1]
        rest = s[k + 1:].strip()
        fields = []
        if rest.startswith("{"):
            for part in split_top(rest[1:-1].strip()):
                nm, op = part.split(": ", 1)
                fields.append((nm.strip(), parse_operand(op)))
        return ("agg_closure", path, fields)
    # struct / variant aggregates:  Path { f: op, .. }  |  Path::Variant(op, ..)  |  Path::Variant
    if s.endswith("}"):
        k = scan_balanced(s, 0, "{")
        # make sure it's the top-level " { "
        path = s[:k].strip()
        inner = s[k + 1:-1].strip()
        fields = []
        for part in split_top(inner):
            nm, op = part.split(": ", 1)
            fields.append((nm.strip(), parse_operand(op)))
        return ("agg_struct", path, fields)
    if s.endswith(")"):
        k = scan_balanced(s, 0, "(")
        path = s[:k].strip()
        inner = s[k + 1:-1]
        return ("agg_variant", path, [parse_operand(x) for x in split_top(inner)])
    if re.match(r"[A-Za-z_<]", s) and re.search(r"::[A-Za-z_]\w*$", s) and scan_balanced(s, 0, "\x00") == len(s):
        return ("agg_variant", s, [])
    raise ParseError("rvalue: %r" % s)


_targets_re = re.compile(r"\[return: bb(\d+), unwind[^\]]*\]$")


def parse_terminator(s):
    s = s.strip().rstrip(";")
    try:
        return _parse_terminator(s)
    except (ParseError, ValueError, IndexError):
        return ("unparsed", s)


def _parse_terminator(s):
    if s == "return":
        return ("return",)
    if s == "unreachable":
        return ("unreachable",)
    if s.startswith("resume") or s.startswith("terminate") or s.startswith("abort"):
        return ("resume",)
    m = re.fullmatch(r"goto -> bb(\d+)", s)
    if m:
        return ("goto", int(m.group(1)))
    if s.startswith("switchInt("):
        k = scan_balanced(s, len("switchInt("), ")")
        op = parse_operand(s[len("switchInt("):k])
        rest = s[k + 1:].strip()
        m = re.fullmatch(r"-> \[(.*)\]", rest)
        targets = []
        otherwise = None
        for part in m.group(1).split(","):
            v, bb = part.strip().split(": ")
            bb = int(bb[2:])
            if v == "otherwise":
                otherwise = bb
            else:
                targets.append((int(v), bb))
        return ("switch", op, targets, otherwise)
    if s.startswith("drop("):
        k = scan_balanced(s, 5, ")")
        p, j = parse_place(s[5:k])
        m = re.search(r"\[return: bb(\d+)", s[k:])
        return ("drop", p, int(m.group(1)))
    if s.startswith("assert("):
        k = scan_balanced(s, 7, ")")
        inner = split_top(s[7:k])
        cond = inner[0]
        expected = True
        if cond.startswith("!"):
            expected = False
            cond = cond[1:]
        cond_op = parse_operand(cond)
        msg = inner[1] if len(inner) > 1 else ""
        args = []
        for a in inner[2:]:
            try:
                args.append(parse_operand(a))
            except ParseError:
                pass
        m = re.search(r"\[success: bb(\d+)", s[k:])
        return ("assert", cond_op, expected, msg, args, int(m.group(1)))
    if s.startswith("falseEdge") or s.startswith("falseUnwind"):
        m = re.search(r"\[real: bb(\d+)", s)
        return ("goto", int(m.group(1)))
    # call:  [dest = ] callee(args) -> [return: bbN, unwind ..]   |  ... -> unwind continue
    arrow = s.rfind(") -> ")
    if arrow < 0:
        raise ParseError("terminator: %r" % s)
    tail = s[arrow + 5:]
    head = s[:arrow + 1]
    m = re.match(r"\[return: bb(\d+), unwind", tail)
    ret_bb = int(m.group(1)) if m else None
    if not m and not tail.startswith("unwind") and not re.fullmatch(r"bb\d+", tail):
        raise ParseError("call tail: %r" % tail)
    dest = None
    # destination: a place followed by " = "
    if head.startswith("_") or head.startswith("("):
        try:
            p, j = parse_place(head)
            if head.startswith(" = ", j):
                dest = p
                head = head[j + 3:]
        except ParseError:
            pass
    # callee text up to the last top-level '(' group: find the matching open paren of the final ')'
    depth = 0
    i = len(head) - 1
    in_str = False
    while i >= 0:
        c = head[i]
        if c == '"':
            # skip string backwards
            i -= 1
            while i >= 0 and not (head[i] == '"' and (i == 0 or head[i - 1] != "\\")):
                i -= 1
            i -= 1
            continue
        if c == ">" and i > 0 and head[i - 1] == "-":
            i -= 2
            continue
        if c in CLOSE:
            depth += 1
        elif c in OPEN:
            depth -= 1
            if depth == 0:
                break
        i -= 1
    if i < 0:
        raise ParseError("call: no open paren in %r" % head)
    callee = head[:i].strip()
    args = [parse_operand(a) for a in split_top(head[i + 1:-1])]
    return ("call", dest, callee, args, ret_bb)


def parse_statement(s):
    s = s.strip()
    if s.endswith(";"):
        s = s[:-1]
    if s.startswith(("StorageLive(", "StorageDead(", "nop", "FakeRead(", "PlaceMention(", "AscribeUserType(",
                     "Coverage", "ConstEvalCounter", "Retag(", "BackwardIncompatibleDropHint")):
        return ("nop",)
    if s.startswith("Deinit("):
        return ("nop",)
    if s.startswith("assume("):
        try:
            return ("assume", parse_operand(s[7:-1]))
        except ParseError:
            return ("unparsed", s)
    m = re.fullmatch(r"discriminant\((.*)\) = (\d+)", s)
    if m:
        p, j = parse_place(m.group(1))
        return ("setdiscr", p, int(m.group(2)))
    try:
        p, j = parse_place(s)
    except ParseError:
        return ("unparsed", s)
    if not s.startswith(" = ", j):
        return ("unparsed", s)
    return ("assign", p, parse_rvalue(s[j + 3:]))


# ------------------------------------------------------------------ whole dump

_fn_re = re.compile(r"^(fn|const|static|static mut) (.*)$")
_bb_re = re.compile(r"^    bb(\d+)( \(cleanup\))?: \{$")
_let_re = re.compile(r"^\s+let (mut )?_(\d+): (.*);$")
_debug_re = re.compile(r"^\s+debug (\S+) => (.*);$")


def _parse_header(fn, header):
    """header: everything after 'fn ' up to the trailing ' {'."""
    fn.header = header
    # name( params ) -> ret
    # find the parameter list: the first top-level '(' that is followed (after its close) by ' -> '
    i = 0
    n = len(header)
    while True:
        i = scan_balanced(header, i, "(")
        if i >= n:
            # const / static:  name: Ty =
            k = 0
            pos = -1
            while True:
                k = scan_balanced(header, k, ":")
                if k >= n:
                    break
                if header.startswith(": ", k) and not header.startswith("::", k) and (k == 0 or header[k - 1] != ":"):
                    pos = k
                    break
                k += 1
            if pos >= 0 and header.endswith(" ="):
                fn.name = header[:pos]
                fn.ret_ty = header[pos + 2:-2].strip()
            else:
                fn.name = header
            return
        j = scan_balanced(header, i + 1, ")")
        if header.startswith(" -> ", j + 1) or j + 1 == n:
            break
        i = j + 1
    fn.name = header[:i]
    params = header[i + 1:j]
    for part in split_top(params):
        m = re.match(r"_(\d+): (.*)$", part, re.S)
        if m:
            fn.params.append((int(m.group(1)), m.group(2).strip()))
    fn.ret_ty = header[j + 5:].strip() if header.startswith(" -> ", j + 1) else "()"
    for k, ty in fn.params:
        fn.locals[k] = ty


def parse_dump(text):
    """Return dict name -> Function for every body in the dump."""
    funcs = {}
    lines = text.split("\n")
    i = 0
    n = len(lines)
    while i < n:
        line = lines[i]
        m = _fn_re.match(line)
        if m and m.group(1) == "const" and not line.endswith("{"):
            # one-line constant: `const NAME: Ty = const VALUE;`
            mc = re.match(r"^const (.*) = (const .*);$", line)
            hdr = Function()
            if mc:
                _parse_header(hdr, mc.group(1) + " =")
            if mc and hdr.ret_ty and "::{constant#" not in hdr.name:
                fn = Function()
                fn.kind = "const"
                fn.name = hdr.name
                fn.header = line
                fn.ret_ty = hdr.ret_ty
                fn.locals[0] = fn.ret_ty
                try:
                    fn.blocks[0] = ([("assign", ("local", 0), ("use", parse_operand(mc.group(2))))], ("return",))
                    fn.nlines = 1
                    fn.text_hash = hashlib.sha256(line.encode()).hexdigest()[:16]
                    key = fn.name
                    k = 1
                    while key in funcs:
                        k += 1
                        key = "%s#%d" % (fn.name, k)
                    funcs[key] = fn
                except ParseError:
                    pass
            i += 1
            continue
        if not m or not line.endswith("{"):
            i += 1
            continue
        # header may span several lines (long generic signatures) until a line ending with '{'
        kind = m.group(1)
        header = m.group(2)[:-1].rstrip()
        fn = Function()
        fn.kind = kind
        _parse_header(fn, header)
        start = i
        i += 1
        cur = None
        stmts = []
        body_lines = [line]
        while i < n and lines[i] != "}":
            l = lines[i]
            body_lines.append(l)
            mb = _bb_re.match(l)
            if mb:
                cur = int(mb.group(1))
                if mb.group(2):
                    fn.cleanup.add(cur)
                stmts = []
            elif cur is None:
                ml = _let_re.match(l)
                if ml:
                    fn.locals[int(ml.group(2))] = ml.group(3)
                else:
                    md = _debug_re.match(l)
                    if md:
                        fn.debug[md.group(1)] = md.group(2)
            elif l == "    }":
                if stmts:
                    term_text = stmts.pop()
                    # a terminator may have been split over several lines? (not in this nightly)
                    fn.blocks[cur] = ([parse_statement(x) for x in stmts], parse_terminator(term_text))
                else:
                    fn.blocks[cur] = ([], ("unparsed", "<empty block>"))
                cur = None
            elif l.strip():
                stmts.append(l.strip())
            i += 1
        fn.nlines = i - start
        fn.text_hash = hashlib.sha256("\n".join(body_lines).encode()).hexdigest()[:16]
        if fn.blocks:
            key = fn.name
            # duplicate names (e.g. several promoteds) get a numeric suffix
            k = 1
            while key in funcs:
                k += 1
                key = "%s#%d" % (fn.name, k)
            funcs[key] = fn
        i += 1
    return funcs


def unparsed_items(fn):
    out = []
    for bb, (stmts, term) in fn.blocks.items():
        if bb in fn.cleanup:
            continue
        for s in stmts:
            if s[0] == "unparsed":
                out.append((bb, s[1]))
            elif s[0] == "assign" and s[2][0] == "unparsed":
                out.append((bb, s[2][1]))
        if term[0] == "unparsed":
            out.append((bb, term[1]))
    return out


if __name__ == "__main__":
    import sys
    funcs = parse_dump(open(sys.argv[1]).read())
    print(len(funcs), "bodies")
    bad = 0
    for name, fn in funcs.items():
        if re.search(r"goto\d+|logos|pattern\d", name):
            continue
        for bb, t in unparsed_items(fn):
            bad += 1
            if bad < 60:
                print("UNPARSED", name[:80], "bb%d" % bb, t[:160])
    print("unparsed (non-lexer):", bad)
