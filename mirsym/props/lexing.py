"""Symbolic runs of the logos-generated lexers (the crate's MIR) over sources whose bytes are solver variables.

`lex_explore` runs `<T as Logos>::lex` once from offset 0 of a source of at most L bytes (length symbolic, content
constrained to well-formed UTF-8 - the `str` invariant - and optionally to ASCII / a class of first bytes).  Because
every read of the generated code goes through `read/read_at/test` relative to `token_end`, a run from offset 0 over
"the rest of the source" stands for a run from any offset with that rest.
`lex_concrete` runs the same code over a literal text (all tokens) - used to validate the translation against the
natively compiled lexer (replay.lex_native).
"""
import time

import z3

from ..sym import Node, bv64, mk_ref, Unsupported
from .. import lexmodel
from .common import mval

BLANK_BYTES = (0x20, 0x09, 0x0D)          # the property's blank space: space, tab, carriage return
WS_RULE_BYTES = (0x20, 0x09, 0x0D, 0x0C)  # the crate's WS rule also skips form feed


def lex_fn(m, tok):
    for name, f in m.funcs.items():
        if name.endswith("::lex") and f.params and (", %s>" % tok) in f.params[0][1].replace("lexer::token::", ""):
            return f
    raise LookupError("no generated lex function for %s" % tok)


def new_engine(O, L, reentry="event"):
    eng = O.engine()
    lexmodel.install(eng)
    eng.lex_reentry = reentry
    eng.inline_cyclic = True
    eng.auto_inline_max_blocks = 20000
    eng.auto_inline_depth = 58
    eng.max_visits = L + 6
    eng.max_recursion = L + 6
    eng.record_inlined = False
    eng.max_paths = 400000
    return eng


def lex_explore(O, tok, L, first=None, ascii_only=False, reentry="event", budget_s=None, src_name="src"):
    """One call of lex from offset 0.  first: predicate on the first byte term (None: any)."""
    m = O.mir
    fn = lex_fn(m, tok)
    eng = new_engine(O, L, reentry)
    eng.deadline = time.time() + (budget_s or (600 if O.tier == "quick" else 3000))
    src = Node(src_name, ty="str")

    def setup(eng_, st, fr):
        lx = Node("lexer", ty="logos::Lexer")
        lexmodel.init_lexer(eng_, lx, src)
        fr.locals[1] = mk_ref(lx, "&mut logos::Lexer")
        st.pc.append(lexmodel.valid_utf8(eng_, src, L))
        if first is not None:
            st.pc.append(z3.UGT(lexmodel.src_len(eng_, src), bv64(0)))
            st.pc.append(first(lexmodel.byte_at(eng_, src, 0)))
        if ascii_only:
            for i in range(L):
                st.pc.append(z3.ULT(lexmodel.byte_at(eng_, src, i), 0x80))
        st.extra["lx"] = lx
    paths = O.explore(eng, fn, setup=setup)
    return eng, src, paths


def result_of(m, tok, p):
    """('none'|'err'|'ok'|'?', kind name or None, start, end) of a finished path."""
    lx = p.state.extra["lx"]
    t = lx.fields["token"]
    tg = z3.simplify(t.tag)
    s = z3.simplify(lx.fields["start"].term)
    e = z3.simplify(lx.fields["end"].term)
    s = s.as_long() if z3.is_bv_value(s) else None
    e = e.as_long() if z3.is_bv_value(e) else None
    if not z3.is_bv_value(tg):
        return ("?", None, s, e)
    if tg.as_long() == 0:
        return ("none", None, s, e)
    r = t.variants["Some"].fields[0]
    rt = z3.simplify(r.tag)
    if not z3.is_bv_value(rt):
        return ("?", None, s, e)
    if rt.as_long() != 0:
        return ("err", None, s, e)
    k = z3.simplify(r.variants["Ok"].fields[0].tag)
    if not z3.is_bv_value(k):
        return ("?", None, s, e)
    ks = m.enums[tok]
    return ("ok", ks[k.as_long()] if k.as_long() < len(ks) else "?%d" % k.as_long(), s, e)


def model_bytes(eng, src, mod, L):
    n = mval(mod, lexmodel.src_len(eng, src), False)
    n = min(n, L + 4)
    return bytes(mval(mod, lexmodel.byte_at(eng, src, i), False) & 0xFF for i in range(n))


def byte(eng, src, i):
    return lexmodel.byte_at(eng, src, i)


def in_set(b, vals):
    return z3.Or([b == v for v in vals])


def lex_concrete(O, tok, text, max_tokens=400):
    """All tokens of `text` by running the MIR of lex over the literal: [(kind|'ERR', start, end)]."""
    m = O.mir
    fn = lex_fn(m, tok)
    data = text.encode()
    out = []
    pos = 0
    for _ in range(max_tokens):
        eng = new_engine(O, 8, "inline")
        eng.max_visits = len(data) + 8
        eng.max_recursion = len(data) + 8
        eng.auto_inline_depth = 58
        src = Node("str:lit", ty="str")
        src.conc = text
        src.length = bv64(len(data))

        def setup(eng_, st, fr, pos=pos):
            lx = Node("lexer", ty="logos::Lexer")
            lexmodel.init_lexer(eng_, lx, src, start=bv64(pos), end=bv64(pos))
            fr.locals[1] = mk_ref(lx, "&mut logos::Lexer")
            st.extra["lx"] = lx
        paths = eng.explore(fn, setup=setup)
        paths = [p for p in paths if p.outcome != "infeasible"]
        if len(paths) != 1:
            raise Unsupported("concrete lexing forked into %d paths" % len(paths))
        p = paths[0]
        if p.outcome != "return":
            return out + [("%s:%s" % (p.outcome.upper(), (p.detail or "")[:60]), pos, pos)]
        st_, kind, s, e = result_of(m, tok, p)
        if st_ == "none":
            return out
        out.append(("ERR" if st_ == "err" else kind, s, e))
        if e is None or e < pos or (e == pos and st_ != "none"):
            return out + [("STUCK", pos, pos)]
        pos = e
    return out + [("TOO-MANY", pos, pos)]
