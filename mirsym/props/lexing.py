"""Symbolic runs of the logos-generated lexers (the crate's MIR) over sources whose bytes are solver variables.

`lex_explore` runs `<T as Logos>::lex` once from offset 0 of a source of at most L bytes (length symbolic, content
constrained to well-formed UTF-8 - the `str` invariant - and optionally to ASCII / a class of first bytes).  Because
every read of the generated code goes through `read/read_at/test` relative to `token_end`, a run from offset 0 over
"the rest of the source" stands for a run from any offset with that rest.
`lex_concrete` runs the same code over a literal text (all tokens) - used to validate the translation against the
natively compiled lexer (replay.lex_native).
"""
import time

import z3

from ..sym import Node, bv64, mk_ref, Unsupported
from .. import lexmodel
from .common import mval

BLANK_BYTES = (0x20, 0x09, 0x0D)          # the property's blank space: space, tab, carriage return
WS_RULE_BYTES = (0x20, 0x09, 0x0D, 0x0C)  # the crate's WS rule also skips form feed


def lex_fn(m, tok):
    for name, f in m.funcs.items():
        if name.endswith("::lex") and f.params and (", %s>" % tok) in f.params[0][1].replace("lexer::token::", ""):
            return f
    raise LookupError("no generated lex function for %s" % tok)


def new_engine(O, L, reentry="event"):
    eng = O.engine()
    lexmodel.install(eng)
    eng.lex_reentry = reentry
    eng.inline_cyclic = True
    eng.auto_inline_max_blocks = 20000
    eng.auto_inline_depth = 58
    eng.max_visits = L + 6
    eng.max_recursion = L + 6
    eng.record_inlined = False
    eng.max_paths = 400000
    return eng


def lex_explore(O, tok, L, first=None, ascii_only=False, reentry="event", budget_s=None, src_name="src", constrain=None):
    """One call of lex from offset 0.  first: predicate on the first byte term (None: any)."""
    m = O.mir
    fn = lex_fn(m, tok)
    eng = new_engine(O, L, reentry)
    eng.deadline = time.time() + (budget_s or (600 if O.tier == "quick" else 3000))
    src = Node(src_name, ty="str")

    def setup(eng_, st, fr):
        lx = Node("lexer", ty="logos::Lexer")
        lexmodel.init_lexer(eng_, lx, src)
        fr.locals[1] = mk_ref(lx, "&mut logos::Lexer")
        st.pc.append(lexmodel.valid_utf8(eng_, src, L))
        if first is not None:
            st.pc.append(z3.UGT(lexmodel.src_len(eng_, src), bv64(0)))
            st.pc.append(first(lexmodel.byte_at(eng_, src, 0)))
        if ascii_only:
            for i in range(L):
                st.pc.append(z3.ULT(lexmodel.byte_at(eng_, src, i), 0x80))
        if constrain is not None:
            for c in constrain(eng_, src):
                st.pc.append(c)
        st.extra["lx"] = lx
    paths = O.explore(eng, fn, setup=setup)
    return eng, src, paths


def result_of(m, tok, p):
    """('none'|'err'|'ok'|'?', kind name or None, start, end) of a finished path."""
    lx = p.state.extra["lx"]
    t = lx.fields["token"]
    tg = z3.simplify(t.tag)
    s = z3.simplify(lx.fields["start"].term)
    e = z3.simplify(lx.fields["end"].term)
    s = s.as_long() if z3.is_bv_value(s) else None
    e = e.as_long() if z3.is_bv_value(e) else None
    if not z3.is_bv_value(tg):
        return ("?", None, s, e)
    if tg.as_long() == 0:
        return ("none", None, s, e)
    r = t.variants["Some"].fields[0]
    rt = z3.simplify(r.tag)
    if not z3.is_bv_value(rt):
        return ("?", None, s, e)
    if rt.as_long() != 0:
        return ("err", None, s, e)
    k = z3.simplify(r.variants["Ok"].fields[0].tag)
    if not z3.is_bv_value(k):
        return ("?", None, s, e)
    ks = m.enums[tok]
    return ("ok", ks[k.as_long()] if k.as_long() < len(ks) else "?%d" % k.as_long(), s, e)


def model_bytes(eng, src, mod, L):
    n = mval(mod, lexmodel.src_len(eng, src), False)
    n = min(n, L + 4)
    return bytes(mval(mod, lexmodel.byte_at(eng, src, i), False) & 0xFF for i in range(n))


def byte(eng, src, i):
    return lexmodel.byte_at(eng, src, i)


def in_set(b, vals):
    return z3.Or([b == v for v in vals])


def lex_concrete(O, tok, text, max_tokens=400):
    """All tokens of `text` by running the MIR of lex over the literal: [(kind|'ERR', start, end)]."""
    m = O.mir
    fn = lex_fn(m, tok)
    data = text.encode()
    out = []
    pos = 0
    for _ in range(max_tokens):
        eng = new_engine(O, 8, "inline")
        eng.max_visits = len(data) + 8
        eng.max_recursion = len(data) + 8
        eng.auto_inline_depth = 58
        src = Node("str:lit", ty="str")
        src.conc = text
        src.length = bv64(len(data))

        def setup(eng_, st, fr, pos=pos):
            lx = Node("lexer", ty="logos::Lexer")
            lexmodel.init_lexer(eng_, lx, src, start=bv64(pos), end=bv64(pos))
            fr.locals[1] = mk_ref(lx, "&mut logos::Lexer")
            st.extra["lx"] = lx
        paths = eng.explore(fn, setup=setup)
        paths = [p for p in paths if p.outcome != "infeasible"]
        if len(paths) != 1:
            raise Unsupported("concrete lexing forked into %d paths" % len(paths))
        p = paths[0]
        if p.outcome != "return":
            return out + [("%s:%s" % (p.outcome.upper(), (p.detail or "")[:60]), pos, pos)]
        st_, kind, s, e = result_of(m, tok, p)
        if st_ == "none":
            return out
        out.append(("ERR" if st_ == "err" else kind, s, e))
        if e is None or e < pos or (e == pos and st_ != "none"):
            return out + [("STUCK", pos, pos)]
        pos = e
    return out + [("TOO-MANY", pos, pos)]


# ------------------------------------------------------------------ integer literals are single tokens of any length

DIG = {"dec": list(range(0x30, 0x3A)), "oct": list(range(0x30, 0x38)), "bin": [0x30, 0x31],
       "hex": list(range(0x30, 0x3A)) + list(range(0x41, 0x47)) + list(range(0x61, 0x67))}
# kind, bytes of the prefix (each a set), digit set, minimal number of digits after the prefix, longest source examined
LITERALS = {
    "DecInt": ([list(range(0x31, 0x3A))], DIG["dec"], 0, 24),      # 2^63 has 19 digits
    "HexInt": ([[0x30], [0x78, 0x58]], DIG["hex"], 1, 22),         # 16 digits fill 64 bits
    "OctInt": ([[0x30]], DIG["oct"], 0, 27),                       # 22 digits
    "BinInt": ([[0x30], [0x62, 0x42]], DIG["bin"], 1, 70),         # 64 digits
}


def literal_is_one_token(O, kind, R, longest=None):
    """A source that consists of one integer literal of the given kind - prefix, then digits of the radix only, up to the
    stated length (well beyond what fits in 64 bits) - is lexed as exactly one token of that kind covering all of it: the
    lexer never splits an over-long literal into pieces that could each be accepted."""
    m = O.mir
    prefix, digits, mind, L = LITERALS[kind]
    if longest:
        L = longest

    def constrain(eng_, src):
        n = lexmodel.src_len(eng_, src)
        cs = [z3.UGE(n, bv64(len(prefix) + mind)), z3.ULE(n, bv64(L))]
        for i in range(L):
            b = lexmodel.byte_at(eng_, src, i)
            allowed = prefix[i] if i < len(prefix) else digits
            cs.append(z3.Or(z3.UGE(bv64(i), n), in_set(b, allowed)))
        return cs
    eng, src, paths = lex_explore(O, "TokenKind", L, ascii_only=True, reentry="event", constrain=constrain, src_name="lit" + kind)
    n = lexmodel.src_len(eng, src)
    seen = 0
    for p in paths:
        eng.focus(p)
        res, mod = O.solve(list(p.pc))
        if res != "sat":
            continue

        def facts(mod2, kind=kind):
            return dict(R.facts, what="literal token", kind=kind, text=model_bytes(eng, src, mod2, L).decode("latin-1"))

        def scen(mod2, kind=kind):
            from ..replay import Scenario
            # literals of this kind that do not fit in 64 bits, at and beyond the first length that overflows (the model's
            # own text may be a short literal: what the path shows is how the lexer cuts, the scenarios show what it costs)
            head, first_over = {"DecInt": ("", 20), "HexInt": ("0x", 17), "OctInt": ("0", 22), "BinInt": ("0b", 64)}[kind]
            own = []
            for d in (first_over, first_over + 1, first_over + 2, first_over + 5, L - len(head)):
                for lead in ("1", "7" if kind != "BinInt" else "1"):
                    own += over_long_scenarios(head + lead + "0" * (d - 1))
                    own += over_long_scenarios(head + lead + ("10" * d)[:d - 1])
            return own + list(R.battery)

        def _unused(mod2):
            from ..replay import Scenario
            txt = model_bytes(eng, src, mod2, L).decode("latin-1")
            own = [Scenario("A B\n%s 1\n" % txt, [], mode="parse", expect={"parse": "err"}, note="over-long literal %s as a row entry" % txt[:12]),
                   Scenario("A B\n%s\n" % txt, [], mode="parse", expect={"parse": "err"}, note="over-long literal %s alone in a row" % txt[:12]),
                   Scenario("A B C\n%s 1\n" % txt, [], mode="parse", expect={"parse": "err"}, note="over-long literal %s, one entry fewer than columns" % txt[:12]),
                   Scenario("A B\n1 (%s)\n" % txt, [], mode="parse", expect={"parse": "err"}, note="over-long literal %s in an expression" % txt[:12])]
            return own + list(R.battery)
        if p.outcome != "return":
            O.fail_path(p, "lexing a %s literal: %s %s" % (kind, p.outcome, p.detail), facts, scen, R.judge)
            continue
        st_, k, s_, e_ = result_of(m, "TokenKind", p)
        seen += 1
        if st_ != "ok" or k != kind or s_ != 0 or e_ is None:
            O.fail_path(p, "a source that is one %s literal is lexed as %s %s [%s, %s)" % (kind, st_, k, s_, e_), facts, scen, R.judge)
            continue
        O.prove(p, n == bv64(e_), "a %s literal of any length up to %d bytes is one token" % (kind, L), facts, scen, R.judge)
    if seen == 0:
        O.inconclusive("vacuous: no %s literal was lexed" % kind)
    O.note("%s: %d paths (one per length), sources up to %d bytes" % (kind, len(paths), L))


def over_long_scenarios(txt):
    from ..replay import Scenario
    return [Scenario("A B\n%s 1\n" % txt, [], mode="parse", expect={"parse": "err"}, note="over-long literal %s.. (%d chars) as a row entry" % (txt[:6], len(txt))),
            Scenario("A B\n%s\n" % txt, [], mode="parse", expect={"parse": "err"}, note="over-long literal %s.. (%d chars) alone in a row of two columns" % (txt[:6], len(txt))),
            Scenario("A B C\n%s 1\n" % txt, [], mode="parse", expect={"parse": "err"}, note="over-long literal %s.. (%d chars), one entry fewer than columns" % (txt[:6], len(txt))),
            Scenario("A B\n1 (%s)\n" % txt, [], mode="parse", expect={"parse": "err"}, note="over-long literal %s.. (%d chars) in an expression" % (txt[:6], len(txt)))]
