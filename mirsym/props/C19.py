"""C19 - each row reports the source line it came from.

Token-sequence exploration of the real parser (parsing.py): the line recorded for a data row equals the parser's
starting line plus the number of line-break tokens consumed before the row; the header parser starts at line 1,
counts one per line break and hands its count over; row expansion keeps the line of the source row.
Outside: which bytes the lexer turns into line-break tokens (CR handling, comments) - lexer facts.
"""
import z3

from ..oblig import obligation
from ..sym import bv64, Node, fresh_root, copy_node, assign_node, mk_bool
from ..models import vec_slice
from .. import build, models
from .common import mval, initial, T
from . import batteries as B
from . import dri
from .parsing import TokenStream, kind_name
from . import C09, C12, C05


def rep():
    return dri.Rep({"family": "lines"}, B.lines_battery(), B.lines_judge)


def stmt_lines(eng, m, block_vec, out, depth=0):
    """collect (path description, line term) of every DataRow in a parsed block (concrete structure)."""
    for ix, st in (block_vec.elems or []):
        tag = z3.simplify(eng.tag_of(st, None))
        if not z3.is_bv_value(tag):
            out.append(("?", None))
            continue
        name = m.enums["Stmt"][tag.as_long()]
        if name == "DataRow":
            out.append(("row", eng.scalar(eng.field(eng.downcast(st, "DataRow"), 1, "usize"))))
        elif name == "Loop":
            stmt_lines(eng, m, vec_slice(eng, eng.field(eng.downcast(st, "Loop"), 2)), out, depth + 1)
        elif name == "While":
            stmt_lines(eng, m, vec_slice(eng, eng.field(eng.downcast(st, "While"), 1)), out, depth + 1)
        else:
            out.append((name, None))


def check_lines(O, R, m, eng, ts, paths, L0):
    EOL = m.vidx("TokenKind", "Eol")
    START = [m.vidx("TokenKind", k) for k in ("LParen", "Bits", "Ident", "DecInt", "HexInt", "BinInt", "OctInt", "Repeat")]
    nrows = 0
    for p in paths:
        eng.focus(p)
        if p.outcome == "cut":
            O.inconclusive("loop bound too small: %s" % p.detail)
            continue
        if p.outcome != "return":
            continue
        rt = eng.tag_of(p.ret, None)
        r, mod = O.solve(list(p.pc) + [rt == bv64(0)])
        if r != "sat":
            continue
        cond = [rt == bv64(0)]
        kinds = [mval(mod, k, False) for k in ts.kinds]
        # where the line breaks are must be determined by the path (the other kinds only matter as row starts)
        amb = False
        for i in ts.sym:
            is_eol = kinds[i] == EOL
            other = O.solve(list(p.pc) + cond + [(ts.kinds[i] != bv64(EOL)) if is_eol else (ts.kinds[i] == bv64(EOL))],
                            want_model=False)[0]
            if other == "sat":
                amb = True
        if amb:
            O.inconclusive("a path does not determine where the line breaks are")
            continue
        # statements = maximal runs of non-Eol tokens; data rows among them start with a row-start kind
        runs = []
        eols = 0
        i = 0
        while i < len(kinds):
            if kinds[i] == EOL:
                eols += 1
                i += 1
                continue
            j = i
            while j < len(kinds) and kinds[j] != EOL:
                j += 1
            runs.append((i, j, eols))
            i = j
        block = vec_slice(eng, eng.field(eng.downcast(p.ret, "Ok"), 0))
        rows = []
        stmt_lines(eng, m, block, rows)
        row_lines = [t for (k, t) in rows if k == "row"]
        # rows in source order correspond to the runs that start with a row-start kind, plus `repeat` rows;
        # runs inside loops are separate runs as well (statements are separated by line breaks)
        row_runs = [r_ for r_ in runs if kinds[r_[0]] in START]
        if len(row_runs) != len(row_lines):
            # e.g. `loop(..)` heads are runs too but produce no row; rows and row-runs must still agree in number
            O.inconclusive("cannot align %d rows with %d row-like runs for tokens %s" % (
                len(row_lines), len(row_runs), [kind_name(m, k) for k in kinds]))
            continue
        for (a, b_, e), lt in zip(row_runs, row_lines):
            nrows += 1
            R.prove(O, p, lt == L0 + bv64(e), "a row's line is the starting line plus the line breaks before it", extra=cond)
        me = eng.deref(p.args.fields[1])
        final = eng.scalar(eng.field(me, m.fidx("Parser", "line"), "usize"))
        consumed = p.state.extra.get("consumed", [])
        n_eol_consumed = sum(1 for c in consumed if c < len(kinds) and kinds[c] == EOL)
        R.prove(O, p, final == L0 + bv64(n_eol_consumed), "the parser's line counter advances once per consumed line break", extra=cond)
    return nrows


def _reg_block(N, fixed=(), suffix=(), tier="quick"):
    tag = "N=%d%s%s" % (N, (",after " + " ".join(fixed)) if fixed else "", (",before " + " ".join(suffix)) if suffix else "")

    @obligation("C19/block-lines[%s]" % tag, profiles=("dev",), tier=tier,
                desc="parse_stmt_block(None), one header column, every sequence of %d token kinds%s%s: every accepted row "
                     "records line = starting line + number of line-break tokens before it" % (
                         N, (" after `%s`" % " ".join(fixed)) if fixed else "", (" before `%s`" % " ".join(suffix)) if suffix else ""))
    def _ob(O, N=N, fixed=fixed, suffix=suffix):
        block_lines(O, N, fixed, suffix)
    return _ob


def block_lines(O, N, fixed=(), suffix=(), R=None):
    R = R or rep()
    m, eng, ts, paths = C09.explore_block(O, N, None, None, 1, fixed=fixed, suffix=suffix,
                                          keep_outcomes=lambda oc: oc in ("return", "cut"))
    L0 = z3.BitVec("arg1.*.%d" % m.fidx("Parser", "line"), 64)
    n = check_lines(O, R, m, eng, ts, paths, L0)
    if n == 0 and N + len(fixed) + len(suffix) >= 1:
        O.inconclusive("vacuous: no accepted row")
    O.note("%d paths, %d row lines checked" % (eng.npaths, n))


for _n in (1, 2):
    _reg_block(_n)
_reg_block(3, tier="thorough")
LOOP_HEAD = ("Loop", "LParen", "Ident", "Comma", "DecInt", "RParen", "Eol")
WHILE_HEAD = ("While", "LParen", "DecInt", "RParen", "Eol")
for _n in (0, 1):
    _reg_block(_n, LOOP_HEAD, ("DecInt", "Eol", "End", "Loop"))
    _reg_block(_n, WHILE_HEAD, ("DecInt", "Eol", "End", "While"))
_reg_block(2, LOOP_HEAD, ("DecInt", "Eol", "End", "Loop"), tier="thorough")
_reg_block(2, WHILE_HEAD, ("DecInt", "Eol", "End", "While"), tier="thorough")
_reg_block(1, ("Repeat", "LParen", "DecInt", "RParen", "DecInt"), ())
_reg_block(1, ("Eol", "Repeat", "LParen", "DecInt", "RParen", "DecInt", "Eol"), ("DecInt",))


@obligation("C19/header-lines", profiles=("dev",),
            desc="HeaderParser::new starts at line 1 without consuming anything; HeaderParser::parse (<= 4 header tokens) "
                 "advances the line by one per line-break token consumed; Parser::from carries the count over unchanged")
def header_lines(O):
    m = O.mir
    R = rep()
    fn = O.find("::new", file="parser/mod.rs", nparams=1, contains="50:")
    fn = O.find("::new", file="parser/mod.rs", param0="&str")
    eng = O.engine()
    paths = O.explore(eng, fn)
    O.witness([p for p in paths if p.outcome == "return"], "HeaderParser::new returns")
    for p in paths:
        eng.focus(p)
        if p.outcome != "return":
            R.fail(O, p, "HeaderParser::new: %s" % p.outcome)
            continue
        R.prove(O, p, eng.scalar(eng.field(p.ret, m.fidx("HeaderParser", "line"), "usize")) == bv64(1), "the header parser starts at line 1")
        extra = [e.norm for e in p.calls() if not e.norm.endswith("::lexer")]
        if extra:
            R.fail(O, p, "HeaderParser::new does more than creating the lexer (%s)" % extra[0])
    # parse: line += number of Eol consumed
    for N in (1, 2, 3, 4):
        fn2 = O.find("::parse", file="parser/mod.rs", param0="&mut HeaderParser")
        eng2 = O.engine()
        eng2.inline_cyclic = True
        eng2.max_visits = N + 3
        eng2.iter_bound = N + 2
        eng2.record_inlined = False
        hs = C12.HeaderStream(m, N)
        hs.install(eng2)
        L0 = z3.BitVec("arg1.*.%d" % m.fidx("HeaderParser", "line"), 64)

        def setup(eng_, st, fr):
            for c in hs.constraints():
                st.pc.append(c)
            st.pc.append(z3.ULT(L0, bv64(1 << 40)))
        for p in O.explore(eng2, fn2, setup=setup):
            eng2.focus(p)
            if p.outcome != "return":
                continue
            rt = eng2.tag_of(p.ret, None)
            r, mod = O.solve(list(p.pc) + [rt == bv64(0)])
            if r != "sat":
                continue
            pos = min(z3.simplify(p.state.extra["hpos"].term).as_long(), N)
            kinds = [mval(mod, k, False) for k in hs.kinds[:pos]]
            n_eol = sum(1 for k in kinds if k == hs.EOL)
            me = eng2.deref(p.args.fields[1])
            R.prove(O, p, eng2.scalar(eng2.field(me, m.fidx("HeaderParser", "line"), "usize")) == L0 + bv64(n_eol),
                    "the header parser counts one line per line break", extra=[rt == bv64(0)])
    # Parser::from carries the line over
    fn3 = O.find("::from", file="parser/mod.rs", nparams=2)
    eng3 = O.engine()
    paths3 = O.explore(eng3, fn3)
    O.witness([p for p in paths3 if p.outcome == "return"], "Parser::from returns")
    hl = eng3.scalar(eng3.field(initial(fn3, 1), m.fidx("HeaderParser", "line"), "usize"))
    for p in paths3:
        if p.outcome != "return":
            continue
        eng3.focus(p)
        R.prove(O, p, eng3.scalar(eng3.field(p.ret, m.fidx("Parser", "line"), "usize")) == hl,
                "the body parser continues counting where the header parser stopped")


@obligation("C19/get-counts", profiles=("dev",), desc="Parser::get: the line counter advances by exactly one iff the token "
            "consumed is a line break; peek / at / peek_span never change it")
def get_counts(O):
    R = rep()
    m, fn, eng, ts, paths = C12._explore_fn(O, "::get", 1, (), 1, file="parser/mod.rs")
    L0 = z3.BitVec("arg1.*.%d" % m.fidx("Parser", "line"), 64)
    EOL = bv64(m.vidx("TokenKind", "Eol"))
    for p in paths:
        eng.focus(p)
        if p.outcome != "return":
            continue
        me = eng.deref(p.args.fields[1])
        line = eng.scalar(eng.field(me, m.fidx("Parser", "line"), "usize"))
        cons = p.state.extra.get("consumed", [])
        kinds = ts.kinds + [bv64(ts.EOF)]
        if len(cons) == 1:
            R.prove(O, p, line == L0 + z3.If(kinds[cons[0]] == EOL, bv64(1), bv64(0)), "get counts exactly the line breaks")
        else:
            R.prove(O, p, line == L0, "no token, no line")
    for meth in ("peek", "at", "peek_span"):
        m2, fn2, eng2, ts2, paths2 = C12._explore_fn(O, "::" + meth, 1, (), 1, file="parser/mod.rs")
        for p in paths2:
            if p.outcome != "return":
                continue
            eng2.focus(p)
            me = eng2.deref(p.args.fields[1])
            R.prove(O, p, eng2.scalar(eng2.field(me, m2.fidx("Parser", "line"), "usize")) == L0, "%s does not count lines" % meth)
            if p.state.extra.get("consumed"):
                R.fail(O, p, "%s consumes a token" % meth)


@obligation("C19/expansion-keeps-line", profiles=("dev",),
            desc="get_row sequence for TWO source rows on different lines (columns: clock input, expected): every row of an "
                 "X/C expansion reports the line of the source row it came from")
def expansion_lines(O):
    m = O.mir
    R = rep()
    F = m.fidx
    eng = O.engine()
    eng.iter_bound = 8
    eng.max_visits = 64
    eng.inline_cyclic = True
    eng.auto_inline_max_blocks = 400
    eng.auto_inline_depth = 12
    eng.record_inlined = False
    LINES = (7, 9)

    def serve(ctx):
        st = ctx.st
        k = st.extra["served"]
        i = z3.simplify(k.term).as_long()
        k.term = bv64(i + 1)
        if i < 2:
            r = models.mk_enum(ctx.eng, "Result", "Ok", [models.mk_enum(ctx.eng, "Option", "Some", [copy_node(st.extra["rows"][i])])])
        else:
            none = Node(fresh_root("e"), ty="Option")
            none.tag = bv64(0)
            none.variants = {}
            r = models.mk_enum(ctx.eng, "Result", "Ok", [none])
        return ctx.ret(r)
    eng.models["StmtIterator::next_with_context"] = serve
    K = 8
    fn = C05.make_harness(K)

    def setup(eng_, st, fr):
        me = eng_.deref(fr.locals[1])
        sigs = [build.struct([Node("name0", ty="String"), Node("bits0", ty="usize"),
                              build.enum_val(eng_, "SignalType", "Input", [build.sym_enum("def0", "value::InputValue")])], "Signal"),
                build.struct([Node("name1", ty="String"), Node("bits1", ty="usize"), build.enum_val(eng_, "SignalType", "Output", [])], "Signal")]
        eng_.field(me, F("DataRowIteratorTestData", "signals")).target = build.slice_of_items(sigs, "[Signal]")
        eng_.field(me, F("DataRowIteratorTestData", "input_indices")).target = build.slice_of_items(
            [build.enum_val(eng_, "EntryIndex", "Entry", [build.usize(0), build.usize(0)])], "[EntryIndex]")
        eng_.field(me, F("DataRowIteratorTestData", "expected_indices")).target = build.slice_of_items(
            [build.enum_val(eng_, "EntryIndex", "Entry", [build.usize(1), build.usize(1)])], "[EntryIndex]")
        assign_node(eng_.field(me, F("DataRowIteratorTestData", "cache")), build.vec_of(eng_, [], "Vec<stmt::DataEntries>"))
        none = Node(fresh_root("e"), ty="Option")
        none.tag = bv64(0)
        none.variants = {}
        assign_node(eng_.field(me, F("DataRowIteratorTestData", "prev")), none)
        rows = []
        for r_ in range(2):
            ents = [build.sym_enum("r%de%d" % (r_, c), "stmt::DataEntry") for c in range(2)]
            for c, e in enumerate(ents):
                t = eng_.tag_of(e, st)
                kinds = ("Number", "X", "C") if c == 0 else ("Number", "X")
                st.pc.append(z3.Or([t == bv64(m.vidx("DataEntry", k)) for k in kinds]))
            rows.append(build.struct([build.vec_of(eng_, ents, "Vec<stmt::DataEntry>"), build.usize(LINES[r_]),
                                      mk_bool(z3.BoolVal(True))], "stmt::DataEntries"))
        for s in range(2):
            b = eng_.scalar(eng_.field(sigs[s], F("Signal", "bits"), "usize"))
            st.pc.append(z3.And(z3.UGE(b, bv64(1)), z3.ULE(b, bv64(64))))
        st.extra["rows"] = rows
        st.extra["served"] = build.usize(0)
    paths = O.explore(eng, fn, setup=setup)
    KIND = {m.vidx("DataEntry", "Number"): "N", m.vidx("DataEntry", "X"): "X", m.vidx("DataEntry", "C"): "C"}
    n = 0
    for p in paths:
        eng.focus(p)
        if p.outcome != "return":
            R.fail(O, p, "expansion: %s %s" % (p.outcome, p.detail))
            continue
        r, mod = O.solve(list(p.pc))
        if r != "sat":
            continue
        k0 = KIND.get(mval(mod, z3.BitVec("r0e0.tag", 64), False))
        k1 = KIND.get(mval(mod, z3.BitVec("r1e0.tag", 64), False))
        cnt = {"N": 1, "X": 2, "C": 3}
        n0, n1 = cnt.get(k0, 0), cnt.get(k1, 0)
        if not n0 or not n1 or n0 + n1 + 1 > K:
            O.inconclusive("unexpected shape")
            continue
        loc = p.state.frames[0].locals
        claims = []
        for k in range(n0 + n1):
            rr = loc[10 + k]
            row = eng.field(eng.downcast(eng.field(eng.downcast(rr, "Ok"), 0), "Some"), 0)
            claims.append(eng.tag_of(rr, None) == bv64(0))
            claims.append(eng.scalar(eng.field(row, F("EvaluatedRow", "line"), "usize")) == bv64(LINES[0] if k < n0 else LINES[1]))
        n += 1
        R.prove(O, p, z3.And(claims), "rows of an expansion carry the line of their own source row (shapes %s then %s)" % (k0, k1))
    if n == 0:
        O.inconclusive("vacuous")
    O.note("%d paths, %d shape pairs" % (len(paths), n))


@obligation("C19/document-test-source", profiles=("dev",),
            desc="dig::File::load_test / load_test_by_name parse exactly the stored source text of the selected test (string "
                 "identity) - nothing is trimmed or re-assembled, so `line` counts from the first line of that text")
def document_source(O):
    from . import C16
    C16.load_test(O)
