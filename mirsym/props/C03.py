"""C03 - outputs are attributed to the right signal and verdicts follow the X/Z rules."""
import re

import z3

from ..oblig import obligation
from ..sym import bv64, Node
from ..models import vec_slice
from .. import build
from .common import initial, mval, T
from ..replay import Scenario, lit
from . import batteries as B
from . import dri


def rep():
    return dri.Rep({"family": "attribution"}, B.attribution_battery() + B.verdict_battery(), B.attribution_judge)


def verdict_ref(m, eng, exp, out):
    """the statement's rule as a term: passes iff expected X, or Z/Z, or equal numbers."""
    et, ot = eng.tag_of(exp, None), eng.tag_of(out, None)
    ev = eng.scalar(eng.field(eng.downcast(exp, "Value"), 0, "i64"))
    ov = eng.scalar(eng.field(eng.downcast(out, "Value"), 0, "i64"))
    EX, EZ, EV = (bv64(m.vidx("ExpectedValue", k)) for k in ("X", "Z", "Value"))
    OZ, OV = bv64(m.vidx("OutputValue", "Z")), bv64(m.vidx("OutputValue", "Value"))
    return z3.Or(et == EX, z3.And(et == EZ, ot == OZ), z3.And(et == EV, ot == OV, ev == ov)), (et, ot, ev, ov)


def verdict_scenarios(mod, m, terms):
    et, ot, ev, ov = terms
    e_kind = m.enums["ExpectedValue"][mval(mod, et, False) % 3]
    o_kind = m.enums["OutputValue"][mval(mod, ot, False) % 3]
    e_txt = {"Value": "(%s)" % lit(mval(mod, ev)), "Z": "Z", "X": "X"}[e_kind]
    o_val = {"Value": mval(mod, ov), "Z": "Z", "X": "X"}[o_kind]
    S = [("in", "A", 1, 0), ("out", "Y", 64), ("out", "W", 64)]
    return [Scenario("A Y\n0 %s\n" % e_txt, S, layout=["Y"], default_answer=[o_val], note="verdict %s vs %s" % (e_txt, o_val)),
            Scenario("A W\n0 %s\n" % e_txt, S, layout=["Y"], default_answer=[o_val], note="verdict against a signal never supplied")]


@obligation("C03/verdict-rules", desc="ExpectedValue::check, OutputValue::check, OutputResultEntry::check / is_checked and the "
            "failing_outputs filter, for all tags and all 64-bit payloads: pass iff expected X, or Z with output Z, or equal "
            "numbers; is_checked iff expected is not X; failing = not passing")
def verdict_rules(O):
    m = O.mir
    R = rep()
    # ExpectedValue::check(self, other: impl Into<OutputValue>) - instantiated at OutputValue by its callers
    fn = O.find("::check", file="value.rs", param0="&ExpectedValue")
    eng = O.engine()
    eng.models["<impl Into as Into>::into"] = lambda ctx: ctx.ret(__import__("mirsym.sym", fromlist=["copy_node"]).copy_node(ctx.args[0]))
    paths = O.explore(eng, fn)
    exp = eng.deref(initial(fn, 1))
    out = initial(fn, 2)
    ref, terms = verdict_ref(m, eng, exp, out)
    valid = [z3.ULT(terms[0], bv64(3)), z3.ULT(terms[1], bv64(3))]
    O.witness([p for p in paths if p.outcome == "return"], "check returns", valid)
    for p in paths:
        if p.outcome == "panic":
            O.fail_path(p, "check panics: %s" % p.detail, R.facts, lambda mod: verdict_scenarios(mod, m, terms), R.judge, extra=valid)
        elif p.outcome == "return":
            O.prove(p, eng.scalar(p.ret, "bool") == ref, "ExpectedValue::check follows the X/Z rules",
                    lambda mod: dict(R.facts, exp=mval(mod, terms[0], False), out=mval(mod, terms[1], False), ev=mval(mod, terms[2]), ov=mval(mod, terms[3])),
                    lambda mod: verdict_scenarios(mod, m, terms), R.judge, extra=valid)
    # OutputValue::check(&self, other: ExpectedValue) == other.check(*self)
    fn2 = O.find("::check", file="value.rs", param0="&OutputValue")
    eng2 = O.engine()
    eng2.models["<impl Into as Into>::into"] = eng.models["<impl Into as Into>::into"]
    paths2 = O.explore(eng2, fn2)
    out2 = eng2.deref(initial(fn2, 1))
    exp2 = initial(fn2, 2)
    ref2, terms2 = verdict_ref(m, eng2, exp2, out2)
    valid2 = [z3.ULT(terms2[0], bv64(3)), z3.ULT(terms2[1], bv64(3))]
    O.witness([p for p in paths2 if p.outcome == "return"], "OutputValue::check returns", valid2)
    for p in paths2:
        if p.outcome == "return":
            O.prove(p, eng2.scalar(p.ret, "bool") == ref2, "OutputValue::check follows the same rules", R.facts,
                    lambda mod: verdict_scenarios(mod, m, terms2), R.judge, extra=valid2)
        elif p.outcome == "panic":
            O.fail_path(p, "OutputValue::check panics", R.facts, lambda mod: verdict_scenarios(mod, m, terms2), R.judge, extra=valid2)
    # OutputResultEntry::check / is_checked
    for meth in ("check", "is_checked"):
        fn3 = O.find("::" + meth, file="lib.rs", param0="&OutputResultEntry")
        eng3 = O.engine()
        eng3.models["<impl Into as Into>::into"] = eng.models["<impl Into as Into>::into"]
        paths3 = O.explore(eng3, fn3)
        ent = eng3.deref(initial(fn3, 1))
        e3 = eng3.field(ent, m.fidx("OutputResultEntry", "expected"))
        o3 = eng3.field(ent, m.fidx("OutputResultEntry", "output"))
        ref3, terms3 = verdict_ref(m, eng3, e3, o3)
        valid3 = [z3.ULT(terms3[0], bv64(3)), z3.ULT(terms3[1], bv64(3))]
        want = ref3 if meth == "check" else terms3[0] != bv64(m.vidx("ExpectedValue", "X"))
        O.witness([p for p in paths3 if p.outcome == "return"], "OutputResultEntry::%s returns" % meth, valid3)
        for p in paths3:
            if p.outcome == "return":
                O.prove(p, eng3.scalar(p.ret, "bool") == want, "OutputResultEntry::%s" % meth, R.facts,
                        lambda mod, t=terms3: verdict_scenarios(mod, m, t), R.judge, extra=valid3)
            elif p.outcome == "panic":
                O.fail_path(p, "OutputResultEntry::%s panics" % meth, R.facts, lambda mod, t=terms3: verdict_scenarios(mod, m, t),
                            R.judge, extra=valid3)
    # failing_outputs filter closure: keeps exactly the entries that do not pass
    fn4 = O.find("::failing_outputs::{closure#0}")
    eng4 = O.engine()
    eng4.models["<impl Into as Into>::into"] = eng.models["<impl Into as Into>::into"]
    paths4 = O.explore(eng4, fn4)
    ent4 = eng4.deref(eng4.deref(initial(fn4, 2)))
    e4 = eng4.field(ent4, m.fidx("OutputResultEntry", "expected"))
    o4 = eng4.field(ent4, m.fidx("OutputResultEntry", "output"))
    ref4, terms4 = verdict_ref(m, eng4, e4, o4)
    valid4 = [z3.ULT(terms4[0], bv64(3)), z3.ULT(terms4[1], bv64(3))]
    O.witness([p for p in paths4 if p.outcome == "return"], "failing_outputs filter returns", valid4)
    for p in paths4:
        if p.outcome == "return":
            O.prove(p, eng4.scalar(p.ret, "bool") == z3.Not(ref4), "failing_outputs keeps exactly the failing entries",
                    R.facts, lambda mod: verdict_scenarios(mod, m, terms4), R.judge, extra=valid4)


@obligation("C03/attribution-element", desc="extract_output_values closure: value of the answer entry at the learnt "
            "position, only after its signal compared equal to the expected signal; never-supplied signals give X")
def attribution_element(O):
    dri.extract_identity(O, rep())


@obligation("C03/attribution-row", desc="extract_output_values as a whole (<= 2 expected entries): one value per expected "
            "entry, in order")
def attribution_row(O):
    dri.extract_whole(O, rep(), bound=2)


@obligation("C03/zip-into-row", desc="EvaluatedRow::into_data_row (<= 3 entries): outputs[i] = (expected[i].signal, "
            "values[i], expected[i].value) in order; inputs and line carried over")
def zip_into_row(O):
    m = O.mir
    R = rep()
    fn = O.find("::into_data_row", nparams=2)
    eng = O.engine()
    eng.iter_bound = 3
    paths = O.explore(eng, fn)
    row0 = initial(fn, 1)
    exp0 = vec_slice(eng, eng.field(row0, m.fidx("EvaluatedRow", "expected")))
    vals0 = vec_slice(eng, initial(fn, 2))
    n = eng.length(exp0)
    inv = [n == eng.length(vals0), z3.ULE(n, bv64(3))]
    rets = [p for p in paths if p.outcome == "return"]
    O.witness(rets, "into_data_row returns", inv)
    for p in paths:
        eng.focus(p)
        if p.outcome == "panic":
            R.fail(O, p, "into_data_row panics: %s" % p.detail, extra=inv)
            continue
        if p.outcome != "return":
            continue
        r, _ = O.solve(list(p.pc) + inv, want_model=False)
        if r != "sat":
            continue
        outs = vec_slice(eng, eng.field(p.ret, m.fidx("DataRow", "outputs")))
        R.prove(O, p, eng.length(outs) == n, "one output entry per expected entry", extra=inv)
        R.prove(O, p, eng.scalar(eng.field(p.ret, m.fidx("DataRow", "line"), "usize")) ==
                eng.scalar(eng.field(row0, m.fidx("EvaluatedRow", "line"), "usize")), "line carried over", extra=inv)
        for i, (idx, e) in enumerate(outs.elems or []):
            ee = eng.elem(exp0, idx)
            want_sig = eng.field(ee, m.fidx("ExpectedEntry", "signal"))
            got_sig = eng.field(e, m.fidx("OutputResultEntry", "signal"))
            if not (got_sig.root == want_sig.root and got_sig.path == want_sig.path):
                R.fail(O, p, "output entry %d names a different signal than expected entry %d" % (i, i), extra=inv)
            for fld, src_node in (("expected", eng.field(ee, m.fidx("ExpectedEntry", "value"))), ("output", eng.elem(vals0, idx))):
                g = eng.field(e, m.fidx("OutputResultEntry", fld))
                gt, wt = eng.tag_of(g, None), eng.tag_of(src_node, None)
                gv = eng.scalar(eng.field(eng.downcast(g, "Value"), 0, "i64"))
                wv = eng.scalar(eng.field(eng.downcast(src_node, "Value"), 0, "i64"))
                R.prove(O, p, z3.And(gt == wt, z3.Implies(gt == bv64(0), gv == wv)),
                        "output entry %d carries the %s value of position %d unchanged" % (i, fld, i), extra=inv)
    O.note("bounded to 3 entries")


@obligation("C03/output-positions", desc="build_output_indices (2 expected entries, <= 2 answer entries): the stored index is "
            "the position of the first answer entry whose signal equals the expected signal, Virtual for virtual signals, "
            "None if the driver does not supply it; the learnt count equals the number of Output entries")
def output_positions(O):
    for nexp, nout in ((2, 2), (2, 1), (1, 2)) + (((3, 2),) if O.tier == "thorough" else ()):
        _output_positions(O, nexp, nout)
    O.note("configurations (expected entries, answer entries): (2,2), (2,1) and (1,2) [(3,2) in the thorough tier]; (3,3) is an obligation of its own")


@obligation("C03/output-positions[3 expected, 3 answered]", desc="build_output_indices with three expected entries and three answer "
            "entries (the smallest configuration in which a layout can be a rotation, i.e. a permutation that differs from its "
            "inverse): each stored index is the position of the first answer entry whose signal equals the expected signal")
def output_positions_33(O):
    _output_positions(O, 3, 3)


def _output_positions(O, NEXP, NOUT):
    m = O.mir
    R = rep()
    F = m.fidx
    fn = O.find("::build_output_indices")
    eng = O.engine()
    eng.iter_bound = 3
    eng.max_visits = 6
    eng.keep_events(r"<&Signal as PartialEq>::eq", r"join$", r"<String as Clone>::clone")
    sig_root = {}

    def setup(eng_, st, fr):
        me = eng_.deref(fr.locals[1])
        sigs = []
        for s in range(NEXP):
            typ = Node("typ%d" % s, ty="SignalType")
            sigs.append(build.struct([Node("name%d" % s, ty="String"), Node("bits%d" % s, ty="usize"), typ], "Signal"))
            sig_root[sigs[-1].root] = s
        eng_.field(me, F("DataRowIteratorTestData", "signals")).target = build.slice_of_items(sigs, "[Signal]")
        # each expected entry either has a header column (Entry) or not (Default): symbolic choice, same signal
        ei = []
        for s in range(NEXP):
            n_ = Node("eidx%d" % s, ty="EntryIndex")
            n_.tag = z3.BitVec("eidx%d.tag" % s, 64)
            st.pc.append(z3.ULT(n_.tag, bv64(2)))
            pe = Node("eidx%d#Entry" % s, ty="EntryIndex")
            pe.fields = {0: build.usize(s), 1: build.usize(s)}
            pd = Node("eidx%d#Default" % s, ty="EntryIndex")
            pd.fields = {0: build.usize(s)}
            n_.variants = {"Entry": pe, "Default": pd}
            ei.append(n_)
        eng_.field(me, F("DataRowIteratorTestData", "expected_indices")).target = build.slice_of_items(ei, "[EntryIndex]")
        outs = [build.struct([Node("osig%d" % k, ty="&Signal"), Node("oval%d" % k, ty="value::OutputValue")], "OutputEntry")
                for k in range(NOUT)]
        sl = build.slice_of_items(outs, "[OutputEntry]")
        st.extra["outs"] = sl
        fr.locals[2].target = sl
        # no outputs are read directly in this configuration
        fr.locals[3].target = build.slice_of_items([], "[usize]")
        for s in range(NEXP):
            t = eng_.tag_of(sigs[s].fields[2], st)

    paths = O.explore(eng, fn, setup=setup)
    rets = [p for p in paths if p.outcome == "return"]
    O.witness(rets, "build_output_indices returns")
    T_VIRT = m.vidx("SignalType", "Virtual")
    for p in paths:
        eng.focus(p)
        if p.outcome == "panic":
            R.fail(O, p, "build_output_indices panics: %s" % p.detail)
            continue
        if p.outcome != "return":
            if p.outcome == "cut":
                O.inconclusive("loop bound too small in build_output_indices: %s" % p.detail)
            continue
        rtag = eng.tag_of(p.ret, None)
        R.prove(O, p, rtag == bv64(0), "no read outputs -> construction succeeds")
        me = eng.deref(p.args.fields[1])
        oix = vec_slice(eng, eng.field(me, F("DataRowIteratorTestData", "output_indices")))
        R.prove(O, p, eng.length(oix) == bv64(NEXP), "one output index per expected entry")
        eqs = p.calls(r"<&Signal as PartialEq>::eq")
        # group eq events per expected signal (by the signal compared)
        for s in range(NEXP):
            ent = eng.elem(oix, bv64(s))
            et = eng.tag_of(ent, None)
            k_ = eng.scalar(eng.field(eng.downcast(ent, "Output"), 0, "usize"))
            styp = z3.BitVec("typ%d.tag" % s, 64)
            mine = []
            for e in eqs:
                roots = [r for t in e.tnames for (r, _) in getattr(t, "chain", [])]
                if any(sig_root.get(r) == s for r in roots):
                    mine.append(e)
            virt = styp == bv64(T_VIRT)
            # first-match semantics relative to the comparison results
            res = [eng.scalar(e.ret, "bool") for e in mine]
            conds = []
            for j in range(len(res)):
                first_j = z3.And([z3.Not(r) for r in res[:j]] + [res[j]])
                conds.append(z3.Implies(first_j, z3.And(et == bv64(m.vidx("OutputEntryIndex", "Output")), k_ == bv64(j))))
            none_found = z3.And([z3.Not(r) for r in res]) if res else z3.BoolVal(True)
            r_, _ = O.solve(list(p.pc) + [z3.Not(virt)], want_model=False)
            if r_ == "sat":
                if len(mine) == 0:
                    R.fail(O, p, "a non-virtual expected signal is not searched for among the driver's outputs", extra=[z3.Not(virt)])
                    continue
                full = len(mine) == NOUT
                R.prove(O, p, z3.And(conds), "the stored index is the position of the first matching answer entry", extra=[z3.Not(virt)])
                if full:
                    R.prove(O, p, z3.Implies(none_found, et == bv64(m.vidx("OutputEntryIndex", "None"))),
                            "a signal the driver does not supply gets index None", extra=[z3.Not(virt)])
                else:
                    # the search stopped early: only legitimate if an earlier comparison succeeded
                    R.prove(O, p, z3.Or(res), "the search for a signal stops only after a match", extra=[z3.Not(virt)])
                # comparisons must be against the answer entries in order
                for j, e in enumerate(mine):
                    roots = [r for t in e.tnames for (r, _) in getattr(t, "chain", [])]
                    if "osig%d" % j not in roots:
                        R.fail(O, p, "comparison %d for signal %d does not look at answer entry %d" % (j, s, j), extra=[z3.Not(virt)])
            R.prove(O, p, z3.Implies(virt, et == bv64(m.vidx("OutputEntryIndex", "Virtual"))), "virtual signals get a Virtual index")


@obligation("C03/row-values-are-this-call's", desc="handle_io: every row's outputs come from a driver call made for that very row "
            "(exactly one call, its answer handed to the extraction unchanged) - never from an earlier call's answer kept "
            "somewhere, whatever the row's changed flags say")
def this_calls_values(O):
    from . import C02, C13
    R0 = rep()
    # a row's values are "this call's" only if the row has a call of its own: the protocol judge (one call per row, of the
    # right kind) runs before the attribution judge
    W = dri.WithRep(O, dri.Rep(R0.facts, R0.battery, lambda obs, sc: B.protocol_judge(obs, sc) or R0.judge(obs, sc)))
    C02.handle_io(W)
    C13.answer_passed_unchanged(W)


@obligation("C03/kani-verdict-kernels", profiles=("dev",),
            desc="second engine (Kani / CBMC over the compiled code): ExpectedValue::check / OutputValue::check for all tags and "
                 "payloads; OutputResultEntry::check / is_checked and DataRow::failing_outputs on a row of two arbitrary entries "
                 "(exactly the non-passing entries, in order, by identity)")
def kani_verdict_kernels(O):
    from . import kani_obs
    kani_obs.verdict_kernels(O, "C03")


@obligation("C03/signal-identity", desc="<Signal as PartialEq>::eq - what attribution compares signals with - holds only for signals of "
            "the same name (string identity), width and kind: two signals whose names differ (in case, say) are never the same")
def signal_identity(O):
    from ..itermodels import str_id, _str_node
    m = O.mir
    R = rep()
    cands = [f for n, f in m.funcs.items() if n.endswith("::eq") and "src/lib.rs" in n and f.params and "&Signal" in f.params[0][1].replace("'_ ", "")]
    cands = [f for f in cands if len(f.params) == 2 and "Signal" in f.params[1][1] and "SignalType" not in f.params[0][1]]
    if len(cands) != 1:
        raise LookupError("cannot identify <Signal as PartialEq>::eq (%d candidates)" % len(cands))
    fn = cands[0]
    eng = O.engine()
    paths = O.explore(eng, fn)
    a, b = eng.deref(initial(fn, 1)), eng.deref(initial(fn, 2))
    na = str_id(eng, _str_node(eng, eng.field(a, m.fidx("Signal", "name"))))
    nb = str_id(eng, _str_node(eng, eng.field(b, m.fidx("Signal", "name"))))
    ba = eng.scalar(eng.field(a, m.fidx("Signal", "bits"), "usize"))
    bb = eng.scalar(eng.field(b, m.fidx("Signal", "bits"), "usize"))
    O.witness([p for p in paths if p.outcome == "return"], "Signal::eq returns")
    for p in paths:
        eng.focus(p)
        if p.outcome == "panic":
            R.fail(O, p, "Signal::eq panics: %s" % p.detail)
            continue
        if p.outcome != "return":
            continue
        other = [e.norm for e in p.trace if e.kind == "call" and not re.search(r"PartialEq|::eq$|::ne$", e.norm)]
        if other:
            R.fail(O, p, "Signal::eq compares through %s" % other[0].split("::")[-1])
            continue
        R.prove(O, p, z3.Implies(eng.scalar(p.ret, "bool"), z3.And(na == nb, ba == bb)),
                "signals that compare equal have the same name and width")


@obligation("C03/no-state-outside-the-iterator", profiles=("dev",),
            desc="TestCase has no interior mutability and the crate keeps no mutable global state: attribution positions come from this run's own first answer "
                 "(type-level facts read from the MIR and the struct definition)")
def no_state_outside(O):
    from . import C15, dri
    C15.no_shared_state_core(O, rep())


@obligation("C03/glue-stores-nothing", profiles=("dev",),
            desc="next / handle_io store nothing into the iterator themselves and call nothing but get_row / handle_io / "
                 "into_data_row resp. the driver, set_outputs and extract_output_values, on every path: no cache of answers, "
                 "no skipped call, nothing remembered between rows outside those functions")
def glue_stores_nothing(O):
    from . import dri
    dri.glue_keeps_state(O, rep())
