"""C15 - deterministic and re-runnable; static iteration equals any dynamic run."""
import re

import z3

from ..oblig import obligation
from ..sym import bv64, Node
from ..models import vec_slice
from .. import build
from .common import initial, mval, T
from ..replay import Scenario
from . import batteries as B
from . import dri


def rep():
    return dri.Rep({"family": "static"}, B.static_battery(), B.static_judge)


@obligation("C15/finish-sorted", desc="Parser::finish: every list built by draining a HashMap reaches the returned ParseResult "
            "only after being sorted (HashMap iteration order is arbitrary and differs between parses)")
def finish_sorted(O):
    m = O.mir
    R = rep()
    fn = O.find("::finish", file="parser/mod.rs")
    eng = O.engine()
    paths = O.explore(eng, fn)
    O.witness([p for p in paths if p.outcome == "return"], "finish returns")
    for p in paths:
        eng.focus(p)
        if p.outcome != "return":
            R.fail(O, p, "finish: %s %s" % (p.outcome, p.detail))
            continue
        collects = [e for e in p.calls() if e.norm.endswith("::collect") or e.norm.startswith("collect[")]
        sorts = [e for e in p.calls() if re.search(r"::sort(_by|_by_key|_unstable\w*)?$", e.norm)]
        sorted_roots = set()
        for s in sorts:
            for t in s.tnames:
                if t:
                    sorted_roots.add(t[0])
                for (r_, _) in getattr(t, "chain", []):
                    sorted_roots.add(r_)
        fields = m.structs.get("ParseResult", [])
        for i, fname in enumerate(fields):
            f = eng.field(p.ret, i)
            src = [c for c in collects if c.ret.root == f.root]
            if not src:
                O.inconclusive("cannot trace where ParseResult.%s comes from" % fname)
                continue
            # does it stem from a HashMap? (the collect's iterator chain starts at a HashMap::into_iter)
            from_map = any("HashMap" in e.callee or "hash_map" in e.callee for e in p.calls() if "into_iter" in e.norm or "drain" in e.norm)
            if from_map and f.root not in sorted_roots:
                R.fail(O, p, "ParseResult.%s is built from a HashMap and returned without being sorted" % fname)


@obligation("C15/static-gate", desc="try_iter_static: Err iff the program reads outputs (read_outputs non-empty); otherwise the "
            "iterator is a DataRowIterator over the zero-sized static driver")
def static_gate(O):
    m = O.mir
    R = rep()
    fn = O.find("::try_iter_static")
    eng = O.engine()
    eng.iter_bound = 2
    eng.keep_events(r"try_new$", r"join$", r"Box::leak", r"<String as Clone>::clone")
    paths = O.explore(eng, fn)
    ro = vec_slice(eng, eng.field(eng.deref(initial(fn, 1)), m.fidx("TestCase", "read_outputs")))
    n = eng.length(ro)
    O.witness([p for p in paths if p.outcome == "return"], "static, no reads", [n == bv64(0)])
    O.witness([p for p in paths if p.outcome == "return"], "not static", [n != bv64(0)])
    for p in paths:
        eng.focus(p)
        if p.outcome == "cut":
            continue
        if p.outcome == "panic":
            if "index out of bounds" in (p.detail or ""):
                O.assumed_unreachable("try_iter_static: %s" % p.detail, "read_outputs holds positions found in this very signal list at bind time")
                continue
            if "shouldn't be any possible errors" in (p.detail or "") or "expect" in (p.detail or ""):
                O.assumed_unreachable("try_iter_static: %s" % p.detail, "with read_outputs empty build_output_indices reports no "
                                      "missing output and the static driver's error type is uninhabited")
                continue
            R.fail(O, p, "try_iter_static panics: %s" % p.detail)
            continue
        if p.outcome != "return":
            continue
        rt = eng.tag_of(p.ret, None)
        tn = p.calls(r"try_new$")
        R.prove(O, p, (rt == bv64(1)) == (n != bv64(0)), "try_iter_static fails iff the program reads outputs")
        r, _ = O.solve(list(p.pc) + [n == bv64(0)], want_model=False)
        if r == "sat":
            if len(tn) != 1 or T(eng, tn[0].args[0]) is not T(eng, p.args.fields[1]):
                R.fail(O, p, "the static iterator is not built over this very test", extra=[n == bv64(0)])
        r, _ = O.solve(list(p.pc) + [n != bv64(0)], want_model=False)
        if r == "sat" and tn:
            R.fail(O, p, "a non-static test is run against the static driver", extra=[n != bv64(0)])


@obligation("C15/static-row", desc="From<DataRow> for StaticDataRow (<= 2 outputs): inputs and line unchanged, expected[i] = "
            "(outputs[i].signal, outputs[i].expected) in order; StaticDataRowIterator::next maps rows and runtime errors")
def static_row(O):
    m = O.mir
    R = rep()
    fn = O.find("::from", file="static_test.rs")
    eng = O.engine()
    eng.iter_bound = 3
    paths = O.explore(eng, fn)
    row0 = initial(fn, 1)
    outs0 = vec_slice(eng, eng.field(row0, m.fidx("DataRow", "outputs")))
    n = eng.length(outs0)
    O.witness([p for p in paths if p.outcome == "return"], "conversion returns", [z3.ULE(n, bv64(2))])
    for p in paths:
        eng.focus(p)
        if p.outcome == "cut":
            continue
        if p.outcome != "return":
            R.fail(O, p, "StaticDataRow::from: %s %s" % (p.outcome, p.detail))
            continue
        exp = vec_slice(eng, eng.field(p.ret, m.fidx("StaticDataRow", "expected")))
        R.prove(O, p, eng.length(exp) == n, "one expected entry per output entry")
        R.prove(O, p, eng.scalar(eng.field(p.ret, m.fidx("StaticDataRow", "line"), "usize")) ==
                eng.scalar(eng.field(row0, m.fidx("DataRow", "line"), "usize")), "line unchanged")
        ins = eng.field(p.ret, m.fidx("StaticDataRow", "inputs"))
        ins0 = eng.field(row0, m.fidx("DataRow", "inputs"))
        if ins.root != ins0.root:
            R.fail(O, p, "inputs of the static row are not the row's inputs")
        for ix, e in (exp.elems or []):
            src = eng.elem(outs0, ix)
            g = eng.field(e, m.fidx("ExpectedEntry", "value"))
            w = eng.field(src, m.fidx("OutputResultEntry", "expected"))
            gs = eng.field(e, m.fidx("ExpectedEntry", "signal"))
            ws = eng.field(src, m.fidx("OutputResultEntry", "signal"))
            if not (gs.root == ws.root and gs.path == ws.path):
                R.fail(O, p, "static expected entry names a different signal")
            gt, wt = eng.tag_of(g, None), eng.tag_of(w, None)
            gv = eng.scalar(eng.field(eng.downcast(g, "Value"), 0, "i64"))
            wv = eng.scalar(eng.field(eng.downcast(w, "Value"), 0, "i64"))
            R.prove(O, p, z3.And(gt == wt, z3.Implies(gt == bv64(0), gv == wv)), "static expected value equals the row's expected value")


@obligation("C15/no-shared-state", desc="iterators only borrow the test immutably and TestCase has no interior mutability: all "
            "run state lives in the iterator (signature- and type-level facts read from the MIR and the struct definitions)")
def no_shared_state(O):
    no_shared_state_core(O, rep())


def no_shared_state_core(O, R):
    m = O.mir
    bad = []
    for suffix in ("::try_new", "::try_iter", "::try_iter_static"):
        try:
            fn = O.find(suffix)
        except LookupError as e:
            O.inconclusive(str(e))
            continue
        O.rec["functions"][fn.name.split("::")[-1]] = fn.text_hash
        ty = fn.params[0][1]
        if not ty.strip().startswith("&") or ty.strip().startswith("&mut"):
            bad.append("%s takes the test as %s" % (suffix, ty))
    import os
    from .. import frontend
    txt = open(os.path.join(m.repo, "src/lib.rs")).read()
    mm = re.search(r"pub struct TestCase\s*\{(.*?)\n\}", txt, re.S)
    body = mm.group(1) if mm else ""
    if not body:
        O.inconclusive("cannot find the TestCase definition")
    for cell in ("Cell<", "RefCell<", "OnceLock<", "OnceCell<", "Mutex<", "RwLock<", "Atomic", "LazyLock<", "UnsafeCell<"):
        if cell in body:
            bad.append("TestCase has a field with interior mutability (%s)" % cell.rstrip("<"))
    # no state outside the iterator: the crate defines no mutable statics and no thread-locals, and no run-time body
    # touches one (scan of every item and every call of the MIR; read-only tables are `static` items of array / struct
    # type without interior mutability - listed in the note)
    statics = []
    for name, f in m.funcs.items():
        if f.kind in ("static", "static mut"):
            ty = f.ret_ty or ""
            if f.kind == "static mut" or any(c in ty for c in ("Cell<", "Lock<", "Mutex<", "Atomic", "LocalKey", "Once")):
                bad.append("mutable global state: static %s: %s" % (name, ty[:60]))
            else:
                statics.append("%s: %s" % (name.split("::")[-1], ty[:40]))
    # (RefCell / Cell inside iterator-owned state, e.g. the context's generator, is not shared state)
    rx = re.compile(r"LocalKey|thread_local|thread::local|OnceLock|LazyLock|Mutex<|RwLock<|Atomic[A-Z]")
    for name, f in m.funcs.items():
        hit = None
        for ty in list(f.locals.values()) + [t for _, t in f.params] + [f.ret_ty or ""]:
            if ty and rx.search(ty):
                hit = ty
                break
        if hit is None:
            for bb, (stmts, term) in f.blocks.items():
                if term and term[0] == "call" and rx.search(str(term[2])):
                    hit = str(term[2])
                    break
        if hit is not None and not re.search(r"dig\.rs|errors\.rs|::fmt$", name):
            bad.append("%s uses shared or interior-mutable state (%s)" % (name.split("::")[-1], hit[:70]))
    O.note("read-only statics: %s" % (", ".join(sorted(statics)) or "none"))
    O.rec["paths"] += 1
    seen_bad = set()
    for b_ in bad:
        key = re.sub(r"\d+", "N", b_)[:60]
        if key in seen_bad:
            continue
        seen_bad.add(key)
        O.violation(b_, None, dict(R.facts, what=key), R.battery, R.judge, b_)


@obligation("C15/swap-restored", desc="a fault on one row leaves the evaluation context as a fault-free run would (variable "
            "maps swapped back), so later rows equal the static rows")
def swap_restored(O):
    from . import C04
    C04.swap_restored(O, rep())


@obligation("C15/reads-recorded", desc="the static gate sees every output read: identifiers not in scope are recorded; a let's "
            "own name is not in scope inside its initialiser")
def reads_recorded(O):
    from . import C11
    W = dri.WithRep(O, rep())
    C11.SCOPE_OBS["let"](W)
    C11.SCOPE_OBS["loop"](W)
    C11.SCOPE_OBS["repeat"](W)
    C11.SCOPE_OBS["while"](W)        # the parser opens no scope for while either: what the run binds, the static gate knows
    C11.identifier_read(W)


@obligation("C15/variables-first", desc="EvalContext::get: a name bound by the program is read from the variable frames whatever "
            "the driver reports for an output of that name - a program the static gate accepts (it reads no output) evaluates "
            "the same with every driver")
def variables_first(O):
    from . import C04
    C04.ctx_get(O, rep())


@obligation("C15/conditionally-bound-names", profiles=("dev",),
            desc="the static gate and the run time must agree on what a name is. Decided facts: (1) parser, `while` arm - are names "
                 "bound while parsing the body still in scope after `end while` (no scope operation around the body)? (2) "
                 "EvalContext::get - does a name with no variable binding fall back to the device output of that name? If both, "
                 "a name whose only binding sits in a while body that runs zero times is a variable for the parser (its read is "
                 "not recorded, the static gate opens) and an output read at run time: the composed counterexample is run natively")
def conditionally_bound(O):
    from . import C09, C11
    R = rep()
    m, eng, ts, paths = C09.explore_block(O, 0, None, None, 1, keep=C11.SCOPE_KEEP, fixed=("While", "LParen", "RParen", "Eol"),
                                          keep_outcomes=lambda oc: oc in ("return", "cut", "panic"))
    leaks = 0
    nacc = 0
    for p in paths:
        eng.focus(p)
        if p.outcome != "return":
            continue
        rt = eng.tag_of(p.ret, None)
        r, _ = O.solve(list(p.pc) + [rt == bv64(0)], want_model=False)
        if r != "sat":
            continue
        nacc += 1
        ev = C11.scope_events(p)
        if "block" in ev:
            i = ev.index("block")
            around = ev[max(0, i - 1):i] + ev[i + 1:i + 2]
            if "push_frame" not in around and "pop_frame" not in around and not any(x in ev for x in ("snapshot", "restore")):
                leaks += 1
    if nacc == 0:
        O.inconclusive("vacuous: no accepted while statement")
        return
    # (2) fall-back of an unbound name to the outputs
    fn = O.find("::get", file="eval_context.rs")
    eng2 = O.engine()
    eng2.keep_events(r"FramedMap::get$", r"HashMap::get$")
    paths2 = O.explore(eng2, fn)
    fallback = 0
    for p in paths2:
        eng2.focus(p)
        if p.outcome != "return":
            continue
        calls = p.calls(r"(FramedMap|HashMap)::get$")
        if len(calls) == 2 and calls[0].norm.startswith("FramedMap::get") and calls[1].norm.startswith("HashMap::get"):
            vt = eng2.tag_of(calls[0].ret, None)
            ot = eng2.tag_of(calls[1].ret, None)
            r, _ = O.solve(list(p.pc) + [vt == bv64(0), ot == bv64(1), eng2.tag_of(p.ret, None) == bv64(1)], want_model=False)
            if r == "sat":
                fallback += 1
    O.rec["witnesses"].append({"class": "while bodies bind into the enclosing scope / unbound names fall back to outputs",
                               "paths": leaks + fallback, "model": {"leaking_paths": str(leaks), "fallback_paths": str(fallback)}})
    if leaks and fallback:
        S = [("in", "A", 8, 0), ("out", "Y", 8), ("out", "Q", 8)]
        scen = [Scenario("A Y\nwhile(0)\nlet Q = 1;\nend while\n(Q) X\n", S, mode="both", default_answer=[3, 7], expect={"static": "ok"},
                         stop_on_err=False, note="a name first bound in a while body that runs zero times, read afterwards"),
                Scenario("A Y\nlet k = 0;\nwhile(k)\nlet Q = 1;\nend while\n(Q+1) X\n2 X\n", S, mode="both", default_answer=[3, 7],
                         expect={"static": "ok"}, stop_on_err=False, note="the same with a variable condition")]
        O.violation("a name first bound in a while body that may run zero times is a variable for the static gate and a device "
                    "output at run time", None, dict(R.facts, what="name first bound in a while body that may run zero times"),
                    scen, R.judge, "parser: %d accepting while paths keep the body's bindings; get: %d fall-back paths" % (leaks, fallback))
    O.note("while arm: %d of %d accepting paths keep the body's bindings in scope; get: %d paths fall back to an output" % (leaks, nacc, fallback))


@obligation("C15/driver-answers-leave-no-trace", desc="next / handle_io store nothing into the iterator themselves and call only "
            "get_row, handle_io, into_data_row resp. the driver, set_outputs, extract_output_values - on the error arms too: "
            "what the driver answers (an error, a deviating layout) changes nothing a later row's inputs, flags or lines "
            "are computed from, so a statically accepted test yields the static rows whatever the driver returns")
def driver_answers_leave_no_trace(O):
    dri.glue_keeps_state(O, rep())


@obligation("C15/dig-signal-order", desc="dig::File::parse and its closures: the signal list is built once from the document "
            "(inputs then outputs, document order) and afterwards only read or changed in place - nothing removes, inserts, sorts "
            "or otherwise re-orders it, so the order does not depend on the iteration order of the hash sets used for the "
            "read-back columns (call sites of the MIR)")
def dig_signal_order(O):
    m = O.mir
    R = dri.Rep({"family": "dig"}, B.dig_battery(), B.dig_judge)
    rx = re.compile(r"Vec::<Signal>::(?:remove|insert|swap_remove|retain|retain_mut|sort\w*|push|extend\w*|truncate|drain|splice|dedup\w*|append|split_off)\b"
                    r"|<impl \[Signal\]>::(?:swap|sort\w*|reverse|rotate_\w+|select_nth\w*)\b")
    n = 0
    bad = []
    for name, f in m.funcs.items():
        if "src/dig.rs" not in name and not name.startswith("dig::"):
            continue
        if not re.search(r"::parse(?:::\{closure#\d+\})*$", name):
            continue
        n += 1
        O.rec["functions"][name.split("::")[-1] if "closure" not in name else name[-40:]] = f.text_hash
        for bb, (stmts, term) in f.blocks.items():
            if term and term[0] == "call" and rx.search(str(term[2])):
                bad.append(str(term[2])[:80])
    O.rec["paths"] += n
    if n == 0:
        O.inconclusive("cannot find dig::File::parse")
    for b_ in sorted(set(bad))[:3]:
        O.violation("File::parse restructures the signal list (%s)" % b_, None, dict(R.facts, what="signal list re-ordered"), R.battery, R.judge, b_)
