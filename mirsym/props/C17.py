"""C17 - random(n) stays in range, draws once per evaluation, and resetRandom replays.

Relative to rand's documented contract (gen_range(lo..hi) returns lo <= v < hi and consumes the generator state;
seed_from_u64 is a function of the seed): the generator is an uninterpreted environment, each draw one event.
"""
import z3

from ..oblig import obligation
from ..sym import bv64
from .common import initial, mval, T
from . import batteries as B
from . import dri


def rep():
    return dri.Rep({"family": "random"}, B.random_battery(), B.random_judge)


@obligation("C17/random-once-in-range", desc="func_random: the bound is evaluated exactly once, exactly one draw is made "
            "from the context's generator with a range inside [0, n), and the drawn value is returned unchanged; an "
            "evaluation error of the bound makes no draw")
def random_once(O):
    R = rep()
    fn = O.find("func_random")
    eng = O.engine()
    eng.keep_events(r"^Expr::eval$")
    paths = O.explore(eng, fn)
    args = eng.deref(initial(fn, 2))
    cls = [eng.length(args) == bv64(1)]
    O.witness([p for p in paths if p.outcome == "return" and p.calls(r"gen_range")], "random(n) draws", cls)
    for p in paths:
        eng.focus(p)
        r, _ = O.solve(list(p.pc) + cls, want_model=False)
        if r != "sat":
            continue
        if p.outcome == "panic":
            R.fail(O, p, "random panics: %s" % p.detail, extra=cls)
            continue
        if p.outcome != "return":
            continue
        evs = p.calls(r"^Expr::eval$")
        draws = p.calls(r"gen_range$")
        if len(evs) != 1:
            R.fail(O, p, "random evaluates its bound %d times" % len(evs), extra=cls)
            continue
        a2 = eng.deref(p.args.fields[2])
        if T(eng, evs[0].args[0]) is not eng.elem(a2, bv64(0)):
            R.fail(O, p, "random evaluates something else than its argument", extra=cls)
        bt = eng.tag_of(evs[0].ret, None)
        n = eng.scalar(eng.field(eng.downcast(evs[0].ret, "Ok"), 0, "i64"))
        rt = eng.tag_of(p.ret, None)
        if len(draws) > 1:
            R.fail(O, p, "random draws %d times in one evaluation" % len(draws), extra=cls)
            continue
        if len(draws) == 0:
            # no draw: only for a failed bound or a bound below 2 (error item, C10)
            R.prove(O, p, z3.Or(bt == bv64(1), n < bv64(2)), "random(n) with n >= 2 always draws", extra=cls)
            R.prove(O, p, rt == bv64(1), "random without a draw is an error, not a value", extra=cls)
            continue
        v = eng.scalar(draws[0].ret, "i64")
        got = eng.scalar(eng.field(eng.downcast(p.ret, "Ok"), 0, "i64"))
        R.prove(O, p, z3.And(bt == bv64(0), rt == bv64(0), got == v), "the drawn value is returned unchanged", extra=cls)
        R.prove(O, p, z3.And(v >= bv64(0), v < n), "the drawn value lies in [0, n)", extra=cls)
        # the generator used is the context's
        ctx_rng = eng.field(eng.deref(p.args.fields[1]), O.mir.fidx("EvalContext", "rng"))
        ch = [r_ for t in draws[0].tnames for (r_, _) in getattr(t, "chain", [])] + [t[0] for t in draws[0].tnames if t]
        borrow = p.calls(r"RefCell::borrow_mut$")
        if not borrow or T(eng, borrow[0].args[0]) is not ctx_rng:
            R.fail(O, p, "the draw does not use the evaluation context's generator", extra=cls)


@obligation("C17/reseed", desc="reset_random_seed re-creates the generator from the run's stored seed; with_seed stores the "
            "very seed it seeds the generator with (so resetRandom restarts the same sequence)")
def reseed(O):
    m = O.mir
    R = rep()
    fn = O.find("::reset_random_seed")
    eng = O.engine()
    paths = O.explore(eng, fn)
    O.witness([p for p in paths if p.outcome == "return"], "reset_random_seed returns")
    seed0 = eng.scalar(eng.field(eng.deref(initial(fn, 1)), m.fidx("EvalContext", "seed"), "u64"))
    for p in paths:
        eng.focus(p)
        if p.outcome != "return":
            R.fail(O, p, "reset_random_seed: %s %s" % (p.outcome, p.detail))
            continue
        sd = p.calls(r"seed_from_u64$")
        nw = p.calls(r"RefCell::new$")
        if len(sd) != 1 or len(nw) != 1:
            R.fail(O, p, "reset_random_seed does not create exactly one generator")
            continue
        R.prove(O, p, eng.scalar(sd[0].args[0], "u64") == seed0, "the generator is re-created from the stored seed")
        me = eng.deref(p.args.fields[1])
        rng = eng.field(me, m.fidx("EvalContext", "rng"))
        if rng.root != nw[0].ret.root or nw[0].args[0].root != sd[0].ret.root:
            R.fail(O, p, "the re-created generator is not installed in the context")
        R.prove(O, p, eng.scalar(eng.field(me, m.fidx("EvalContext", "seed"), "u64")) == seed0, "the stored seed is unchanged")
    fn2 = O.find("::with_seed")
    eng2 = O.engine()
    paths2 = O.explore(eng2, fn2)
    s_in = eng2.scalar(initial(fn2, 1))
    O.witness([p for p in paths2 if p.outcome == "return"], "with_seed returns")
    for p in paths2:
        eng2.focus(p)
        if p.outcome != "return":
            R.fail(O, p, "with_seed: %s" % p.outcome)
            continue
        sd = p.calls(r"seed_from_u64$")
        if len(sd) != 1:
            R.fail(O, p, "with_seed does not seed exactly one generator")
            continue
        R.prove(O, p, z3.And(eng2.scalar(sd[0].args[0], "u64") == s_in,
                             eng2.scalar(eng2.field(p.ret, m.fidx("EvalContext", "seed"), "u64")) == s_in),
                "the generator is seeded with, and the context remembers, the same seed")


@obligation("C17/one-draw-per-call", desc="EvalContext::random: exactly one gen_range on the context's own generator")
def one_draw(O):
    m = O.mir
    R = rep()
    fn = O.find("::random", file="eval_context.rs")
    eng = O.engine()
    paths = O.explore(eng, fn)
    O.witness([p for p in paths if p.outcome == "return"], "random returns")
    for p in paths:
        eng.focus(p)
        if p.outcome != "return":
            continue
        g = p.calls(r"gen_range$")
        if len(g) != 1:
            R.fail(O, p, "EvalContext::random draws %d times" % len(g))
            continue
        b = p.calls(r"RefCell::borrow_mut$")
        rng = eng.field(eng.deref(p.args.fields[1]), m.fidx("EvalContext", "rng"))
        if not b or T(eng, b[0].args[0]) is not rng:
            R.fail(O, p, "the draw does not use the context's generator")
        if p.ret.root != g[0].ret.root:
            R.fail(O, p, "the drawn value is not returned unchanged")


@obligation("C17/evaluation-order", desc="Expr::eval: every operand of a unary/binary operator is evaluated exactly once "
            "(no short-circuit may skip a draw); ite evaluates only the selected branch")
def evaluation_order(O):
    from . import C08
    W = dri.WithRep(O, rep())
    C08.expr_eval_step(W)
    C08.ite_lazy(W)


@obligation("C17/interpreter", desc="statement interpreter: resetRandom reseeds exactly once where it stands; while bodies "
            "run through the same statement iterator as everything else")
def interpreter(O):
    from . import C01
    old = C01.rep
    C01.rep = rep
    try:
        C01.interpreter_arms(O)
    finally:
        C01.rep = old


@obligation("C17/parser-reset", desc="parser arm for `resetRandom;`: wherever it stands - also first in a block - exactly one "
            "ResetRandom statement is added to the block")
def parser_reset(O):
    from . import C01
    C01.STATEMENT_OBS["resetRandom"](dri.WithRep(O, rep()))


@obligation("C17/bits-evaluates-once", desc="DataEntry::eval: bits(k, e) evaluates e exactly once (one draw for a random(..) "
            "inside), not once per bit")
def bits_once(O):
    from . import C01
    C01.bits_expansion(dri.WithRep(O, rep()))


@obligation("C17/one-generator-per-run", profiles=("dev",),
            desc="next / handle_io: rows, installed outputs and virtual signals all use the iterator's one `ctx` - the context "
                 "whose generator random() draws from and resetRandom restarts - so a draw inside a declared signal belongs to "
                 "the run's sequence")
def one_generator(O):
    dri.one_context(O, rep())


@obligation("C17/constructor-draws-nothing", profiles=("dev",),
            desc="try_new runs the test-data constructor, the default entries, its one driver call, build_output_indices and "
                 "new_with_outputs - nothing that evaluates an expression: no draw is consumed before the program starts")
def constructor_draws_nothing(O):
    from . import C02
    C02.try_new(dri.WithRep(O, rep()))
