"""C08 - expression semantics: operators, precedence, lazy ite, literals."""
import z3

from ..oblig import obligation
from ..sym import bv64, Node, copy_node
from .common import initial, mval, s64, no_panic_judge
from ..replay import Scenario, lit

OPS = {"Equal": "=", "NotEqual": "!=", "GreaterThan": ">", "LessThan": "<", "GreaterThanOrEqual": ">=",
       "LessThanOrEqual": "<=", "Or": "|", "Xor": "^", "And": "&", "ShiftLeft": "<<", "ShiftRight": ">>",
       "Plus": "+", "Minus": "-", "Times": "*", "Divide": "/", "Reminder": "%"}
# the statement's levels, tightest first
LEVEL = {"Times": 1, "Divide": 1, "Reminder": 1, "Plus": 2, "Minus": 2, "ShiftLeft": 3, "ShiftRight": 3, "And": 4,
         "Xor": 5, "Or": 6, "LessThan": 7, "GreaterThan": 7, "LessThanOrEqual": 7, "GreaterThanOrEqual": 7,
         "Equal": 8, "NotEqual": 8}
UNOPS = {"Minus": "-", "LogicalNot": "!", "BinaryNot": "~"}


def b2i(c):
    return z3.If(c, bv64(1), bv64(0))


def ref_binop(name, a, b):
    """The statement's semantics as z3 terms (division by zero excluded by the caller)."""
    sh = b & bv64(63)
    return {
        "Equal": lambda: b2i(a == b), "NotEqual": lambda: b2i(a != b), "GreaterThan": lambda: b2i(a > b),
        "LessThan": lambda: b2i(a < b), "GreaterThanOrEqual": lambda: b2i(a >= b),
        "LessThanOrEqual": lambda: b2i(a <= b), "Or": lambda: a | b, "Xor": lambda: a ^ b, "And": lambda: a & b,
        "ShiftLeft": lambda: a << sh, "ShiftRight": lambda: a >> sh, "Plus": lambda: a + b, "Minus": lambda: a - b,
        "Times": lambda: a * b,
        # SMT-LIB bvsdiv/bvsrem truncate toward zero and wrap for MIN / -1 (MIN, 0): the two's-complement result
        "Divide": lambda: a / b, "Reminder": lambda: z3.SRem(a, b),
    }[name]()


def py_binop(name, a, b):
    """Same reference on python ints (for judging native replays)."""
    import math
    if name in ("Divide", "Reminder"):
        if b == 0:
            return None
        q = abs(a) // abs(b)
        if (a < 0) != (b < 0):
            q = -q
        return s64(q) if name == "Divide" else s64(a - q * b)
    f = {"Equal": lambda: int(a == b), "NotEqual": lambda: int(a != b), "GreaterThan": lambda: int(a > b),
         "LessThan": lambda: int(a < b), "GreaterThanOrEqual": lambda: int(a >= b),
         "LessThanOrEqual": lambda: int(a <= b), "Or": lambda: a | b, "Xor": lambda: a ^ b, "And": lambda: a & b,
         "ShiftLeft": lambda: a << (b & 63), "ShiftRight": lambda: a >> (b & 63), "Plus": lambda: a + b,
         "Minus": lambda: a - b, "Times": lambda: a * b}[name]
    return s64(f())


def expr_scenario(text, note=""):
    """Observe the un-truncated i64 value of `text` as the expected value of a 64-bit virtual column."""
    return Scenario("A V\ndeclare V = 0;\n0 (%s)\n" % text, [("in", "A", 1, 0)], note=note)


def expr_judge(want):
    def chk(o, sc):
        if not o.rows:
            return "no row produced: %s" % o.lines[-3:]
        got = o.rows[0]["outputs"][-1][1]
        if want is not None and got != str(want):
            return "expression evaluated to %s, reference %s" % (got, want)
        return None
    return no_panic_judge(chk)


@obligation("C08/binop-eval", profiles=("dev", "release"),
            desc="BinOp::eval: for every operator and all i64 operands the result equals the statement's semantics "
                 "(wrapping + - *, shifts by the low six bits with arithmetic >>, truncating / %, 0/1 comparisons) and "
                 "the evaluation does not panic (zero divisors excluded here: C10)")
def binop_eval(O):
    m = O.mir
    fn = O.find("::eval", file="expr.rs", param0="&BinOp")
    eng = O.engine()
    paths = O.explore(eng, fn)
    op = eng.deref(initial(fn, 1))
    tag = eng.tag_of(op, None)
    a = eng.scalar(initial(fn, 2))
    b = eng.scalar(initial(fn, 3))
    for name in m.enums["BinOp"]:
        if name not in OPS:
            O.inconclusive("operator %s is not in the reference table" % name)
            continue
        k = bv64(m.vidx("BinOp", name))
        cls = [tag == k]
        if name in ("Divide", "Reminder"):
            cls.append(b != bv64(0))

        def facts(mod, name=name):
            return {"op": name, "a": mval(mod, a), "b": mval(mod, b)}

        def scen(mod, name=name):
            x, y = mval(mod, a), mval(mod, b)
            return [expr_scenario("%s %s %s" % (lit(x), OPS[name], lit(y)), "%s %d %d" % (name, x, y))]

        def judge(obs, sc, name=name):
            x, y = [int(t) for t in sc.note.split(" ")[1:]]
            return expr_judge(py_binop(name, x, y))(obs, sc)

        O.witness([p for p in paths if p.outcome == "return"], "operator %s returns" % name, cls)
        for p in paths:
            if p.outcome == "return":
                from .C10 import result_parts
                ok, val = result_parts(eng, fn, p.ret)
                O.prove(p, z3.And(ok, val == ref_binop(name, a, b)), "%s result" % name, facts, scen, judge, extra=cls)
            elif p.outcome == "panic":
                O.fail_path(p, "%s panics: %s" % (name, p.detail), facts, scen, judge, extra=cls)


@obligation("C08/unaryop-eval", profiles=("dev", "release"),
            desc="UnaryOp::eval: -x wraps, !x is 1 iff x == 0, ~x is the bitwise complement; no panic for any i64")
def unaryop_eval(O):
    m = O.mir
    fn = O.find("::eval", file="expr.rs", param0="&UnaryOp")
    eng = O.engine()
    paths = O.explore(eng, fn)
    tag = eng.tag_of(eng.deref(initial(fn, 1)), None)
    x = eng.scalar(initial(fn, 2))
    ref = {"Minus": -x, "LogicalNot": b2i(x == bv64(0)), "BinaryNot": ~x}
    pyref = {"Minus": lambda v: s64(-v), "LogicalNot": lambda v: int(v == 0), "BinaryNot": lambda v: s64(~v)}
    for name in m.enums["UnaryOp"]:
        if name not in ref:
            O.inconclusive("unary operator %s is not in the reference table" % name)
            continue
        cls = [tag == bv64(m.vidx("UnaryOp", name))]

        def facts(mod, name=name):
            return {"op": "unary " + name, "x": mval(mod, x)}

        def scen(mod, name=name):
            v = mval(mod, x)
            return [expr_scenario("%s%s" % (UNOPS[name], lit(v)), "%s %d" % (name, v))]

        def judge(obs, sc, name=name):
            v = int(sc.note.split(" ")[1])
            return expr_judge(pyref[name](v))(obs, sc)

        O.witness([p for p in paths if p.outcome == "return"], "unary %s returns" % name, cls)
        for p in paths:
            if p.outcome == "return":
                O.prove(p, eng.scalar(p.ret) == ref[name], "unary %s result" % name, facts, scen, judge, extra=cls)
            elif p.outcome == "panic":
                O.fail_path(p, "unary %s panics: %s" % (name, p.detail), facts, scen, judge, extra=cls)


_CHAIN_VALS = ((23, 5, 3, 2), (1, 2, 3, 4), (6, 3, 2, 1))
_LEVEL_REPS = None


def _chain_ref(vals, ops):
    """Reference value of `v0 o1 v1 o2 v2 ...`: lower level binds tighter, equal levels group to the left."""
    vals, ops = list(vals), list(ops)
    while ops:
        lv = min(LEVEL[o] for o in ops)
        i = next(k for k, o in enumerate(ops) if LEVEL[o] == lv)
        r = py_binop(ops[i], vals[i], vals[i + 1])
        if r is None:
            return None
        vals[i:i + 2] = [r]
        del ops[i]
    return vals[0]


def _chain_scenario(ops, vi=0):
    vals = _CHAIN_VALS[vi]
    txt = str(vals[0])
    for k, o in enumerate(ops):
        txt += " %s %d" % (OPS[o], vals[k + 1])
    return Scenario("A V\ndeclare V = 0;\n0 (%s)\n" % txt, [("in", "A", 1, 0)], note="%d %s" % (vi, " ".join(ops)))


def _prec_scenarios(n1, n2):
    """`a o1 b o2 c` must group by level (equal level: to the left); and, because one `add` step starts from an
    arbitrary tree, the three-operator chains `a o1 b m c o2 d` with one operator m of every tighter level than o1
    (the right spine of the tree is then two deep when o2 arrives)."""
    global _LEVEL_REPS
    if _LEVEL_REPS is None:
        _LEVEL_REPS = {}
        for o in OPS:
            _LEVEL_REPS.setdefault(LEVEL[o], o)
    out = [_chain_scenario([n1, n2])]
    for lv, m in sorted(_LEVEL_REPS.items()):
        if lv < LEVEL[n1]:
            out += [_chain_scenario([n1, m, n2], vi) for vi in range(len(_CHAIN_VALS))]
    # a parenthesised group in the middle of a chain is one operand: `a o1 (b m c) o2 d` for an operator m of every level
    for lv, m in sorted(_LEVEL_REPS.items()):
        for vi in range(len(_CHAIN_VALS)):
            out.append(_paren_scenario(n1, m, n2, vi))
    return out + _paren_family()


_PAREN_FAMILY = None


def _paren_family():
    """`a o1 (b m c) o2 d` for every triple of level representatives in which o2 binds tighter than o1 and than m - the shape in
    which a group that is not kept opaque changes the value - independent of the operators a model happened to choose"""
    global _PAREN_FAMILY
    if _PAREN_FAMILY is None:
        reps = sorted(_LEVEL_REPS.items())
        _PAREN_FAMILY = [_paren_scenario(o1, m, o2, 0) for l1, o1 in reps for lm, m in reps for l2, o2 in reps if l2 < l1 and l2 < lm]
        _PAREN_FAMILY += [_paren_scenario(o1, m, o2, 2) for l1, o1 in reps for lm, m in reps for l2, o2 in reps if l2 < l1 and l2 <= lm and o2 not in ("Divide", "Reminder")][:60]
    return _PAREN_FAMILY


def _paren_scenario(o1, m, o2, vi=0):
    v = _CHAIN_VALS[vi]
    txt = "%d %s (%d %s %d) %s %d" % (v[0], OPS[o1], v[1], OPS[m], v[2], OPS[o2], v[3])
    return Scenario("A V\ndeclare V = 0;\n0 (%s)\n" % txt, [("in", "A", 1, 0)], note="P%d %s %s %s" % (vi, o1, m, o2))


def _prec_judge(obs, sc):
    vi, *ops = sc.note.split(" ")
    if vi.startswith("P"):
        v = _CHAIN_VALS[int(vi[1:])]
        o1, m, o2 = ops
        g = _chain_ref([v[1], v[2]], [m])
        if g is None:
            return None
        want = _chain_ref([v[0], g, v[3]], [o1, o2])
        return expr_judge(want)(obs, sc) if want is not None else None
    return expr_judge(_chain_ref(_CHAIN_VALS[int(vi)][:len(ops) + 1], ops))(obs, sc)


@obligation("C08/precedence-table", profiles=("dev",),
            desc="BinOp::precedence is order-isomorphic to the statement's eight levels: for every pair of operators "
                 "prec(a) < prec(b) iff level(a) < level(b)")
def precedence_table(O):
    m = O.mir
    fn = O.find("::precedence", file="binoptree.rs")
    eng = O.engine()
    paths = O.explore(eng, fn)
    tag = eng.tag_of(eng.deref(initial(fn, 1)), None)
    rets = [p for p in paths if p.outcome == "return"]
    O.witness(rets, "precedence returns")
    val = {}
    for name in m.enums["BinOp"]:
        k = bv64(m.vidx("BinOp", name))
        got = None
        for p in paths:
            res, mod = O.solve(list(p.pc) + [tag == k])
            if res == "sat":
                if p.outcome != "return":
                    O.fail_path(p, "precedence(%s) does not return: %s" % (name, p.detail), {"op": name}, [], None)
                    continue
                t = eng.scalar(p.ret)
                v = mval(mod, t, False)
                # the value must be the same for all models of this path/operator
                O.prove(p, t == z3.BitVecVal(v, t.size()), "precedence(%s) is a constant" % name, {"op": name},
                        extra=[tag == k])
                got = v
        val[name] = got
    names = [n for n in m.enums["BinOp"] if n in LEVEL and val.get(n) is not None]
    for n in m.enums["BinOp"]:
        if n not in LEVEL:
            O.inconclusive("operator %s has no reference level" % n)
    bad = 0
    for n1 in names:
        for n2 in names:
            if (val[n1] < val[n2]) != (LEVEL[n1] < LEVEL[n2]):
                bad += 1
                if bad <= 4:
                    O.violation("precedence(%s)=%d vs precedence(%s)=%d contradicts the statement's levels %d / %d" % (
                        n1, val[n1], n2, val[n2], LEVEL[n1], LEVEL[n2]), None, {"op1": n1, "op2": n2},
                        _prec_scenarios(n1, n2) + _prec_scenarios(n2, n1), _prec_judge, "precedence table")
    O.note("precedence values: %s" % val)


def _box_target(eng, boxnode):
    """Pointee of a Box<T> node as rustc lowers it: ((box.0: Unique).0: NonNull) transmuted to *const T."""
    u = eng.field(boxnode, 0)
    nn = eng.field(u, 0)
    return eng.deref(nn)


@obligation("C08/binoptree-add-step", profiles=("dev",),
            desc="BinOpTree::add, one step from an arbitrary tree: descends into the right child iff the new operator "
                 "binds tighter (strictly lower level) than the root operator, otherwise wraps the whole tree as the "
                 "left child of a new root with Atom(new_expr) as right child (left-associativity at equal level)")
def binoptree_add(O):
    m = O.mir
    fn = O.find("::add", file="binoptree.rs")
    eng = O.engine()
    eng.keep_events(r"BinOpTree::add$")
    paths = O.explore(eng, fn)
    self0 = eng.deref(initial(fn, 1))
    self_tag = eng.tag_of(self0, None)
    T_BINOP = bv64(m.vidx("BinOpTree", "BinOp"))
    root_op = eng.tag_of(eng.field(eng.downcast(self0, "BinOp"), 0), None)
    new_op = eng.tag_of(initial(fn, 2), None)

    def level(t):
        e = bv64(0)
        for name, lv in LEVEL.items():
            e = z3.If(t == bv64(m.vidx("BinOp", name)), bv64(lv), e)
        return e
    valid = [z3.ULT(new_op, bv64(len(m.enums["BinOp"]))), z3.ULT(root_op, bv64(len(m.enums["BinOp"])))]
    tighter = z3.And(self_tag == T_BINOP, z3.ULT(level(new_op), level(root_op)))

    def names(mod):
        ops = m.enums["BinOp"]
        a, b = mval(mod, root_op, False), mval(mod, new_op, False)
        return ops[a] if a < len(ops) else "?", ops[b] if b < len(ops) else "?"

    def facts(mod):
        r, n = names(mod)
        return {"root_op": r, "new_op": n}

    def scen(mod):
        r, n = names(mod)
        if r in OPS and n in OPS:
            return _prec_scenarios(r, n)
        return []

    rets = [p for p in paths if p.outcome == "return"]
    desc_paths = [p for p in rets if p.calls(r"BinOpTree::add$")]
    wrap_paths = [p for p in rets if not p.calls(r"BinOpTree::add$")]
    O.witness(desc_paths, "descending path", valid)
    O.witness(wrap_paths, "wrapping path", valid)
    for p in paths:
        eng.focus(p)
        if p.outcome == "panic":
            O.fail_path(p, "add panics: %s" % p.detail, facts, scen, _prec_judge, extra=valid)
            continue
        if p.outcome != "return":
            continue
        rec = p.calls(r"BinOpTree::add$")
        if rec:
            O.prove(p, tighter, "descends only when the new operator binds strictly tighter", facts, scen, _prec_judge,
                    extra=valid)
            ev = rec[0]
            if len(rec) != 1:
                O.fail_path(p, "more than one recursive add", facts, scen, _prec_judge, extra=valid)
            # the recursive call receives the *right* child, the same operator and the same expression
            a1 = p.args.fields[1]
            right_box = eng.field(eng.downcast(eng.deref(a1), "BinOp"), 2)
            if ev.args[0].target is not _box_target(eng, right_box):
                O.fail_path(p, "recursive add is not applied to the right child", facts, scen, _prec_judge, extra=valid)
            O.prove(p, eng.tag_of(ev.args[1], None) == new_op, "recursive add passes the same operator", facts, scen,
                    _prec_judge, extra=valid)
            if ev.args[2].root != "arg3":
                O.fail_path(p, "recursive add does not pass the new expression", facts, scen, _prec_judge, extra=valid)
        else:
            O.prove(p, z3.Not(tighter), "wraps when the new operator does not bind tighter", facts, scen, _prec_judge,
                    extra=valid)
            new_self = eng.deref(p.args.fields[1])
            O.prove(p, eng.tag_of(new_self, None) == T_BINOP, "result root is a BinOp node", facts, scen, _prec_judge,
                    extra=valid)
            pay = eng.downcast(new_self, "BinOp")
            O.prove(p, eng.tag_of(eng.field(pay, 0), None) == new_op, "result root operator is the new operator", facts,
                    scen, _prec_judge, extra=valid)
            left = eng.field(pay, 1)
            right = eng.field(pay, 2)
            lt = left.target
            rt = right.target
            if lt is None or rt is None:
                O.fail_path(p, "children of the new root are not fresh boxes", facts, scen, _prec_judge, extra=valid)
                continue
            # left child = the old tree (same symbolic name as the initial *self), right = Atom(new_expr)
            if not (lt.root == "arg1" and lt.path == ".*"):
                O.fail_path(p, "left child of the new root is not the previous tree (%s)" % lt.name(), facts, scen,
                            _prec_judge, extra=valid)
            O.prove(p, eng.tag_of(rt, None) == bv64(m.vidx("BinOpTree", "Atom")), "right child is an Atom", facts, scen,
                    _prec_judge, extra=valid)
            atom = eng.field(eng.downcast(rt, "Atom"), 0)
            if atom.root != "arg3":
                O.fail_path(p, "right child does not hold the new expression", facts, scen, _prec_judge, extra=valid)


@obligation("C08/expr-eval-step", profiles=("dev",),
            desc="Expr::eval, one recursion step: Number(n) -> Ok(n); UnaryOp -> operand evaluated once; BinOp -> left "
                 "evaluated once, then right once (errors of either propagate, left first), then the operator applied to "
                 "exactly those two values")
def expr_eval_step(O):
    m = O.mir
    fn = O.find("::eval", file="expr.rs", param0="&Expr")
    eng = O.engine()
    eng.keep_events(r"^Expr::eval$", r"EvalContext::get", r"FuncTable::get")
    paths = O.explore(eng, fn)
    e0 = eng.deref(initial(fn, 1))
    tag = eng.tag_of(e0, None)
    T = {v: bv64(m.vidx("Expr", v)) for v in m.enums["Expr"]}
    rets = [p for p in paths if p.outcome == "return"]
    # Number
    cls = [tag == T["Number"]]
    O.witness(rets, "Number arm", cls)
    n = eng.scalar(eng.field(eng.downcast(e0, "Number"), 0, "i64"))
    for p in rets:
        r = p.ret
        claim = z3.And(eng.tag_of(r, None) == bv64(0), eng.scalar(eng.field(eng.downcast(r, "Ok"), 0, "i64")) == n)
        O.prove(p, claim, "Number(n) evaluates to Ok(n)", lambda mod: {"arm": "Number", "n": mval(mod, n)},
                lambda mod: [expr_scenario(lit(mval(mod, n)), str(mval(mod, n)))],
                lambda obs, sc: expr_judge(int(sc.note))(obs, sc), extra=cls)
    # BinOp
    cls = [tag == T["BinOp"]]
    O.witness(rets, "BinOp arm", cls)
    bpay = eng.downcast(e0, "BinOp")
    for p in paths:
        eng.focus(p)
        res, _ = O.solve(list(p.pc) + cls, want_model=False)
        if res != "sat":
            continue
        evs = p.calls(r"^Expr::eval$")
        bfacts = {"arm": "BinOp"}
        bsc = [expr_scenario("(7 - 2) - (1 + 1)", "3")]
        bj = lambda obs, sc: expr_judge(3)(obs, sc)
        if p.outcome == "panic":
            # panics inside the operator are judged by C08/binop-eval and C10
            continue
        a1 = eng.deref(p.args.fields[1])
        pay = eng.downcast(a1, "BinOp")
        left_t = _box_target(eng, eng.field(pay, 1))
        right_t = _box_target(eng, eng.field(pay, 2))
        if not evs or evs[0].args[0].target is not left_t:
            O.fail_path(p, "BinOp arm does not evaluate the left operand first", bfacts, bsc, bj, extra=cls)
            continue
        r = p.ret
        rtag = eng.tag_of(r, None)
        l_res = evs[0].ret
        if len(evs) == 1:
            # must be the error path of the left operand
            O.prove(p, z3.And(eng.tag_of(l_res, None) == bv64(1), rtag == bv64(1)),
                    "only the left operand evaluated => its error is returned", bfacts, bsc, bj, extra=cls)
            continue
        if len(evs) != 2 or evs[1].args[0].target is not right_t:
            O.fail_path(p, "BinOp arm does not evaluate exactly left then right", bfacts, bsc, bj, extra=cls)
            continue
        r_res = evs[1].ret
        lv = eng.scalar(eng.field(eng.downcast(l_res, "Ok"), 0, "i64"))
        rv = eng.scalar(eng.field(eng.downcast(r_res, "Ok"), 0, "i64"))
        optag = eng.tag_of(eng.field(pay, 0), None)
        ok_case = z3.And(eng.tag_of(l_res, None) == bv64(0), eng.tag_of(r_res, None) == bv64(0))
        # result = op(lv, rv): compare with the reference for every operator (zero divisors excluded)
        want = bv64(0)
        for name in m.enums["BinOp"]:
            if name in OPS:
                want = z3.If(optag == bv64(m.vidx("BinOp", name)), ref_binop(name, lv, rv), want)
        nz = z3.Or(rv != bv64(0), z3.And(optag != bv64(m.vidx("BinOp", "Divide")),
                                        optag != bv64(m.vidx("BinOp", "Reminder"))))
        got = eng.scalar(eng.field(eng.downcast(r, "Ok"), 0, "i64"))
        O.prove(p, z3.Implies(z3.And(ok_case, nz, rtag == bv64(0)), got == want),
                "BinOp arm applies the operator to (left value, right value) in that order", bfacts, bsc, bj, extra=cls)
        O.prove(p, z3.Implies(eng.tag_of(r_res, None) == bv64(1), rtag == bv64(1)),
                "error of the right operand propagates", bfacts, bsc, bj, extra=cls)
    # UnaryOp
    cls = [tag == T["UnaryOp"]]
    O.witness(rets, "UnaryOp arm", cls)
    for p in paths:
        eng.focus(p)
        res, _ = O.solve(list(p.pc) + cls, want_model=False)
        if res != "sat" or p.outcome != "return":
            continue
        evs = p.calls(r"^Expr::eval$")
        a1 = eng.deref(p.args.fields[1])
        pay = eng.downcast(a1, "UnaryOp")
        tgt = _box_target(eng, eng.field(pay, 1))
        uf = {"arm": "UnaryOp"}
        usc = [expr_scenario("-(3 + 4)", "-7")]
        uj = lambda obs, sc: expr_judge(-7)(obs, sc)
        if len(evs) != 1 or evs[0].args[0].target is not tgt:
            O.fail_path(p, "UnaryOp arm does not evaluate its operand exactly once", uf, usc, uj, extra=cls)
            continue
        o_res = evs[0].ret
        ov = eng.scalar(eng.field(eng.downcast(o_res, "Ok"), 0, "i64"))
        utag = eng.tag_of(eng.field(pay, 0), None)
        want = z3.If(utag == bv64(m.vidx("UnaryOp", "Minus")), -ov,
                     z3.If(utag == bv64(m.vidx("UnaryOp", "LogicalNot")), b2i(ov == bv64(0)), ~ov))
        got = eng.scalar(eng.field(eng.downcast(p.ret, "Ok"), 0, "i64"))
        rtag = eng.tag_of(p.ret, None)
        O.prove(p, z3.Implies(z3.And(eng.tag_of(o_res, None) == bv64(0), rtag == bv64(0)), got == want),
                "UnaryOp arm applies the operator to the operand's value", uf, usc, uj, extra=cls)
        O.prove(p, (eng.tag_of(o_res, None) == bv64(1)) == (rtag == bv64(1)),
                "UnaryOp arm returns an error iff its operand did", uf, usc, uj, extra=cls)


@obligation("C08/ite-lazy", profiles=("dev",),
            desc="func_ite: the condition is evaluated exactly once, then exactly one branch - args[1] iff the condition "
                 "is non-zero, else args[2] - and its result is returned unchanged; the other branch is never evaluated")
def ite_lazy(O):
    fn = O.find("func_ite")
    eng = O.engine()
    eng.keep_events(r"^Expr::eval$")
    paths = O.explore(eng, fn)
    args = eng.deref(initial(fn, 2))
    ln = eng.length(args)
    cls = [ln == bv64(3)]
    rets = [p for p in paths if p.outcome == "return"]
    O.witness(rets, "ite with three arguments returns", cls)
    # lazy ite observed through a branch that would be an error (reads a Z output) if evaluated
    # ... and through a branch that would consume a random draw if evaluated: after resetRandom the first draw is x again
    # exactly if the unselected branch drew nothing (compared within one run, no seed involved)
    BIG = "(1 << 62)"
    sc = [Scenario("A Y V\ndeclare V = 0;\n0 X (ite(1, 5, Y))\n0 X (ite(0, Y, 6))\n",
                   [("in", "A", 1, 0), ("out", "Y", 8)], default_answer=["Z"], note="lazy", expect={"vals": ["5", "6"]}),
          Scenario("A Y V\ndeclare V = 0;\nresetRandom;\nlet x = random(%s);\nresetRandom;\nlet t = ite(0, random(%s), 5);\n"
                   "let y = random(%s);\n0 X (x = y)\nresetRandom;\nlet u = ite(1, 5, random(%s));\nlet z = random(%s);\n0 X ((x = z) + t + u)\n"
                   % (BIG, BIG, BIG, BIG, BIG), [("in", "A", 1, 0), ("out", "Y", 8)], default_answer=[0],
                   note="the unselected branch draws no random number", expect={"vals": ["1", "11"]})]

    def judge(obs, s):
        def chk(o, s2):
            vals = [r["outputs"][-1][1] for r in o.rows]
            if vals != s2.expect["vals"]:
                return "ite rows evaluated to %s (items %s), reference %s (%s)" % (vals, [i[0] for i in o.items], s2.expect["vals"], s2.note)
            return None
        return no_panic_judge(chk)(obs, s)
    f = {"fn": "ite"}
    for p in paths:
        eng.focus(p)
        res, _ = O.solve(list(p.pc) + cls, want_model=False)
        if res != "sat":
            continue
        if p.outcome == "panic":
            O.fail_path(p, "ite panics with three arguments: %s" % p.detail, f, sc, judge, extra=cls)
            continue
        evs = p.calls(r"^Expr::eval$")
        a2 = eng.deref(p.args.fields[2])

        def is_arg(ev, k):
            t = ev.args[0].target
            return t is not None and t is eng.elem(a2, bv64(k))
        if not evs or not is_arg(evs[0], 0):
            O.fail_path(p, "ite does not evaluate its condition first", f, sc, judge, extra=cls)
            continue
        c_res = evs[0].ret
        if len(evs) == 1:
            O.prove(p, z3.And(eng.tag_of(c_res, None) == bv64(1), eng.tag_of(p.ret, None) == bv64(1)),
                    "no branch evaluated only when the condition failed", f, sc, judge, extra=cls)
            continue
        if len(evs) != 2:
            O.fail_path(p, "ite evaluates %d expressions" % len(evs), f, sc, judge, extra=cls)
            continue
        cv = eng.scalar(eng.field(eng.downcast(c_res, "Ok"), 0, "i64"))
        if is_arg(evs[1], 1):
            O.prove(p, cv != bv64(0), "then-branch evaluated only for a non-zero condition", f, sc, judge, extra=cls)
        elif is_arg(evs[1], 2):
            O.prove(p, cv == bv64(0), "else-branch evaluated only for a zero condition", f, sc, judge, extra=cls)
        else:
            O.fail_path(p, "second evaluation is neither args[1] nor args[2]", f, sc, judge, extra=cls)
            continue
        # result is the branch's result, unchanged
        if p.ret.root != evs[1].ret.root:
            O.fail_path(p, "ite does not return the selected branch's result", f, sc, judge, extra=cls)


# ------------------------------------------------------------------ parser: factors

@obligation("C08/parser-factor", profiles=("dev",),
            desc="parse_factor over every first token (sub-parsers and its own recursion as events): a unary operator token "
                 "yields UnaryOp{that operator, the factor that follows, unchanged} - never simplified away; a literal yields "
                 "Number(value parse_number returned); a parenthesis yields exactly the expression parse_expr returned")
def parser_factor(O):
    from . import C12, dri
    from .refmodel import with_reference
    from .common import no_panic_judge
    extra = [expr_scenario(t, "unary %s" % t) for t in ("!!5", "!!16", "!(!7)", "--5", "~~5", "-!~3", "!-0", "!!!2", "~-~1", "!!(2&6)")]
    want = {"!!5": 1, "!!16": 1, "!(!7)": 1, "--5": 5, "~~5": 5, "-!~3": 0, "!-0": 1, "!!!2": 0, "~-~1": -3, "!!(2&6)": 1}

    def own_judge(obs, sc):
        t = sc.note.split(" ", 1)[1] if sc.note.startswith("unary ") else None
        return expr_judge(want.get(t))(obs, sc)
    R = with_reference(dri.Rep({"family": "expressions"}, extra, own_judge), ("expressions",))
    m, fn, eng, ts, paths = C12._explore_fn(O, "::parse_factor", 2, (), 2,
                                            keep=(r"parse_factor$", r"parse_expr$", r"parse_number$"))
    k0 = ts.kinds[0]
    UN = {"Minus": "Minus", "LogicalNot": "LogicalNot", "BinaryNot": "BinaryNot"}
    nun = nnum = npar = 0
    for p in paths:
        eng.focus(p)
        if p.outcome != "return":      # (panics of the parser are C09's subject)
            continue
        rt = eng.tag_of(p.ret, None)
        okc = [rt == bv64(0)]
        r, mod = O.solve(list(p.pc) + okc)
        if r != "sat":
            continue
        kind = m.enums["TokenKind"][mval(mod, k0, False)]
        val = eng.field(eng.downcast(p.ret, "Ok"), 0)
        if kind in UN:
            nun += 1
            rec = [e for e in p.calls() if e.norm.endswith("parse_factor")]
            if len(rec) != 1:
                R.fail(O, p, "a unary operator is followed by %d factor parses" % len(rec), extra=okc)
                continue
            if not R.prove(O, p, eng.tag_of(val, None) == bv64(m.vidx("Expr", "UnaryOp")),
                           "a unary operator token yields a UnaryOp node (never simplified away)", extra=okc + [k0 == bv64(m.vidx("TokenKind", kind))]):
                continue
            pay = eng.downcast(val, "UnaryOp")
            R.prove(O, p, eng.tag_of(eng.field(pay, 0), None) == bv64(m.vidx("UnaryOp", UN[kind])),
                    "the UnaryOp node carries the operator of its token", extra=okc + [k0 == bv64(m.vidx("TokenKind", kind))])
            inner = eng.deref(eng.field(pay, 1))
            got = eng.field(eng.downcast(rec[0].ret, "Ok"), 0)
            if not (inner.root == got.root and inner.path == got.path):
                R.fail(O, p, "the operand of the UnaryOp node is not the factor that was parsed after the operator", extra=okc)
        elif kind in ("DecInt", "HexInt", "OctInt", "BinInt"):
            nnum += 1
            pn = [e for e in p.calls() if e.norm.endswith("parse_number")]
            if len(pn) != 1:
                R.fail(O, p, "a literal is parsed %d times" % len(pn), extra=okc)
                continue
            R.prove(O, p, z3.And(eng.tag_of(val, None) == bv64(m.vidx("Expr", "Number")),
                                 eng.scalar(eng.field(eng.downcast(val, "Number"), 0, "i64")) ==
                                 eng.scalar(eng.field(eng.downcast(pn[0].ret, "Ok"), 0, "i64"))),
                    "a literal yields Number(its value)", extra=okc)
        elif kind == "LParen":
            npar += 1
            pe = [e for e in p.calls() if e.norm.endswith("parse_expr")]
            got = eng.field(eng.downcast(pe[0].ret, "Ok"), 0) if len(pe) == 1 else None
            if got is None or not (val.root == got.root and val.path == got.path):
                R.fail(O, p, "a parenthesised factor is not exactly the expression inside the parentheses", extra=okc)
    if not (nun and nnum and npar):
        O.inconclusive("vacuous: unary %d, literal %d, parenthesis %d accepting paths" % (nun, nnum, npar))
    O.note("accepting paths: %d unary, %d literal, %d parenthesised" % (nun, nnum, npar))


@obligation("C08/kani-operator-kernels", profiles=("dev",),
            desc="second engine (Kani / CBMC over the compiled code): BinOp::eval equals the statement for the comparison, "
                 "bitwise, shift, + and - operators for all 2^128 operand pairs; no operator panics for any operands; a zero "
                 "divisor is an error; UnaryOp::eval for all values.  `* / %` results: outside CBMC's reach (stated in the harness)")
def kani_operator_kernels(O):
    from . import kani_obs
    kani_obs.expr_kernels(O, "C08")


@obligation("C08/parser-does-not-look-at-values", profiles=("dev",),
            desc="block parser over `( a OP b ) c` for OP in / % + and over `( ite ( a , b , c / d ) ) e`: whether the text is accepted "
                 "never depends on the VALUE a literal converts to (no parse-time evaluation, e.g. of a zero divisor) - an operand "
                 "in an unselected ite branch may divide by zero")
def parser_ignores_values(O):
    from . import C09
    m = O.mir
    lazy = [Scenario("A V\ndeclare V = 0;\n0 (ite(1, 7, 1 / 0))\n0 (ite(0, 5 % 0, 11))\n0 (ite(1, 3, 4 / (0)))\n0 (ite(0, 1 % 0x0, 9))\n", [("in", "A", 1, 0)],
                     expect={"row_expected": [["7"], ["11"], ["3"], ["9"]]}, note="an unselected ite branch may divide by a literal zero")]

    def judge(obs, sc):
        from . import batteries as B_
        return B_.literal_judge(obs, sc)
    templates = [("LParen", "DecInt", op, "DecInt", "RParen", "DecInt", "Eol") for op in ("Divide", "Reminder", "Plus")]
    templates.append(("LParen", "Ident", "LParen", "DecInt", "Comma", "DecInt", "Comma", "DecInt", "Divide", "DecInt", "RParen", "RParen", "DecInt", "Eol"))
    n = 0
    for fixed in templates:
        m_, eng, ts, paths = C09.explore_block(O, 0, None, None, 2, fixed=fixed,
                                               keep=(r"<BinOpTree as Into>::into", r"<Expr as From>::from", r"binoptree", r"FuncTable::get"),
                                               keep_outcomes=lambda oc: oc in ("return", "cut", "unsupported", "panic"))
        for p in paths:
            if p.outcome != "return":
                continue
            eng.focus(p)
            r0, _ = O.solve(list(p.pc), want_model=False)
            if r0 != "sat":
                continue
            for e in p.calls(r"from_str_radix$"):
                okc = eng.tag_of(e.ret, None) == bv64(0)
                v = eng.scalar(eng.field(eng.downcast(e.ret, "Ok"), 0, "i64"))
                base, _ = O.solve(list(p.pc) + [okc], want_model=False)
                if base != "sat":
                    continue
                n += 1
                for val in (0, 1, -1, 7):
                    r, _ = O.solve(list(p.pc) + [okc, v == bv64(val)], want_model=False)
                    if r == "unsat":
                        O.fail_path(p, "the parser's path depends on the value of a literal (value %d excluded) in `%s`" % (val, " ".join(fixed)),
                                    {"what": "parse depends on a literal's value", "template": " ".join(fixed)[:60]}, lazy, judge, extra=[okc])
                        break
    if n == 0:
        O.inconclusive("vacuous: no literal conversion on any path")
