"""C14 - virtual signals are computed from the same row's outputs, blind to variables."""
import z3

from ..oblig import obligation
from ..sym import bv64, Node
from ..models import vec_slice
from .. import build
from .common import initial, mval, T
from . import batteries as B
from . import dri, C04, C07


def rep():
    return dri.Rep({"family": "virtual"}, B.virtual_battery(), B.virtual_judge)


@obligation("C14/virtual-arm", desc="extract_output_values closure, Virtual(expr) arm: the expression is evaluated exactly "
            "once against the closure's context; Ok(v) becomes Value(v), an evaluation error makes the row an error item")
def virtual_arm(O):
    m = O.mir
    R = rep()
    fn = O.find("::extract_output_values::{closure#0}")
    eng = O.engine()
    eng.keep_events(r"<&Signal as PartialEq>::eq", r"Expr::eval$")
    paths = O.explore(eng, fn)
    pair = initial(fn, 2)
    oi = eng.deref(eng.field(pair, 1))
    cond = [eng.tag_of(oi, None) == bv64(m.vidx("OutputEntryIndex", "Virtual"))]
    O.witness([p for p in paths if p.outcome == "return"], "Virtual arm returns", cond)
    for p in paths:
        eng.focus(p)
        r, _ = O.solve(list(p.pc) + cond, want_model=False)
        if r != "sat":
            continue
        if p.outcome == "panic":
            R.fail(O, p, "virtual arm panics: %s" % p.detail, extra=cond)
            continue
        if p.outcome != "return":
            continue
        ev = p.calls(r"Expr::eval$")
        if len(ev) != 1:
            R.fail(O, p, "virtual expression evaluated %d times" % len(ev), extra=cond)
            continue
        env = eng.deref(p.args.fields[1])
        ctx_ref = eng.field(env, 2)
        roots = [r_ for (r_, _) in getattr(ev[0].tnames[1], "chain", [])] + [ev[0].tnames[1][0] if ev[0].tnames[1] else None]
        want_ctx = T(eng, ctx_ref)
        if want_ctx is not None and want_ctx.root not in roots:
            R.fail(O, p, "virtual expression is evaluated against a different context", extra=cond)
        # the expression evaluated is the one stored in the index entry
        oi_p = eng.deref(eng.field(p.args.fields[2], 1))
        e_ref = eng.field(eng.downcast(oi_p, "Virtual"), 0)
        et = T(eng, e_ref)
        if et is not None and ev[0].tnames[0] and ev[0].tnames[0][0] != et.root:
            R.fail(O, p, "a different expression than the declared one is evaluated", extra=cond)
        res = ev[0].ret
        rt = eng.tag_of(res, None)
        ot = eng.tag_of(p.ret, None)
        v = eng.scalar(eng.field(eng.downcast(res, "Ok"), 0, "i64"))
        got = eng.field(eng.downcast(p.ret, "Ok"), 0)
        gv = eng.scalar(eng.field(eng.downcast(got, "Value"), 0, "i64"))
        R.prove(O, p, z3.And(ot == rt, z3.Implies(rt == bv64(0), z3.And(eng.tag_of(got, None) == bv64(m.vidx("OutputValue", "Value")),
                                                                        gv == v))),
                "virtual value is the expression's value; an evaluation error is an error for the row", extra=cond)
        r2, _ = O.solve(list(p.pc) + cond + [rt == bv64(1)], want_model=False)
        if r2 == "sat":
            e_out = eng.field(eng.downcast(p.ret, "Err"), 0)
            R.prove(O, p, eng.tag_of(e_out, None) == bv64(m.vidx("IterationError", "Runtime")),
                    "virtual evaluation error is a Runtime error item", extra=cond + [rt == bv64(1)])


@obligation("C14/swap-bracket", desc="extract_output_values: variables are swapped out exactly around the evaluation and "
            "swapped back on every path, also when an element fails (variables invisible during, restored after)")
def swap_bracket(O):
    C04.swap_restored(O, rep())


@obligation("C14/current-row-outputs", desc="handle_io: set_outputs with this call's answer precedes extraction, so a virtual "
            "signal sees the outputs of its own row")
def current_outputs(O):
    C04.set_outputs_placement(O, rep())


@obligation("C14/outputs-map-content", desc="EvalContext::set_outputs (<= 2 answer entries): the outputs map is rebuilt from "
            "exactly the (signal name, value) pairs of the answer, in order, with nothing dropped (Z and X included) and "
            "nothing kept from earlier calls")
def outputs_map(O):
    m = O.mir
    R = rep()
    fn = O.find("::set_outputs", nparams=2)
    eng = O.engine()
    eng.iter_bound = 3
    eng.max_visits = 6
    eng.inline_cyclic = True
    NOUT = 2

    def setup(eng_, st, fr):
        outs = []
        for k in range(NOUT):
            sig = build.struct([Node("oname%d" % k, ty="String"), Node("obits%d" % k, ty="usize"), Node("otyp%d" % k, ty="SignalType")], "Signal")
            ref = Node("osigref%d" % k, ty="&Signal")
            ref.target = sig
            outs.append(build.struct([ref, Node("oval%d" % k, ty="value::OutputValue")], "OutputEntry"))
        fr.locals[2].target = build.slice_of_items(outs, "[OutputEntry]")
    paths = O.explore(eng, fn, setup=setup)
    O.witness([p for p in paths if p.outcome == "return"], "set_outputs returns")
    from ..itermodels import str_id
    for p in paths:
        eng.focus(p)
        if p.outcome == "panic":
            R.fail(O, p, "set_outputs panics: %s" % p.detail)
            continue
        if p.outcome != "return":
            if p.outcome == "cut":
                O.inconclusive("bound too small in set_outputs: %s" % p.detail)
            continue
        col = [e for e in p.calls() if e.norm.startswith("collect[HashMap")]
        others = [e.norm for e in p.calls() if e.norm.startswith("HashMap::") or "Entry" in e.norm]
        me = eng.deref(p.args.fields[1])
        outputs_f = eng.field(me, m.fidx("EvalContext", "outputs"))
        if len(col) != 1 or others or outputs_f.root != col[0].ret.root:
            R.fail(O, p, "the outputs map is not rebuilt from the answer (%s)" % (others[:2] or "no single collect"))
            continue
        acc = vec_slice(eng, col[0].args[0])
        if not R.prove(O, p, eng.length(acc) == bv64(NOUT), "every answer entry goes into the outputs map"):
            continue
        for k in range(NOUT):
            tup = eng.elem(acc, bv64(k))
            name = eng.field(tup, 0)
            val = eng.field(tup, 1)
            want_name = z3.BitVec("oname%d.sid" % k, 64)
            want_tag = z3.BitVec("oval%d.tag" % k, 64)
            want_val = z3.BitVec("oval%d#Value.0" % k, 64)
            sid = str_id(eng, name)
            R.prove(O, p, z3.And(sid == want_name, eng.tag_of(val, None) == want_tag,
                                 eng.scalar(eng.field(eng.downcast(val, "Value"), 0, "i64")) == want_val),
                    "map entry %d is (name, value) of answer entry %d" % (k, k))
    O.note("bounded to %d answer entries" % NOUT)


@obligation("C14/sixty-four-bits", profiles=("dev", "release"), desc="virtual signals are created 64 bits wide and the "
            "expected-value mask keeps all 64 bits")
def sixty_four(O):
    if O.profile == "dev":
        C07.virtual_64(O)
    C07.expected_mask(O)


@obligation("C14/no-read-skipped", desc="Expr::eval, one recursion step: both operands of a binary operator and the operand of a "
            "unary one are evaluated, whatever the other operand's value (a virtual signal whose expression reads a Z / X "
            "output is an error however the other operand evaluates)")
def no_read_skipped(O):
    from . import C08
    C08.expr_eval_step(dri.WithRep(O, rep()))


@obligation("C14/expected-column", desc="build_indices, virtual signals (2 signals x 2 header columns, symbolic names): a declared "
            "signal takes its expected value from the column of exactly its own name, and X when the header has no such column "
            "- never from another column (such as `<name>_out`)")
def expected_column(O):
    from . import C06
    C06.build_indices(dri.WithRep(O, rep()), "Virtual")


@obligation("C14/one-context", desc="next / handle_io: the context the answer is installed in (set_outputs) is the context the "
            "extraction evaluates virtual signals against, and the one rows are evaluated in - the iterator's own `ctx`")
def one_context(O):
    dri.one_context(O, rep())


@obligation("C14/context-lookup-has-two-sources", desc="EvalContext::get consults the visible variable map and then the device "
            "outputs - nothing else (no counter or cache kept beside the map), so with the variable map swapped out a name can "
            "only mean the device output")
def lookup_two_sources(O):
    C04.ctx_get(O, rep())


@obligation("C14/glue-stores-nothing", desc="next / handle_io store nothing themselves - neither into the iterator nor into the "
            "driver's answer (no loop over the answer that rewrites values) - and call nothing but get_row / handle_io / "
            "into_data_row resp. the driver, set_outputs and extract_output_values")
def glue_stores_nothing(O):
    dri.glue_keeps_state(O, rep())


def _virtual_answer_scenarios():
    """a driver that (wrongly) answers for the declared signal itself: every row is an error item, the declared value is never
    replaced by the driver's number"""
    from ..replay import Scenario
    S = [("in", "A", 8, 0), ("out", "B", 8)]
    return [Scenario("A B V\ndeclare V = B + 1;\n0 X X\n1 X X\n", S, layout=["B", "V"], default_answer=[3, 99], stop_on_err=False,
                     expect={"items": ["err", "err"]}, note="the driver's answer contains an entry for the declared signal V"),
            Scenario("A B V\ndeclare V = B + 1;\n0 X X\n", S, layout=["V", "B"], default_answer=[99, 3], stop_on_err=False,
                     expect={"items": ["err"]}, note="entry for the declared signal first")]


@obligation("C14/declared-signals-are-computed", desc="build_output_indices (2 expected, 2 answered): an expected signal of kind Virtual "
            "gets the Virtual index whatever the driver's answer contains - its value is always the declared expression")
def declared_are_computed(O):
    from . import C03
    R = rep()
    R2 = dri.Rep(dict(R.facts), _virtual_answer_scenarios() + list(R.battery), lambda obs, sc: (B.literal_judge(obs, sc) if sc.expect.get("items") else R.judge(obs, sc)))
    C03._output_positions(dri.WithRep(O, R2), 2, 2)


@obligation("C14/static-rows-keep-declared-signals", desc="From<DataRow> for StaticDataRow (<= 2 outputs): expected[i] = "
            "(outputs[i].signal, outputs[i].expected) for every result entry in order - declared signals included")
def static_rows_keep_declared(O):
    from . import C15
    C15.static_row(dri.WithRep(O, dri.Rep({"family": "static"}, B.static_battery(), B.static_judge)))
