"""C04 - expressions that read outputs see the most recently read device values."""
import z3

from ..oblig import obligation
from ..sym import bv64
from .common import initial, T
from . import batteries as B
from . import dri


def rep():
    return dri.Rep({"family": "reads"}, B.reads_battery(), B.reads_judge)


def ctx_get(O, R):
    m = O.mir
    fn = O.find("::get", file="eval_context.rs")
    eng = O.engine()
    eng.keep_events(r"FramedMap::get$", r"HashMap::get$")
    paths = O.explore(eng, fn)
    rets = [p for p in paths if p.outcome == "return"]
    O.witness(rets, "get returns")
    me = eng.deref(initial(fn, 1))
    n_var = n_out = 0
    for p in paths:
        eng.focus(p)
        if p.outcome == "panic":
            R.fail(O, p, "EvalContext::get panics: %s" % p.detail)
            continue
        if p.outcome != "return":
            continue
        calls = p.calls(r"(FramedMap|HashMap)::get$")
        if not calls or not calls[0].norm.startswith("FramedMap::get"):
            R.fail(O, p, "the lookup does not consult the variables first")
            continue
        v = calls[0]
        vars_f = eng.field(eng.deref(p.args.fields[1]), m.fidx("EvalContext", "vars"))
        if T(eng, v.args[0]) is not vars_f:
            R.fail(O, p, "the variable lookup does not use the context's visible variable map")
        if T(eng, v.args[1]) is not T(eng, p.args.fields[2]):
            R.fail(O, p, "the variable lookup uses a different name")
        vt = eng.tag_of(v.ret, None)
        rtag = eng.tag_of(p.ret, None)
        r, _ = O.solve(list(p.pc) + [vt == bv64(1)], want_model=False)
        if r == "sat":
            n_var += 1
            if len(calls) != 1:
                R.fail(O, p, "a variable in scope does not take precedence: the outputs are consulted too",
                       extra=[vt == bv64(1)])
            val = eng.field(eng.downcast(p.ret, "Some"), 0)
            n = eng.scalar(eng.field(eng.downcast(v.ret, "Some"), 0, "i64"))
            got = eng.scalar(eng.field(eng.downcast(val, "Value"), 0, "i64"))
            R.prove(O, p, z3.And(rtag == bv64(1), eng.tag_of(val, None) == bv64(m.vidx("OutputValue", "Value")), got == n),
                    "a variable in scope evaluates to its own value", extra=[vt == bv64(1)])
        r, _ = O.solve(list(p.pc) + [vt == bv64(0)], want_model=False)
        if r == "sat":
            n_out += 1
            if len(calls) != 2 or not calls[1].norm.startswith("HashMap::get"):
                R.fail(O, p, "a name that is not a variable is not looked up among the device outputs",
                       extra=[vt == bv64(0)])
                continue
            h = calls[1]
            outs_f = eng.field(eng.deref(p.args.fields[1]), m.fidx("EvalContext", "outputs"))
            if T(eng, h.args[0]) is not outs_f or T(eng, h.args[1]) is not T(eng, p.args.fields[2]):
                R.fail(O, p, "the output lookup uses a different map or name", extra=[vt == bv64(0)])
            ht = eng.tag_of(h.ret, None)
            R.prove(O, p, rtag == ht, "the result is exactly what the outputs map holds for the name",
                    extra=[vt == bv64(0)])
            r2, _ = O.solve(list(p.pc) + [vt == bv64(0), ht == bv64(1)], want_model=False)
            if r2 == "sat":
                got = eng.field(eng.downcast(p.ret, "Some"), 0)
                src = eng.deref(eng.field(eng.downcast(h.ret, "Some"), 0))
                gt, st_ = eng.tag_of(got, None), eng.tag_of(src, None)
                gv = eng.scalar(eng.field(eng.downcast(got, "Value"), 0, "i64"))
                sv = eng.scalar(eng.field(eng.downcast(src, "Value"), 0, "i64"))
                R.prove(O, p, z3.And(gt == st_, z3.Implies(gt == bv64(m.vidx("OutputValue", "Value")), gv == sv)),
                        "an output read yields the stored value unchanged", extra=[vt == bv64(0), ht == bv64(1)])
    if n_var == 0 or n_out == 0:
        O.inconclusive("vacuous: variable path %d / output path %d" % (n_var, n_out))


@obligation("C04/ctx-get", desc="EvalContext::get: the visible variable map is consulted first and wins; otherwise the "
            "outputs map's entry for that name is returned unchanged")
def o_ctx_get(O):
    ctx_get(O, rep())


def set_outputs_placement(O, R):
    fn = O.find("::handle_io")
    eng = O.engine()
    eng.keep_events(*dri.KEEP)
    paths = O.explore(eng, fn)
    n_read = 0
    for p in paths:
        eng.focus(p)
        if p.outcome != "return":
            continue
        dc = p.calls(dri.DRV_ANY)
        if len(dc) != 1:
            continue   # C02's business
        ev = dc[0]
        is_read = ev.norm.endswith("write_input_and_read_output")
        so = p.calls(r"set_outputs$")
        rtag = eng.tag_of(ev.ret, None)
        if not is_read:
            if so:
                R.fail(O, p, "a write-only (mid-clock) call refreshes the outputs seen by expressions")
            continue
        r, _ = O.solve(list(p.pc) + [rtag == bv64(0)], want_model=False)
        if r != "sat":
            continue
        n_read += 1
        cond = [rtag == bv64(0)]
        if len(so) != 1:
            R.fail(O, p, "a successful output-reading call is followed by %d set_outputs" % len(so), extra=cond)
            continue
        answer = eng.field(eng.downcast(ev.ret, "Ok"), 0)
        t = so[0].tnames[1]
        if t is None or t[0] != answer.root:
            R.fail(O, p, "set_outputs is not given this call's answer", extra=cond)
        ctx_f = eng.field(eng.deref(p.args.fields[1]), O.mir.fidx("DataRowIterator", "ctx"))
        if T(eng, so[0].args[0]) is not ctx_f:
            R.fail(O, p, "set_outputs is applied to a different context", extra=cond)
        ex = p.calls(r"extract_output_values$")
        if ex and p.trace.index(ex[0]) < p.trace.index(so[0]):
            R.fail(O, p, "outputs are extracted before the context was refreshed", extra=cond)
    if n_read == 0:
        O.inconclusive("vacuous: no successful read path in handle_io")


@obligation("C04/set-outputs-placement", desc="handle_io: every successful output-reading call is followed by exactly one "
            "set_outputs with that call's answer (before extraction); write-only calls never refresh")
def o_set_outputs(O):
    set_outputs_placement(O, rep())


@obligation("C04/construction-answer", desc="try_new / new_with_outputs: the context starts from the construction call's "
            "answer (set_outputs on the fresh context)")
def o_construction(O):
    construction_answer(O, rep())


def construction_answer(O, R):
    fn = O.find("::new_with_outputs")
    eng = O.engine()
    eng.keep_events(r"EvalContext::new$", r"set_outputs$")
    paths = O.explore(eng, fn)
    O.witness([p for p in paths if p.outcome == "return"], "new_with_outputs returns")
    for p in paths:
        eng.focus(p)
        if p.outcome == "panic":
            R.fail(O, p, "new_with_outputs panics: %s" % p.detail)
            continue
        if p.outcome != "return":
            continue
        so = p.calls(r"set_outputs$")
        nw = p.calls(r"EvalContext::new$")
        if len(so) != 1 or len(nw) != 1:
            R.fail(O, p, "new_with_outputs does not install the given outputs exactly once")
            continue
        if T(eng, so[0].args[1]) is not T(eng, p.args.fields[1]):
            R.fail(O, p, "new_with_outputs installs different outputs")
        if so[0].tnames[0] is None or so[0].tnames[0][0] != nw[0].ret.root:
            R.fail(O, p, "outputs are installed into a different context than the one returned")
    # try_new passes the construction answer (also checked for C02)
    from . import C02
    fn2 = O.find("::try_new")
    eng2 = O.engine()
    eng2.keep_events(*dri.KEEP)
    for p in O.explore(eng2, fn2):
        eng2.focus(p)
        if p.outcome != "return":
            continue
        dc = p.calls(dri.DRV_ANY)
        nwo = p.calls(r"new_with_outputs$")
        if len(dc) != 1:
            continue
        rtag = eng2.tag_of(dc[0].ret, None)
        otag = eng2.tag_of(p.ret, None)
        cond = [rtag == bv64(0), otag == bv64(0)]
        r, _ = O.solve(list(p.pc) + cond, want_model=False)
        if r != "sat":
            continue
        answer = eng2.field(eng2.downcast(dc[0].ret, "Ok"), 0)
        if len(nwo) != 1 or nwo[0].tnames[0] is None or nwo[0].tnames[0][0] != answer.root:
            R.fail(O, p, "the evaluation context is not initialised with the construction answer", extra=cond)


@obligation("C04/evaluate-before-io", desc="next: the row is evaluated (get_row) before its own IO, i.e. against the "
            "previous call's outputs")
def o_eval_before_io(O):
    R = rep()
    fn = O.find("::next", file="data_row_iterator.rs")
    eng = O.engine()
    eng.keep_events(*dri.KEEP)
    eng.keep_events(r"handle_io$")
    paths = O.explore(eng, fn)
    O.witness([p for p in paths if p.outcome == "return"], "next returns")
    for p in paths:
        if p.outcome != "return":
            continue
        cc = [e.norm for e in p.crate_calls()]
        gr = [i for i, n in enumerate(cc) if n.endswith("get_row")]
        io = [i for i, n in enumerate(cc) if n.endswith("handle_io") or "TestDriver" in n or n.endswith("set_outputs")]
        if len(gr) != 1:
            R.fail(O, p, "next evaluates %d rows per call" % len(gr))
        elif io and min(io) < gr[0]:
            R.fail(O, p, "IO happens before the row is evaluated")


@obligation("C04/swap-restored", desc="extract_output_values: the variable maps are swapped exactly twice on every path "
            "past the length check - also when an element fails - so variables keep shadowing outputs afterwards")
def o_swap(O):
    swap_restored(O, rep())


def swap_restored(O, R):
    fn = O.find("::extract_output_values")
    eng = O.engine()
    eng.iter_bound = 2
    eng.keep_events(r"num_outputs$", r"swap_vars$", r"Expr::eval$", r"<&Signal as PartialEq>::eq")
    paths = O.explore(eng, fn)
    n = 0
    for p in paths:
        if p.outcome != "return":
            continue
        sw = p.calls(r"swap_vars$")
        if not sw:
            continue
        n += 1
        if len(sw) != 2:
            R.fail(O, p, "variables are swapped %d times on a path through extract_output_values" % len(sw))
            continue
        eng.focus(p)
        ctx_t = T(eng, p.args.fields[3])
        if T(eng, sw[0].args[0]) is not ctx_t or T(eng, sw[1].args[0]) is not ctx_t:
            R.fail(O, p, "the two swaps do not act on the same context")
        inside = [e for e in p.calls(r"Expr::eval$") if not (p.trace.index(sw[0]) < p.trace.index(e) < p.trace.index(sw[1]))]
        if inside:
            R.fail(O, p, "a virtual expression is evaluated outside the swap bracket")
    if n == 0:
        O.inconclusive("vacuous: no path with swaps")


@obligation("C04/variable-arm", desc="Expr::eval Variable arm: Ok(n) iff the lookup gave Value(n); Z / X / nothing is an "
            "error for the row, not a value")
def o_variable_arm(O):
    from . import C10
    C10.variable_arm(O, rep())


@obligation("C04/reads-recorded", desc="parser: an identifier that is not a variable in scope is recorded as an output read "
            "(so that binding and construction can demand the output); a let's own name is not yet in scope inside its "
            "initialiser")
def reads_recorded(O):
    from . import C11
    W = dri.WithRep(O, rep())
    C11.SCOPE_OBS["let"](W)
    C11.identifier_read(W)


@obligation("C04/no-read-skipped", desc="Expr::eval, one recursion step: both operands of a binary operator and the operand of a "
            "unary one are evaluated, whatever the other operand's value (so a Z / X read is never hidden by a short-circuit)")
def o_no_read_skipped(O):
    from . import C08
    C08.expr_eval_step(dri.WithRep(O, rep()))


@obligation("C04/outputs-map-content", desc="EvalContext::set_outputs (<= 2 answer entries): the outputs map is rebuilt from "
            "exactly the answer - nothing kept from earlier calls, X and Z stored as such - so a later read sees the most "
            "recent value or fails on X / Z, never an older number")
def o_outputs_map(O):
    from . import C14
    C14.outputs_map(dri.WithRep(O, rep()))


@obligation("C04/no-state-outside-the-iterator", desc="TestCase has no interior mutability and the crate keeps no mutable global "
            "state: the missing-output check of the constructor and the layout of THIS driver's first answer are established "
            "anew for every iterator (type-level facts read from the MIR and the struct definition)")
def no_state_outside(O):
    from . import C15
    C15.no_shared_state_core(O, rep())


@obligation("C04/readings-stored-as-returned", desc="handle_io: what the output-reading call returned reaches set_outputs and the "
            "extraction as it is - the very vector, nothing masked, filtered or re-built in between - so expressions see the "
            "values the driver returned")
def readings_stored_as_returned(O):
    from . import C13
    C13.answer_passed_unchanged(dri.WithRep(O, rep()))


@obligation("C04/glue-stores-nothing", desc="next / handle_io store nothing themselves - neither into the iterator nor into the "
            "driver's answer (no loop over the answer that rewrites values) - and call nothing but get_row / handle_io / "
            "into_data_row resp. the driver, set_outputs and extract_output_values")
def glue_stores_nothing(O):
    dri.glue_keeps_state(O, rep())


@obligation("C04/no-leftover-bindings", desc="next_with_context, per arm: a frame is pushed only when a loop is entered (0 < bound) and "
            "popped exactly when it ends - a skipped loop leaves no counter or loop-local binding behind that would shadow a device "
            "output of the same name in later expressions")
def no_leftover_bindings(O):
    from . import C01
    C01.interpreter_arms(dri.WithRep(O, rep()))


@obligation("C04/reset-keeps-readings", desc="EvalContext::reset_random_seed stores into the generator only (write log of the "
            "function): variables and the most recently read device values are untouched by resetRandom")
def reset_keeps_readings(O):
    m = O.mir
    R = rep()
    fn = O.find("::reset_random_seed")
    eng = O.engine()
    paths = O.explore(eng, fn)
    rng_idx = m.fidx("EvalContext", "rng")
    n = 0
    for p in paths:
        if p.outcome != "return":
            R.fail(O, p, "reset_random_seed: %s %s" % (p.outcome, p.detail))
            continue
        n += 1
        for w in p.state.extra.get("writes", []):
            # allowed: stores below the rng field (`_1.*.f<rng>` ...) and the RefCell replace of the generator
            if (".f%d" % rng_idx) in w[1] or "mem::replace" in w[1] and "RefCell" in w[1] or "StdRng" in w[1]:
                continue
            R.fail(O, p, "reset_random_seed also stores into %s" % w[1])
            break
        others = [e.norm.split("::")[-1] for e in p.trace if e.kind == "call" and e.crate and not e.norm.endswith("with_seed")]
    if n == 0:
        O.inconclusive("vacuous: reset_random_seed never returns")
