def run_audit(O, prop):
    O.note("audit not built yet")
