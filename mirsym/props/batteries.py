"""Public-API scenario batteries and relational judges used to *confirm* solver counterexamples natively.

A judge inspects one native observation and returns a description of how the run deviates from the
property's statement (or None). The judges compare the run with itself (driver log vs. rows vs. the
scripted answers), they embed no interpreter of the DSL; scenario-specific expectations are literal.
The deciding step stays with the solver: these only separate reproducing from non-reproducing models.
"""
from ..replay import Scenario, lit
from .common import no_panic_judge

SIG_BASIC = [("in", "A", 1, 0), ("in", "B", 8, "Z"), ("in", "CLK", 1, 0), ("out", "Y", 8), ("out", "Q", 1)]


def input_signals(sc):
    return [s for s in sc.signals if s[0] in ("in", "bidir")]


def output_signals(sc):
    return [s for s in sc.signals if s[0] in ("out", "bidir")]


# ------------------------------------------------------------------ C02 protocol

def protocol_battery():
    S = SIG_BASIC
    b = []
    b.append(Scenario("A B Y\n0 1 X\n1 2 3\n1 2 3\n", S, default_answer=[3, 1], note="plain rows"))
    b.append(Scenario("CLK A Y\nC 0 1\nC 1 X\n0 0 0\n", S, default_answer=[1, 0], note="clock rows"))
    b.append(Scenario("A B Y\nloop(i,3)\n(i&1) X (i)\nend loop\n", S, default_answer=[0, 0], note="loop with X input"))
    b.append(Scenario("Y\n1\n2\n", S, default_answer=[1, 1], note="header without inputs"))
    b.append(Scenario("Y Q\n1 0\n2 1\n", [("out", "Y", 8), ("out", "Q", 1)], default_answer=[1, 0], note="no input signals"))
    b.append(Scenario("A Y\nrepeat(3) (n) X\n", S, default_answer=[0, 0], note="repeat"))
    b.append(Scenario("A Y\n", S, default_answer=[0, 0], note="no rows"))
    b.append(Scenario("A Y\n(Y+1) X\n(Y) (Y)\n", S, answers={0: [4, 0], 1: [0, 0], 2: [1, 0]}, default_answer=[0, 0],
                      note="reads outputs"))
    b.append(Scenario("CLK A B Y\nC X 5 X\n", S, default_answer=[0, 0], note="clock with X"))
    b.append(Scenario("A\n1\n0\n", [("in", "A", 1, 0)], note="no outputs at all"))
    b.append(Scenario("CLK A Y\nC 0 1\nC 1 X\n", S, default_answer=[1, 0], override_write=False,
                      note="driver without write_input override"))
    b.append(Scenario("CLK A Y\nC 0 1\nC 0 1\nC 0 1\n", S, default_answer=[1, 0], expect={"call_kinds": ["read"] + ["write", "write", "read"] * 3},
                      note="identical consecutive clock rows"))
    b.append(Scenario("CLK A Y\nC (Y) 1\nC (Q) X\n", S, default_answer=[1, 0], expect={"call_kinds": ["read"] + ["write", "write", "read"] * 2},
                      note="clock rows in a test that reads outputs"))
    b.append(Scenario("A B\n1 2\n", [("out", "Y", 8), ("in", "A", 8, -1), ("in", "B", 4, 0x25), ("bidir", "D", 9, 511)], default_answer=[0, 0],
                      note="defaults that do not fit their width are sent as given"))
    # second round: headers that name only inputs (the device's outputs stay unnamed), bidirectional defaults, values
    # wider than their signal
    b.append(Scenario("CLK A\nC 0\nC 1\n", S, default_answer=[1, 0], expect={"call_kinds": ["read"] + ["write", "write", "read"] * 2},
                      note="clock rows under a header that names only inputs"))
    b.append(Scenario("CLK A\nC 0\nC 1\n", S, default_answer=[1, 0], override_write=False,
                      note="clock rows, inputs-only header, driver without write_input override"))
    b.append(Scenario("CLK\nC\n0\nC\n", [("in", "CLK", 1, 0), ("out", "Q", 4)], default_answer=[3],
                      expect={"call_kinds": ["read", "write", "write", "read", "read", "write", "write", "read"]},
                      note="clock-only header"))
    b.append(Scenario("A Y\n1 X\n0 X\n", [("in", "A", 8, 0), ("bidir", "D", 8, 90), ("bidir", "E", 4, "Z"), ("out", "Y", 8)],
                      default_answer=[0, 0, 0], note="bidirectional signals the header omits are driven with their defaults from the first call on"))
    b.append(Scenario("A B Y\n16 31 X\n(0-1) 300 X\nloop(i,3)\n(i*100) (i+14) X\nend loop\n", [("in", "A", 4, 0), ("in", "B", 4, 0), ("out", "Y", 8)],
                      default_answer=[0], note="values wider than their signal: the driver gets what the row reports"))
    b.append(Scenario("CLK A Y\nC 17 X\nC 33 1\n", [("in", "CLK", 1, 0), ("in", "A", 4, 0), ("out", "Y", 8)], default_answer=[1],
                      note="wide values on clocked rows"))
    # fifth round: a consumer that stops in the middle of an expansion (after k rows, or at a failing mid-clock write) and
    # drops the iterator: nothing further reaches the device (the replay runner logs calls made while dropping)
    for k in (1, 2, 3, 4, 5):
        b.append(Scenario("CLK A Y\nC 0 1\nC X 1\n", S, default_answer=[1, 0], max_rows=k,
                          note="iteration abandoned after %d rows of clocked / X rows: dropping the iterator sends nothing" % k))
    for k in (1, 2, 3, 4):
        b.append(Scenario("CLK A Y\nC 0 1\nC 1 1\n", S, default_answer=[1, 0], fail_at=[k],
                          note="consumer stops at the failing call %d inside a clock triple and drops the iterator" % k))
    # a bidirectional signal is input-capable however the header refers to it
    Sbd = [("in", "A", 1, 0), ("bidir", "D", 8, 5), ("out", "Y", 8), ("bidir", "E", 4, "Z")]
    for hdr_, row_ in (("A D_out Y", "1 7 X"), ("D_out", "7"), ("A E_out D", "1 X 3"), ("A D D_out E E_out", "0 1 X Z 2"), ("Y", "X")):
        b.append(Scenario("%s\n%s\n%s\n" % (hdr_, row_, row_), Sbd, default_answer=[0, 0, 0],
                          note="bidirectional signals named only by their _out column (or not at all) are still driven: header %s" % hdr_))
    # eighth round: the consumer steps over rows (Iterator::nth, as skip / step_by do): the device sees the same calls
    for st in (1, 2):
        b.append(Scenario("CLK A Y\n0 1 X\n1 1 X\nC 0 1\n0 (Y) X\n1 0 X\n0 0 X\n1 1 1\n", S, default_answer=[1, 0], step=st, max_rows=6,
                          note="rows consumed with nth(%d)" % st))
    # eighth round: a driver error on one call, iteration continued: every later call still carries exactly the row's inputs
    for k in (1, 2, 3, 4):
        b.append(Scenario("CLK A Y\n0 1 X\nC 1 X\n0 1 X\n0 0 X\n", S, default_answer=[1, 0], fail_at=[k], stop_on_err=False,
                          note="driver error at call %d, iteration continued: later calls carry the rows' own inputs and flags" % k))
    # seventh round: a declared signal reads Z / X on one row: that row is an error item after ONE call, no second sample
    Sz = [("in", "A", 1, 0), ("out", "Y", 8)]
    for bad in ("Z", "X"):
        b.append(Scenario("A Y V\ndeclare V = Y + 1;\n0 X X\n1 X X\n0 X X\n", Sz, default_answer=[3], answers={2: [bad]}, stop_on_err=False,
                          expect={"call_kinds": ["read"] * 4, "nrows": 2}, note="virtual signal reads %s on the second row: one call per row" % bad))
    # sixth round: the same TestCase value was run before (other layouts): constructor call and one call per row all the same
    for pre in ([["Q", "Y"]], [["Y"], []], [["?0", "Q", "Y"]]):
        b.append(Scenario("CLK A Y\nC 0 1\n0 (Y) X\n", S, default_answer=[1, 0], pre_layouts=pre,
                          expect={"call_kinds": ["read", "write", "write", "read", "read"]}, note="earlier runs with layouts %s" % pre))
    # sixth round: identical consecutive clocked rows through the PROVIDED write_input (no override): every phase is written
    b.append(Scenario("CLK A Y\nC 1 0\nC 1 0\nrepeat(2) C 1 0\n", S, default_answer=[0, 0], override_write=False,
                      expect={"call_kinds": ["read"] * 13}, note="identical clocked rows, provided write_input: three calls per row"))
    # fourth round: blocks that produce no row in the middle of a program - the end is reported once, after the last row
    for mid, what in (("loop(i,0)\n1 1 X\nend loop\n", "zero-trip loop"), ("while(0)\n1 1 X\nend while\n", "zero-trip while"),
                      ("repeat(0) 1 1 X\n", "zero-trip repeat"), ("loop(i,2)\nloop(j,0)\n1 1 X\nend loop\nend loop\n", "nested zero-trip loop"),
                      ("let k = 0;\nloop(i,k-2)\n1 1 X\nend loop\n", "negative bound")):
        b.append(Scenario("A B Y\n0 1 X\n%s1 2 X\n0 3 X\n" % mid, S, default_answer=[0, 0],
                          expect={"call_kinds": ["read"] * 4, "nrows": 3}, note="%s between rows: the rows after it are still delivered before the end" % what))
    return b


def protocol_judge_one(o, sc):
    """C02 on one observation."""
    if getattr(sc, "step", 0):
        return None      # consumed with nth(): judged relationally in protocol_judge (skipped rows are not printed)
    ins = input_signals(sc)
    if not o.ok("PARSE") or not o.ok("BIND"):
        return None   # not an accepted test: nothing to say
    if not o.calls:
        return "constructor made no driver call"
    c0 = o.calls[0]
    if c0[1] != "read":
        return "constructor call is a %s call" % c0[1]
    got = [(n, v, ch) for n, v, ch, _ in c0[2]]
    want = [(s[1], str(s[3]), False) for s in ins]
    if got != want:
        return "constructor call carries %s, expected all defaults unchanged %s" % (got, want)
    if not o.ok("NEW"):
        if len(o.calls) != 1:
            return "failed constructor made %d driver calls" % len(o.calls)
        return None
    has_out = any(s[0] in ("out", "bidir") for s in sc.signals) or any("virtual" in d for d in o.signals)
    ncalls = 1
    for it in o.items:
        if it[0] == "row":
            row = it[1]
            k = row["ncalls_before"]
            if k != ncalls + 1:
                return "row at line %d was preceded by %d driver calls instead of 1" % (row["line"], k - ncalls)
            ncalls = k
            call = o.calls[k - 1]
            cin = [(n, v, ch) for n, v, ch, _ in call[2]]
            if cin != row["inputs"]:
                return "driver received %s but the row reports inputs %s" % (cin, row["inputs"])
            if [n for n, _, _ in cin] != [s[1] for s in ins]:
                return "input vector %s is not one entry per input signal in signal order" % [n for n, _, _ in cin]
            if row["outputs"] and call[1] != "read":
                return "a checked row was sent with a %s call" % call[1]
            if not row["outputs"] and has_out and call[1] != ("write" if sc.override_write else "read"):
                return "an unchecked row was sent with a %s call" % call[1]
        elif it[0] == "err":
            if it[1] == "driver":
                ncalls += 1
            # runtime errors: either before the call (expression) or after it (output checks)
            elif len(o.calls) > ncalls:
                ncalls += 1
        elif it[0] == "end":
            pass
    if "nrows" in sc.expect and o.items and o.items[-1][0] == "end" and len(o.rows) != sc.expect["nrows"]:
        return "%d rows were yielded before the end, expected %d (%s)" % (len(o.rows), sc.expect["nrows"], sc.note)
    if "call_kinds" in sc.expect and [c[1] for c in o.calls] != sc.expect["call_kinds"]:
        return "driver calls are %s, expected %s (%s)" % ([c[1] for c in o.calls], sc.expect["call_kinds"], sc.note)
    if o.items and o.items[-1][0] == "end":
        if len(o.calls) != ncalls:
            return "%d driver calls were made, %d are accounted for by constructor, rows and error items" % (
                len(o.calls), ncalls)
        if o.after_end is not None and not o.after_end.startswith("none=1"):
            return "next() after the end returned something: %s" % o.after_end
    elif len(o.calls) > ncalls:
        return "%d driver calls were made, %d are accounted for" % (len(o.calls), ncalls)
    return None


_step_base_cache = {}


def protocol_judge(obs, sc):
    """C02; a scenario consumed with Iterator::nth (skip / step_by) is judged against the same scenario consumed row by row:
    the device must see the very same calls (kind, inputs, flags) - stepping over a row does not change how it is sent."""
    if getattr(sc, "step", 0):
        from .. import replay as _rp
        key = (sc.source, tuple(sorted(obs)))
        if key not in _step_base_cache:
            base = Scenario(sc.source, sc.signals, default_answer=sc.default_answer, answers=sc.answers, layout=sc.layout,
                            override_write=sc.override_write, max_rows=sc.max_rows * (sc.step + 1) + 2)
            _step_base_cache[key] = _rp.run(base, profiles=tuple(sorted(obs)))
        for p, o in obs.items():
            if o.panics:
                return "%s build panics: %s" % (p, o.panics[0][1][:160])
            bo = _step_base_cache[key][p]
            got = [(c[1], c[2]) for c in o.calls]
            want = [(c[1], c[2]) for c in bo.calls][:len(got)]
            if got != want:
                k = next(i for i, (a, b_) in enumerate(zip(got + [None], want + [None])) if a != b_)
                return "%s build: consumed with nth(%d) the device sees call %d as %s, row by row it is %s (%s)" % (
                    p, sc.step, k, got[k] if k < len(got) else None, want[k] if k < len(want) else None, sc.note)
        return None
    return no_panic_judge(protocol_judge_one)(obs, sc)


# ------------------------------------------------------------------ C03 / C13 attribution and faults

def attribution_battery():
    S = [("in", "A", 1, 0), ("out", "Y", 8), ("out", "Q", 4), ("bidir", "D", 8, "Z"), ("out", "W", 64)]
    prog = "A Y Q D D_out W\n0 1 2 Z 3 4\n1 X 2 5 Z (0-1)\n1 7 X Z 3 X\n"
    b = []
    b.append(Scenario(prog, S, layout=["Y", "Q", "D", "W"], default_answer=[1, 2, 3, 4],
                      answers={2: [7, 2, "Z", -1], 3: ["X", "Z", 3, -9223372036854775808]}, note="natural order"))
    b.append(Scenario(prog, S, layout=["W", "D", "Q", "Y"], default_answer=[4, 3, 2, 1],
                      answers={2: [-1, "Z", 2, 9], 3: [0, 3, "Z", 7]}, note="reversed layout"))
    b.append(Scenario(prog, S, layout=["Q", "W"], default_answer=[2, 4], answers={2: [3, -1]}, note="subset layout"))
    b.append(Scenario(prog, S, layout=[], default_answer=[], note="driver supplies nothing"))
    b.append(Scenario("A Y Q\n0 1 2\n1 3 4\n", [("out", "Q", 4), ("in", "A", 1, 0), ("out", "Y", 8)],
                      layout=["Y", "Q"], default_answer=[1, 2], answers={2: [3, 4]},
                      note="signal list order differs from header order"))
    b.append(Scenario("CLK Y\nC 1\nC 2\n", [("in", "CLK", 1, 0), ("out", "Y", 8)], default_answer=[1],
                      answers={3: [1], 6: [2]}, note="clocked"))
    # fourth round: outputs the header does not mention but the driver supplies; rows that repeat their inputs while the
    # device moves on
    Sh = [("in", "A", 1, 0), ("out", "Y", 8), ("out", "B", 8), ("bidir", "D", 8, "Z")]
    b.append(Scenario("A Y\n0 1\n1 2\n", Sh, layout=["Y", "B", "D"], default_answer=[1, 5, 6], answers={2: [2, 7, "Z"]},
                      note="outputs and a bidirectional signal without a column still report what the driver returned"))
    b.append(Scenario("A Y\n0 1\n1 2\n", Sh, layout=["D", "B"], default_answer=[9, 5], answers={2: [8, 7]},
                      note="column-less signals, partial layout in another order"))
    b.append(Scenario("A Y B\n1 X X\n1 X X\n1 X X\n1 3 3\n", Sh, layout=["Y", "B", "D"], default_answer=[0, 0, 0],
                      answers={1: [1, 1, 1], 2: [2, 2, 2], 3: [3, 3, "Z"], 4: [4, 3, 4]},
                      note="rows that repeat their inputs report the answer of their own call"))
    b.append(Scenario("Y B\nX X\nX X\n2 X\n", [("out", "Y", 8), ("out", "B", 8)], layout=["Y", "B"], default_answer=[0, 0],
                      answers={1: [1, 1], 2: [2, 2], 3: [3, 3]}, note="a test without input columns reports each call's answer"))
    # eighth round: layouts that are ROTATIONS of the signal order (a permutation that is not its own inverse), and an
    # output that is X in the constructor's answer and driven later
    Sr = [("in", "A", 1, 0), ("out", "P", 8), ("out", "Q", 8), ("out", "R", 8), ("out", "S", 8)]
    progr = "A P Q R S\n0 1 2 3 4\n1 5 6 7 8\n"
    for lay, a1, a2 in ((["R", "P", "Q"], [3, 1, 2], [7, 5, 6]), (["S", "P", "R"], [4, 1, 3], [8, 5, 7]), (["Q", "R", "S", "P"], [2, 3, 4, 1], [6, 7, 8, 5]),
                        (["S", "P", "Q", "R"], [4, 1, 2, 3], [8, 5, 6, 7]), (["Q", "S", "P"], [2, 4, 1], [6, 8, 5])):
        b.append(Scenario(progr, Sr, layout=lay, default_answer=a1, answers={2: a2}, note="rotated layout %s" % lay))
    b.append(Scenario(progr, Sr, layout=["P", "Q", "R", "S"], default_answer=[1, 2, 3, 4], answers={0: ["X", 2, "X", "Z"], 2: [5, 6, 7, 8]},
                      note="outputs unknown (X / Z) in the constructor's answer are driven on the rows"))
    # seventh round: a row whose extraction fails half-way (a declared signal divides by an output that is 0) leaves nothing
    # behind: the next row reports its own call's values
    Sd = [("in", "A", 1, 0), ("out", "B", 8), ("out", "C", 8)]
    b.append(Scenario("A B C V\ndeclare V = 8 / B;\n0 X X X\n1 X X X\n0 X X X\n1 X X X\n", Sd, layout=["B", "C"], default_answer=[1, 1],
                      answers={1: [2, 20], 2: [0, 10], 3: [4, 12], 4: [8, 16]}, stop_on_err=False,
                      note="extraction fails on the second row; later rows report their own values"))
    b.append(Scenario("A B C V\ndeclare V = C + 1;\n0 X X X\n1 X X X\n0 X X X\n", Sd, layout=["C", "B"], default_answer=[1, 1],
                      answers={1: [20, 2], 2: ["Z", 10], 3: [12, 4]}, stop_on_err=False,
                      note="virtual signal reads Z on the second row; the third row reports its own values"))
    # sixth round: the same TestCase value run before by drivers with other layouts - attribution follows THIS driver's answer
    for pre in ([["W", "D", "Q", "Y"]], [["Q"], ["Y", "Q", "D", "W"]], [["?0", "Y", "Q", "D"]]):
        b.append(Scenario(prog, S, layout=["Y", "Q", "D", "W"], default_answer=[1, 2, 3, 4], pre_layouts=pre,
                          answers={2: [7, 2, "Z", -1], 3: ["X", "Z", 3, 5]}, note="natural order after earlier runs with layouts %s" % pre))
        b.append(Scenario(prog, S, layout=["Q", "W"], default_answer=[2, 4], pre_layouts=pre, answers={2: [3, -1]},
                          note="subset layout after earlier runs with layouts %s" % pre))
    # fifth round: program variables and loop counters named like device outputs - the reported output is the device's
    Sv = [("in", "A", 8, 0), ("out", "Y", 8), ("out", "Q", 8), ("out", "i", 8), ("out", "n", 8)]
    b.append(Scenario("A Y Q i n\nlet Y = 3;\nlet Q = Y + 1;\n(Y) X X X X\nloop(i,2)\n(i) 5 6 X X\nend loop\nrepeat(2) (n) X X X 8\n", Sv,
                      layout=["Y", "Q", "i", "n"], default_answer=[50, 60, 70, 80],
                      answers={1: [51, 61, 71, 81], 2: [5, 6, 72, 82], 3: [53, 63, 73, 83], 5: [55, 65, 75, 8]},
                      note="variables and counters named like outputs: rows report what the driver returned"))
    b.append(Scenario("A Y Q\nlet Y = 3;\n(Y) 3 X\n(Y+1) 3 X\n", Sv, layout=["Q", "Y"], default_answer=[9, 7],
                      note="a variable equal to the expected value does not make the row pass"))
    # second-round additions: names differing only in case, layouts that are a prefix of the signal list, expected Z
    # against an unknown output
    Sc = [("in", "A", 1, 0), ("out", "q", 8), ("out", "Q", 8), ("out", "Data", 8), ("out", "DATA", 8)]
    b.append(Scenario("A q Q Data DATA\n0 1 2 3 4\n1 5 6 7 8\n", Sc, layout=["q", "Q", "Data", "DATA"], default_answer=[1, 2, 3, 4],
                      answers={2: [5, 6, 7, 9]}, note="signal names that differ only in letter case"))
    b.append(Scenario("A q Q Data DATA\n0 1 2 3 4\n1 5 6 7 8\n", Sc, layout=["DATA", "Q", "q", "Data"], default_answer=[4, 2, 1, 3],
                      answers={2: [8, 6, 5, 7]}, note="case-only names, permuted layout"))
    Sp = [("in", "A", 1, 0), ("out", "B", 8), ("out", "C", 8), ("out", "D", 8)]
    for lay, ans in ((["B"], [1]), (["B", "C"], [1, 2]), (["C"], [2]), (["B", "D"], [1, 3]), (["C", "D"], [2, 3])):
        b.append(Scenario("A B C D\n0 1 2 3\n1 X Z 3\n", Sp, layout=lay, default_answer=ans,
                          note="layout %s of outputs B C D: unsupplied signals are reported as X" % lay))
    b.append(Scenario("A B C D\n0 Z Z Z\n1 Z 2 X\n", Sp, layout=["B", "C", "D"], default_answer=["X", "Z", 0],
                      answers={2: ["Z", "X", "X"]}, note="expected Z against outputs X / Z / value"))
    b.append(Scenario("A B C D\n0 Z Z Z\n", Sp, layout=["C"], default_answer=["Z"], note="expected Z, signal never supplied"))
    return b


def attribution_judge_one(o, sc):
    """C03: reported output == what the scripted driver returned for that signal in that row's call;
    verdict rules on the printed row."""
    if not o.ok("NEW"):
        return None
    for row in o.rows:
        if not row["outputs"]:
            continue
        k = row["ncalls_before"] - 1
        layout = sc.layout_at.get(k, sc.layout if sc.layout is not None else [s[1] for s in output_signals(sc)])
        vals = sc.answers.get(k, sc.default_answer or [])
        failing = []
        for name, exp, out, chk, isc in row["outputs"]:
            if name in [s[1] for s in output_signals(sc)]:
                if name in layout:
                    i = layout.index(name)
                    want = str(vals[i]) if i < len(vals) else "0"
                else:
                    want = "X"
                if out != want:
                    return "row line %d reports %s=%s but the driver returned %s for it in call %d" % (
                        row["line"], name, out, want, k)
            ref = (exp == "X") or (exp == "Z" and out == "Z") or (exp not in ("X", "Z") and exp == out)
            if chk != ref:
                return "check() is %s for expected %s / output %s" % (chk, exp, out)
            if isc != (exp != "X"):
                return "is_checked() is %s for expected %s" % (isc, exp)
            if not ref:
                failing.append(name)
        if failing != row["failing"]:
            return "failing_outputs() is %s, entries that do not pass are %s" % (row["failing"], failing)
        names = [n for n, _, _, _, _ in row["outputs"]]
        want_names = [s[1] for s in sc.signals if s[0] in ("out", "bidir")]
        if names[:len(want_names)] != want_names:
            return "outputs are %s, expected one per output-capable signal in signal order %s" % (names, want_names)
    return None


attribution_judge = no_panic_judge(attribution_judge_one)


def fault_battery():
    """Driver faults at every call index (with and without a write_input override) and every kind of layout
    deviation after the first answer (C13)."""
    S = [("in", "A", 1, 0), ("in", "CLK", 1, 0), ("out", "Y", 8), ("out", "Q", 4)]
    prog = "A CLK Y Q\n0 0 1 2\n1 C 1 2\n1 0 1 2\n"
    b = []
    for k in range(0, 7):
        b.append(Scenario(prog, S, default_answer=[1, 2], fail_at=[k], note="fault at call %d" % k))
    for k in (2, 3, 4):
        b.append(Scenario(prog, S, default_answer=[1, 2], fail_at=[k], override_write=False,
                          note="fault at call %d, driver without write_input override" % k))
    firsts = {"YQ": ["Y", "Q"], "Y": ["Y"], "QY": ["Q", "Y"]}
    for fname, first in firsts.items():
        devs = {"swap": list(reversed(first)), "drop-one": first[:-1], "drop-all": [], "add": first + ["Q" if "Q" not in first else "Y"],
                "dup": first + [first[-1]], "substitute": [("Q" if x == "Y" else "Y") for x in first][:1] + first[1:],
                # signals the test case does not know (`?k` = foreign signal k of the replay driver)
                "add-foreign-end": first + ["?0"], "add-foreign-front": ["?1"] + first, "add-foreign-middle": first[:1] + ["?0"] + first[1:],
                "substitute-foreign": ["?0"] + first[1:], "foreign-input": first + ["?2"]}
        for dname, lay in devs.items():
            if lay == first:
                continue
            for k in (1, 4, 5):
                b.append(Scenario(prog, S, layout=first, default_answer=[1, 2], layout_at={k: lay},
                                  note="first layout %s, %s at call %d" % (fname, dname, k)))
    # fourth round.  (a) deviations of the same length in rows that expect nothing of the affected signals (X entries,
    # outputs the header does not name): still an error, never a row that files a value under the wrong signal
    progx = "A CLK Y Q\n0 0 X X\n1 0 X X\n1 C X 2\n0 0 1 X\n"
    Sh = [("in", "A", 1, 0), ("in", "CLK", 1, 0), ("out", "Y", 8), ("out", "Q", 4), ("out", "R", 4)]
    for k in (1, 2, 5, 6):
        b.append(Scenario(progx, S, layout=["Y", "Q"], default_answer=[1, 2], layout_at={k: ["Q", "Y"]}, stop_on_err=False,
                          note="swap at call %d in rows that expect X" % k))
        b.append(Scenario(progx, S, layout=["Y", "Q"], default_answer=[1, 2], layout_at={k: ["?0", "Q"]}, stop_on_err=False,
                          note="foreign signal instead of Y at call %d in rows that expect X" % k))
        b.append(Scenario("A CLK Y\n0 0 1\n1 0 X\n1 C 1\n0 0 1\n", Sh, layout=["Y", "Q", "R"], default_answer=[1, 2, 3],
                          layout_at={k: ["Y", "R", "Q"]}, stop_on_err=False,
                          note="outputs without a column swapped at call %d" % k))
        b.append(Scenario("A CLK Y\n0 0 1\n1 0 X\n1 C 1\n0 0 1\n", Sh, layout=["Y", "Q", "R"], default_answer=[1, 2, 3],
                          layout_at={k: ["Y", "Q", "Q"]}, stop_on_err=False,
                          note="output without a column reported twice at call %d" % k))
    # (b) what later rows read after a deviating answer: values stay filed under the names the driver gave them
    Sr = [("in", "A", 8, 0), ("out", "Y", 8), ("out", "Q", 8)]
    b.append(Scenario("A Y Q\n1 X X\n(Q) X X\n(Y) X X\n(Q+Y) X X\n", Sr, layout=["Y", "Q"], default_answer=[10, 20],
                      layout_at={1: ["Q", "Y"]}, answers={1: [7, 9], 2: [11, 21], 3: [12, 22]}, stop_on_err=False,
                      expect={"row_inputs": [["7"], ["11"], ["34"]], "items": ["err", "row", "row", "row"]},
                      note="reads after a swapped answer see each value under the name the driver reported it for"))
    b.append(Scenario("A Y Q\n1 X X\n(Q) X X\n(Y) X X\n", Sr, layout=["Y", "Q"], default_answer=[10, 20],
                      layout_at={2: ["Q", "Y"]}, answers={1: [5, 6], 2: [7, 9], 3: [11, 21]}, stop_on_err=False,
                      expect={"row_inputs": [["1"], ["9"]], "items": ["row", "err", "row"]},
                      note="a swapped answer in a later row"))
    # fifth round.  (d) faults in every call of identical consecutive clocked rows (no input changes between them)
    progc = "A CLK Y Q\n1 C X X\n1 C X X\n1 C X X\n"
    for k in range(1, 10):
        b.append(Scenario(progc, S, default_answer=[1, 2], fail_at=[k], note="identical clocked rows, fault at call %d" % k))
        b.append(Scenario(progc, S, default_answer=[1, 2], fail_at=[k], override_write=False, note="identical clocked rows, fault at call %d, default write_input" % k))
    # (e) a device that answers the constructor's call with no outputs and reports outputs later (and the reverse)
    for k in (1, 2, 3):
        b.append(Scenario(prog, S, layout=[], default_answer=[], layout_at=dict((j, ["Y", "Q"]) for j in range(k, 9)), answers=dict((j, [1, 2]) for j in range(k, 9)),
                          override_write=False, stop_on_err=False, note="no outputs at construction, outputs from call %d on (default write_input)" % k))
        b.append(Scenario(prog, S, layout=[], default_answer=[], layout_at=dict((j, ["Y"]) for j in range(k, 9)), answers=dict((j, [1]) for j in range(k, 9)),
                          stop_on_err=False, note="no outputs at construction, one output from call %d on" % k))
    # sixth round.  (f) the same TestCase value was run before by a driver with another layout: this run is judged against
    # its own first answer
    for pre in ([["Q", "Y"]], [["Y"]], [["?0", "Y", "Q"]]):
        for k in (1, 4):
            b.append(Scenario(prog, S, layout=["Y", "Q"], default_answer=[1, 2], pre_layouts=pre, layout_at={k: pre[0]}, stop_on_err=False,
                              note="earlier run with layout %s; this run deviates to that layout at call %d" % (pre[0], k)))
        b.append(Scenario(prog, S, layout=["Y", "Q"], default_answer=[1, 2], pre_layouts=pre, note="earlier run with layout %s, this run consistent" % pre[0]))
    # (c) tests without any output-capable signal: the constructor still makes its call, faults surface where they happen
    Sin = [("in", "A", 1, 0), ("in", "B", 4, 3)]
    for k in (0, 1, 2):
        b.append(Scenario("A B\n0 1\n1 2\n1 C\n" if False else "A B\n0 1\n1 2\n0 3\n", Sin, fail_at=[k],
                          note="stimulus-only test (no outputs at all), fault at call %d" % k))
    b.append(Scenario("A\n0\n1\n", [("in", "A", 1, 0)], fail_at=[0], note="single input, no outputs, fault in the constructor's call"))
    return b


def fault_judge_one(o, sc):
    """C13: a failing call -> that very error for that call (constructor or item), rows before unchanged;
    a layout deviation in a checked row's call -> error item, never a mis-attributed row."""
    w = protocol_judge_one(o, sc)
    if w:
        return w
    w = attribution_judge_one(o, sc)
    if w:
        return "after a driver deviation: " + w
    if sc.expect:
        w = literal_judge_one(o, sc)
        if w:
            return w
    if sc.fail_at:
        k = sc.fail_at[0]
        if k == 0:
            st = o.stage.get("NEW", ("missing", ""))
            if st[0] != "err" or not st[1].startswith("driver 0"):
                return "constructor with a failing first call reports %s %s" % st
            return None
        if len(o.calls) > k:
            errs = [it for it in o.items if it[0] == "err"]
            if not errs or errs[0][1] != "driver" or errs[0][2].strip() != str(k):
                return "call %d failed but the items are %s" % (k, [i[:3] if i[0] != "row" else "row" for i in o.items])
            # the error is the item right after the rows whose calls preceded k
            pos = o.items.index(errs[0])
            rows_before = [it for it in o.items[:pos] if it[0] == "row"]
            if len(rows_before) != k - 1:
                return "driver error of call %d arrived after %d rows" % (k, len(rows_before))
    for k, lay in sc.layout_at.items():
        first = sc.layout if sc.layout is not None else [s[1] for s in output_signals(sc)]
        if len(o.calls) > k and o.calls[k][1] == "read" and lay != first:
            # the row of call k must be an error item
            for it in o.items:
                if it[0] == "row" and it[1]["ncalls_before"] - 1 == k and it[1]["outputs"]:
                    return "driver changed its output layout to %s at call %d but the row was accepted" % (lay, k)
    return None


def fault_judge(obs, sc):
    if getattr(sc, "step", 0):
        return protocol_judge(obs, sc)
    return no_panic_judge(fault_judge_one)(obs, sc)


# ------------------------------------------------------------------ C04 reads of device outputs

def reads_battery():
    S = [("in", "A", 8, 0), ("in", "CLK", 1, 0), ("out", "Y", 8), ("out", "DONE", 1)]
    b = []
    b.append(Scenario("A Y\n(Y) X\n(Y) X\n(Y+1) X\n", S, answers={0: [5, 0], 1: [6, 0], 2: [7, 0], 3: [8, 0]},
                      default_answer=[0, 0], expect={"row_inputs": [["5", "0"], ["6", "0"], ["8", "0"]]},
                      note="row entries read the previous answer"))
    b.append(Scenario("CLK A Y\nC (Y) X\n0 (Y) X\n", S, answers={0: [1, 0], 1: [50, 0], 2: [60, 0], 3: [9, 0]},
                      default_answer=[0, 0], override_write=False,
                      expect={"row_inputs": [["1", "0"], ["1", "1"], ["1", "0"], ["9", "0"]]},
                      note="mid-clock calls do not refresh reads"))
    b.append(Scenario("A Y\nlet Y = 3;\n(Y) X\n", S, default_answer=[7, 0], expect={"row_inputs": [["3", "0"]]},
                      note="variable shadows the output of the same name"))
    b.append(Scenario("A Y\nlet v = Y + 1;\nloop(i, Y)\n(v) X\nend loop\n", S, answers={0: [2, 0]}, default_answer=[100, 0],
                      expect={"row_inputs": [["3", "0"], ["3", "0"]]}, note="let and loop bound read the construction answer"))
    b.append(Scenario("A Y\nwhile(Y < 3)\n(Y) X\nend while\n", S, answers={0: [0, 0], 1: [1, 0], 2: [2, 0], 3: [3, 0]},
                      default_answer=[9, 0], expect={"row_inputs": [["0", "0"], ["1", "0"], ["2", "0"]]},
                      note="while condition re-reads after every row"))
    b.append(Scenario("A Y DONE\n1 X X\n1 X X\n(Y) X X\n", S, answers={0: [10, 0], 1: [11, 0], 2: [12, 0]},
                      default_answer=[0, 0], expect={"row_inputs": [["1", "0"], ["1", "0"], ["12", "0"]]},
                      note="identical consecutive rows still refresh reads"))
    b.append(Scenario("A Y DONE\nwhile(!DONE)\n1 X X\nend while\n2 X X\n", S, answers={0: [0, 0], 1: [0, 0], 2: [0, 0], 3: [0, 1]},
                      default_answer=[0, 1], max_rows=20,
                      expect={"row_inputs": [["1", "0"], ["1", "0"], ["1", "0"], ["2", "0"]]},
                      note="polling loop with constant rows terminates when the device says so"))
    b.append(Scenario("A Y\n(Y) X\n", S, layout=["DONE"], default_answer=[0],
                      expect={"new": "err", "calls": 1}, note="read output not supplied: constructor fails"))
    b.append(Scenario("A Y\nlet Y = Y + 1;\n(Y) X\n", S, layout=["DONE"], default_answer=[0],
                      expect={"new": "err", "calls": 1}, note="self-referential let still reads the output"))
    b.append(Scenario("A Y\nlet Y = Y + 1;\n(Y) X\n", S, default_answer=[4, 0], expect={"row_inputs": [["5", "0"]]},
                      note="self-referential let"))
    b.append(Scenario("A Y\n1 X\n(Y) X\n", S, answers={0: [1, 0], 1: ["Z", 0]}, default_answer=[0, 0],
                      expect={"items": ["row", "err"]}, note="reading Z is an error item"))
    b.append(Scenario("A Y\n1 X\n(Y) X\n", S, answers={0: [1, 0], 1: ["X", 0]}, default_answer=[0, 0],
                      expect={"items": ["row", "err"]}, note="reading X is an error item"))
    # eighth round: a zero-trip loop leaves nothing behind that could shadow an output; resetRandom does not forget readings
    b.append(Scenario("A Y\nloop(Y, 0)\n1 X\nend loop\n(Y) X\n(Y) X\n", S, answers={0: [5, 0], 1: [6, 0]}, default_answer=[0, 0],
                      expect={"row_inputs": [["5", "0"], ["6", "0"]]}, note="zero-trip loop with a counter named like an output: the output is read afterwards"))
    b.append(Scenario("A Y\nloop(o,2)\nlet Y = 7;\nloop(z, 0)\n1 X\nend loop\n(Y) X\nend loop\n(Y) X\n(Y) X\n", S,
                      answers={0: [50, 0], 1: [51, 0], 2: [52, 0], 3: [53, 0]}, default_answer=[0, 0],
                      expect={"row_inputs": [["7", "0"], ["7", "0"], ["52", "0"], ["53", "0"]]},
                      note="zero-trip loop nested in a loop whose body shadows an output: after the outer loop the output is read again"))
    b.append(Scenario("A Y\nresetRandom;\n(Y) X\nresetRandom;\n(Y + 1) X\nlet v = Y;\nresetRandom;\n(v + Y) X\n", S,
                      answers={0: [5, 0], 1: [6, 0], 2: [7, 0]}, default_answer=[0, 0],
                      expect={"row_inputs": [["5", "0"], ["7", "0"], ["14", "0"]]}, note="resetRandom keeps the most recent readings"))
    # seventh round: readings wider than the signal (sign-extended, stray high bits) are read as the driver returned them
    Sw = [("in", "A", 64, 0), ("out", "Y", 4), ("out", "DONE", 1)]
    b.append(Scenario("A Y\n(Y) X\n(Y) X\n(Y + 1) X\n", Sw, answers={0: [-3, 0], 1: [29, 0], 2: [-1, 0]}, default_answer=[0, 0],
                      expect={"row_inputs": [["-3"], ["29"], ["0"]]}, note="out-of-width readings of a 4-bit output are not reduced before expressions see them"))
    # sixth round: the test case was run before by a driver that supplies everything / another layout
    b.append(Scenario("A Y\n(Y) X\n", S, layout=["DONE"], default_answer=[0], pre_layouts=[["Y", "DONE"]],
                      expect={"new": "err", "calls": 1}, note="read output not supplied by THIS driver (an earlier run had it): constructor fails"))
    b.append(Scenario("A Y\n(Y) X\n(Y+1) X\n", S, layout=["DONE", "Y"], default_answer=[0, 5], pre_layouts=[["Y", "DONE"], ["Y"]],
                      answers={1: [0, 6]}, expect={"row_inputs": [["5", "0"], ["7", "0"]]}, note="reads follow this run's layout, not an earlier run's"))
    for expr in ("(0 & Y)", "(0 * Y)", "(Y & 0)", "(Y * 0)", "(1 | Y)", "((1 = 9) & Y)"):
        for bad in ("Z", "X"):
            b.append(Scenario("A Y\n1 X\n%s X\n" % expr, S, answers={0: [1, 0], 1: [bad, 0]}, default_answer=[0, 0],
                              expect={"items": ["row", "err"]},
                              note="%s with Y read as %s is an error item: no operand read is skipped" % (expr, bad)))
    b.append(Scenario("A Y V\ndeclare V = 8 / Y;\nlet Y = 5;\n(Y) X X\n(Y) X X\n(Y) X X\n", S,
                      answers={0: [1, 0], 1: [1, 0], 2: [0, 0], 3: [1, 0]}, default_answer=[1, 0], stop_on_err=False,
                      expect={"row_inputs_loose": [["5", "0"], ["5", "0"]], "items": ["row", "err", "row"]},
                      note="variable keeps shadowing the output after a failed row"))
    return b


def literal_judge_one(o, sc):
    """Compare an observation with the literal expectations stored in the scenario."""
    e = sc.expect
    if "new" in e:
        st = o.stage.get("NEW", ("missing", ""))[0]
        if st != e["new"]:
            return "constructor result is %s, expected %s (%s)" % (st, e["new"], sc.note)
    if "calls" in e and len(o.calls) != e["calls"]:
        return "%d driver calls, expected %d (%s)" % (len(o.calls), e["calls"], sc.note)
    if "row_inputs" in e:
        got = [[v for _, v, _ in r["inputs"]] for r in o.rows]
        if got != e["row_inputs"]:
            return "rows carry inputs %s, expected %s (%s)" % (got, e["row_inputs"], sc.note)
    if "row_inputs_loose" in e:
        got = [[v for _, v, _ in r["inputs"]] for r in o.rows]
        if got != e["row_inputs_loose"]:
            return "rows carry inputs %s, expected %s (%s)" % (got, e["row_inputs_loose"], sc.note)
    if "items" in e:
        got = [i[0] for i in o.items if i[0] != "end"]
        if got[:len(e["items"])] != e["items"]:
            return "items are %s, expected %s (%s)" % (got, e["items"], sc.note)
    if "row_expected" in e:
        got = [[x for _, x, _, _, _ in r["outputs"]] for r in o.rows]
        if got != e["row_expected"]:
            return "rows carry expected values %s, expected %s (%s)" % (got, e["row_expected"], sc.note)
    if "row_outputs" in e:
        got = [[x for _, _, x, _, _ in r["outputs"]] for r in o.rows]
        if got != e["row_outputs"]:
            return "rows report outputs %s, expected %s (%s)" % (got, e["row_outputs"], sc.note)
    if "lines" in e:
        got = [r["line"] for r in o.rows]
        if got != e["lines"]:
            return "rows report lines %s, expected %s (%s)" % (got, e["lines"], sc.note)
    if "vars" in e:
        if o.vars != e["vars"]:
            return "vars() after the rows are %s, expected %s (%s)" % (o.vars, e["vars"], sc.note)
    if "parse" in e:
        st = o.stage.get("PARSE", ("missing", ""))[0]
        if st != e["parse"]:
            return "parse result is %s, expected %s (%s)" % (st, e["parse"], sc.note)
    if "bind" in e:
        st = o.stage.get("BIND", ("missing", ""))[0]
        if st != e["bind"]:
            return "binding result is %s, expected %s (%s)" % (st, e["bind"], sc.note)
    return None


literal_judge = no_panic_judge(literal_judge_one)
reads_judge = literal_judge


def verdict_battery():
    """values at the 64-bit boundaries, Z/X in both roles, holes in the supplied subset (C03)."""
    S = [("in", "A", 1, 0), ("out", "P", 8), ("out", "Q", 8), ("out", "R", 64), ("out", "S", 64)]
    prog = "A P Q R S\n0 255 Z (0-1) X\n1 (0-1) 3 %s Z\n" % lit(-(1 << 63))
    b = []
    b.append(Scenario(prog, S, layout=["P", "Q", "R", "S"], default_answer=[-1, "Z", "Z", "X"],
                      answers={2: [255, 3, "X", "Z"]}, note="boundary values, Z and X"))
    b.append(Scenario(prog, S, layout=["S", "Q"], default_answer=["Z", "Z"], answers={2: [7, 3]}, note="subset with a hole [S,Q]"))
    b.append(Scenario(prog, S, layout=["R"], default_answer=[-1], answers={2: [-(1 << 63)]}, note="subset [R]"))
    b.append(Scenario(prog, S, layout=["P", "Q", "S"], default_answer=[1000, 2, 3], answers={2: [-1, 3, "Z"]},
                      note="subset [P,Q,S], out-of-width driver values"))
    b.append(Scenario(prog, S, layout=["Q", "P", "S", "R"], default_answer=["X", -1, (1 << 63) - 1, -(1 << 63)],
                      note="permutation"))
    return b


# ------------------------------------------------------------------ C14 virtual signals

def virtual_battery():
    S = [("in", "A", 8, 0), ("out", "B", 8), ("out", "C", 8)]
    b = []
    b.append(Scenario("A B V\ndeclare V = B + 1;\n0 X 4\n1 X X\n", S, answers={1: [3, 0], 2: [9, 0]}, default_answer=[0, 0],
                      expect={"row_outputs": [["3", "0", "4"], ["9", "0", "10"]], "row_expected": [["X", "X", "4"], ["X", "X", "X"]]},
                      note="virtual value from the same row's outputs"))
    b.append(Scenario("A B V\ndeclare V = B;\nlet B = 5;\n(B) X 3\n(B) X X\n", S, answers={1: [3, 0], 2: [4, 0]}, default_answer=[0, 0],
                      expect={"row_outputs": [["3", "0", "3"], ["4", "0", "4"]], "row_inputs": [["5"], ["5"]]},
                      note="program variable of the same name is invisible to the virtual signal"))
    b.append(Scenario("A B V\ndeclare V = B;\nlet B = 5;\n(B) X X\n(B) X X\n(B) X X\n", S,
                      answers={1: [3, 0], 2: ["Z", 0], 3: [4, 0]}, default_answer=[0, 0], stop_on_err=False,
                      expect={"items": ["row", "err", "row"], "row_outputs": [["3", "0", "3"], ["4", "0", "4"]],
                              "row_inputs": [["5"], ["5"]]},
                      note="Z makes that row an error item; later rows unaffected"))
    b.append(Scenario("A B C V\ndeclare V = B + C;\n0 X X X\n0 X X X\n0 X X X\n", S,
                      answers={0: [2, 30], 1: [2, 30], 2: ["X", 30], 3: [1, 1]}, default_answer=[0, 0], stop_on_err=False,
                      expect={"items": ["row", "err", "row"], "row_outputs": [["2", "30", "32"], ["1", "1", "2"]]},
                      note="X after a concrete value is an error, not a stale value"))
    b.append(Scenario("A V\ndeclare V = 0 - 8;\n0 (0-8)\n0 (~7)\n", S, default_answer=[0, 0],
                      expect={"row_expected": [["X", "X", "-8"], ["X", "X", "-8"]], "row_outputs": [["0", "0", "-8"], ["0", "0", "-8"]]},
                      note="negative expected value on a 64-bit virtual column"))
    b.append(Scenario("A B\ndeclare V = B;\n0 X\n", S, default_answer=[7, 0],
                      expect={"row_expected": [["X", "X", "X"]], "row_outputs": [["7", "0", "7"]]}, note="virtual signal without a column"))
    b.append(Scenario("A B V W\ndeclare V = B;\ndeclare W = B * 2;\n0 X 1 2\n", S, default_answer=[1, 0],
                      expect={"row_outputs_set": True}, note="two declarations"))
    for expr in ("B & C", "B * C", "C & B", "C * B"):
        b.append(Scenario("A B C V\ndeclare V = %s;\n0 X X X\n0 X X X\n0 X X X\n" % expr, S,
                          answers={0: [3, 5], 1: [3, 5], 2: [0, "Z"], 3: [0, 4]}, default_answer=[0, 0], stop_on_err=False,
                          expect={"items": ["row", "err", "row"]},
                          note="declare V = %s with B = 0 and C = Z is an error item: no operand read is skipped" % expr))
    b.append(Scenario("A B S_out\ndeclare S = B + 1;\n0 X 4\n", S + [("out", "S_out", 8)], default_answer=[1, 0, 4],
                      expect={"row_expected": [["X", "X", "4", "X"]]},
                      note="a declared signal without a column expects X even if a pin is called <name>_out"))
    b.append(Scenario("A B V\ndeclare V = B * 2;\n1 X X\n1 X X\n1 X X\n", S, answers={1: [3, 0], 2: [4, 0], 3: [5, 0]},
                      default_answer=[0, 0], expect={"row_outputs": [["3", "0", "6"], ["4", "0", "8"], ["5", "0", "10"]]},
                      note="rows that repeat their inputs still see the row's own outputs"))
    b += virtual_repeat_scenarios()
    return b


virtual_judge = literal_judge


# ------------------------------------------------------------------ C06 binding by header name

def virtual_repeat_scenarios():
    """a device output literally called n, a declared signal reading it, rows produced by repeat (whose counter is n)"""
    S = [("in", "A", 8, 0), ("out", "n", 8), ("out", "Y", 8)]
    return [Scenario("A n Y V\ndeclare V = n * 2 + 1;\nrepeat(3) (n) X X X\nloop(n,2)\n(n) X X X\nend loop\n", S, default_answer=[20, 0],
                     answers={1: [21, 0], 2: [22, 0], 3: [23, 0], 4: [24, 0], 5: [25, 0]},
                     expect={"row_inputs": [["0"], ["1"], ["2"], ["0"], ["1"]], "row_outputs": [["21", "0", "43"], ["22", "0", "45"], ["23", "0", "47"], ["24", "0", "49"], ["25", "0", "51"]]},
                     note="output named n: the declared signal reads the device's n on repeat / loop rows, the row entry reads the counter")]


def binding_battery():
    # signal list: output first, inputs in an order different from the headers, a bidirectional pair
    S = [("out", "Y", 8), ("in", "B", 8, 7), ("in", "A", 8, 1), ("bidir", "D", 8, 165), ("out", "Q", 4)]
    b = []
    b.append(Scenario("A B Y\n1 0 3\n1 1 3\n1 1 4\n0 1 4\n", S, default_answer=[0, 0, 0],
                      expect={"row_inputs_full": [[("B", "0", True), ("A", "1", True), ("D", "165", False)],
                                                  [("B", "1", True), ("A", "1", False), ("D", "165", False)],
                                                  [("B", "1", False), ("A", "1", False), ("D", "165", False)],
                                                  [("B", "1", False), ("A", "0", True), ("D", "165", False)]],
                              "row_expected": [["3", "X", "X"], ["3", "X", "X"], ["4", "X", "X"], ["4", "X", "X"]]},
                      note="header order differs from signal order; omitted bidirectional at its default"))
    b.append(Scenario("D Y\n5 X\n7 X\nZ X\n", S, default_answer=[0, 0, 0],
                      expect={"row_inputs_full": [[("B", "7", False), ("A", "1", False), ("D", "5", True)],
                                                  [("B", "7", False), ("A", "1", False), ("D", "7", True)],
                                                  [("B", "7", False), ("A", "1", False), ("D", "Z", True)]],
                              "row_expected": [["X", "X", "X"]] * 3},
                      note="partial bidirectional pair: D without D_out expects X"))
    b.append(Scenario("D_out Q\n5 1\n6 1\n", S, default_answer=[0, 0, 0],
                      expect={"row_inputs_full": [[("B", "7", False), ("A", "1", False), ("D", "165", False)]] * 2,
                              "row_expected": [["X", "5", "1"], ["X", "6", "1"]]},
                      note="split pair: D_out without D keeps D at its default, unchanged"))
    b.append(Scenario("Q D_out D A\n1 2 3 4\n1 2 3 4\n2 2 4 4\n", S, default_answer=[0, 0, 0],
                      expect={"row_inputs_full": [[("B", "7", False), ("A", "4", True), ("D", "3", True)],
                                                  [("B", "7", False), ("A", "4", False), ("D", "3", False)],
                                                  [("B", "7", False), ("A", "4", False), ("D", "4", True)]],
                              "row_expected": [["X", "2", "1"], ["X", "2", "1"], ["X", "2", "2"]]},
                      note="full pair with permuted columns"))
    b.append(Scenario("B\n1\n", S, default_answer=[0, 0, 0],
                      expect={"row_inputs_full": [[("B", "1", True), ("A", "1", False), ("D", "165", False)]],
                              "row_expected": [["X", "X", "X"]]}, note="single column"))
    # second round: an output column to the left of an input column, a row whose IO failed, names that are prefixes
    b.append(Scenario("Q A\nX 1\n2 X\n", S, default_answer=[0, 0, 0],
                      expect={"row_inputs_full": [[("B", "7", False), ("A", "1", True), ("D", "165", False)],
                                                  [("B", "7", False), ("A", "0", True), ("D", "165", False)],
                                                  [("B", "7", False), ("A", "1", True), ("D", "165", False)]],
                              "row_expected": [["X", "X", "X"], ["X", "X", "2"], ["X", "X", "2"]]},
                      note="X in an output column left of an input column is an expected X, not an expansion"))
    for k in (2, 3):
        b.append(Scenario("A Y\n5 X\n9 X\n5 X\n9 X\n5 X\n", S, default_answer=[0, 0, 0], fail_at=[k], stop_on_err=False,
                          note="driver fails at call %d and the caller goes on: changed flags follow what was handed over" % k))
    # third round: declared signals the header does not list; defaults wider than their signal
    S3 = [("in", "A", 8, 0), ("out", "Q", 8)]
    b.append(Scenario("A Q\ndeclare NQ = !Q;\n1 X\n2 7\n", S3, default_answer=[0],
                      expect={"row_expected": [["X", "X"], ["7", "X"]]},
                      note="a declared signal without a column still has its entry (expected X) in every checked row"))
    b.append(Scenario("A Q V2\ndeclare V1 = Q;\ndeclare V2 = Q + 1;\n1 X 5\n", S3, default_answer=[0],
                      expect={"row_expected": [["X", "X", "5"]]}, note="two declarations, only the second has a column"))
    S4 = [("in", "A", 8, 0), ("in", "B", 4, -1), ("bidir", "D", 8, 0x1FF), ("out", "Y", 8)]
    b.append(Scenario("A Y\n1 X\n2 X\n", S4, default_answer=[0, 0],
                      expect={"row_inputs_full": [[("A", "1", True), ("B", "-1", False), ("D", "511", False)],
                                                  [("A", "2", True), ("B", "-1", False), ("D", "511", False)]]},
                      note="defaults wider than their signal are handed over as declared, on every row as in the first call"))
    S2 = [("bidir", "IO", 8, 1), ("bidir", "IO2", 8, 2), ("out", "Y", 8)]
    b.append(Scenario("IO IO2 IO2_out Y\n3 4 5 6\n", S2, default_answer=[0, 0, 0],
                      expect={"row_inputs_full": [[("IO", "3", True), ("IO2", "4", True)]], "row_expected": [["X", "5", "6"]]},
                      note="IO2_out is the read-back column of IO2 only; IO without IO_out expects X"))
    b.append(Scenario("IO2_out IO_out Y\n5 7 6\n", S2, default_answer=[0, 0, 0],
                      expect={"row_inputs_full": [[("IO", "1", False), ("IO2", "2", False)]], "row_expected": [["7", "5", "6"]]},
                      note="read-back columns of two signals one of whose names is a prefix of the other"))
    # seventh round: an output (or declared signal) N whose column is omitted while a signal literally named N_out has one:
    # N is don't-care, it does not borrow the N_out column
    Sn = [("in", "A", 1, 0), ("out", "N", 8), ("out", "N_out", 8), ("out", "Q", 4)]
    b.append(Scenario("A N_out\n1 5\n0 6\n", Sn, default_answer=[0, 0, 0],
                      expect={"row_expected": [["X", "5", "X"], ["X", "6", "X"]]}, note="output N omitted, signal N_out has a column: N stays X"))
    b.append(Scenario("A N_out V_out\ndeclare V = N + 1;\n1 5 7\n", Sn + [("out", "V_out", 8)], default_answer=[0, 0, 0, 0],
                      expect={"row_expected": [["X", "5", "X", "7", "X"]]}, note="declared signal V omitted, output V_out has a column: V stays X"))
    return b


def binding_judge_one(o, sc):
    e = sc.expect
    if "row_inputs_full" in e:
        got = [[tuple(x) for x in r["inputs"]] for r in o.rows]
        want = [[tuple(x) for x in r] for r in e["row_inputs_full"]]
        if got != want:
            for k, (g, w) in enumerate(zip(got, want)):
                if g != w:
                    return "row %d carries inputs (name, value, changed) %s, expected %s (%s)" % (k + 1, g, w, sc.note)
            return "rows carry %d input vectors, expected %d (%s)" % (len(got), len(want), sc.note)
    # changed == False  =>  same value as in the previous vector handed to the driver
    for k in range(1, len(o.calls)):
        prev = dict((n, v) for n, v, _, _ in o.calls[k - 1][2])
        for n, v, ch, _ in o.calls[k][2]:
            if not ch and prev.get(n) != v:
                return "%s is flagged unchanged in call %d but went from %s to %s" % (n, k, prev.get(n), v)
    return literal_judge_one(o, sc)


binding_judge = no_panic_judge(binding_judge_one)


# ------------------------------------------------------------------ C01 control flow and variables

def control_battery():
    S = [("in", "A", 8, 0), ("in", "B", 8, 0), ("out", "Y", 8)]
    b = []

    def sc(src, rows, note, **kw):
        kw.setdefault("default_answer", [0])
        return Scenario(src, S, expect={"row_inputs": [[str(a), str(bb)] for a, bb in rows]}, note=note,
                        max_rows=200, **kw)
    b.append(sc("A B Y\nloop(i,3)\n(i) 0 X\nend loop\n9 9 X\n", [(0, 0), (1, 0), (2, 0), (9, 9)], "simple loop"))
    b.append(sc("A B Y\nlet n = 3;\nrepeat(n) (n) 1 X\n", [(0, 1), (1, 1), (2, 1)], "repeat bound names the implicit counter"))
    b.append(sc("A B Y\nlet i = 2;\nloop(i, i+2)\n(i) 0 X\nend loop\n(i) 7 X\n", [(0, 0), (1, 0), (2, 0), (3, 0), (2, 7)],
                "bound mentions a variable named like the counter; outer binding uncovered afterwards"))
    b.append(sc("A B Y\nloop(k,3)\nloop(k,k+1)\n(k) 5 X\nend loop\nend loop\n", [(0, 5), (0, 5), (1, 5), (0, 5), (1, 5), (2, 5)],
                "nested loops sharing a counter name"))
    b.append(sc("A B Y\nlet acc = 0;\nloop(i,4)\nlet acc = acc + i;\n(acc) (i) X\nend loop\n(acc) 0 X\n",
                [(0, 0), (1, 1), (3, 2), (6, 3), (0, 0)], "let in a loop body lives until the loop ends"))
    b.append(sc("A B Y\nlet t = 0;\nloop(i,4)\nlet t = 1 - t;\n(t) 0 X\nend loop\n", [(1, 0), (0, 0), (1, 0), (0, 0)],
                "binding made in one iteration is visible in the next"))
    b.append(sc("A B Y\nlet x = 0;\nwhile(x < 3)\nlet x = x + 1;\n(x) 0 X\nend while\n(x) 1 X\n",
                [(1, 0), (2, 0), (3, 0), (3, 1)], "while opens no scope"))
    b.append(sc("A B Y\nlet j = 0;\nloop(i,2)\nwhile(j < 3)\nlet j = j + 1;\n(i) (j) X\nend while\nend loop\n",
                [(0, 1), (0, 2), (0, 3)], "while in loop: variable bound in the while survives"))
    b.append(sc("A B Y\nwhile(0)\n1 1 X\nend while\n2 2 X\n", [(2, 2)], "zero-trip while"))
    b.append(sc("A B Y\nlet k = 0;\nwhile(k < 1)\nlet k = k + 1;\nlet w = 5;\n(k) 0 X\nend while\n(w) 1 X\n", [(1, 0), (5, 1)],
                "a variable first bound inside a while is visible after it"))
    b.append(sc("A B Y\nloop(i,1)\nlet k = 0;\nwhile(k < 1)\nlet k = k + 1;\nlet w = 7;\nend while\n(w) (i) X\nend loop\n", [(7, 0)],
                "a variable first bound inside a while inside a loop is visible in the rest of the loop body"))
    b.append(sc("A B Y\nbits(2,2) X\nbits(2,1) X\n", [(1, 0), (0, 1)], "bits most significant first"))
    b.append(sc("A B Y\nloop(i,2)\nloop(j,2)\n(i) (j) X\nend loop\nend loop\n", [(0, 0), (0, 1), (1, 0), (1, 1)], "nested loops"))
    b.append(sc("A B Y\nlet v = 1;\nloop(i,2)\nlet v = v + 1;\n(v) 0 X\nend loop\n(v) 0 X\n", [(2, 0), (3, 0), (1, 0)],
                "rebinding inside the loop shadows; the outer binding comes back"))
    # second-round additions: conditions that are negative, zero-trip loops followed by reads of shadowed names,
    # zero-trip loops nested in loops, the 64th bit of bits()
    b.append(sc("A B Y\nlet n = 0-3;\nwhile(n)\n(n+3) 4 X\nlet n = n+1;\nend while\n9 7 X\n", [(0, 4), (1, 4), (2, 4), (9, 7)],
                "a negative while condition is true"))
    b.append(sc("A B Y\nlet k = 2;\nwhile(~k)\n(k) 3 X\nlet k = k - 3;\nend while\n8 8 X\n", [(2, 3), (8, 8)],
                "while(~k) stops only at ~k = 0"))
    b.append(sc("A B Y\nlet i = 5;\nloop(i,0)\n1 1 X\nend loop\n(i) 6 X\n", [(5, 6)],
                "zero-trip loop whose counter shadows an outer variable leaves no binding behind"))
    b.append(sc("A B Y\nlet v = 7;\nloop(o,2)\nlet v = 1;\nloop(z,0)\n0 0 X\nend loop\n(o+1) 8 X\nend loop\n(v) 10 X\n",
                [(1, 8), (2, 8), (7, 10)], "zero-trip loop nested in a loop: the outer frame still ends with the outer loop"))
    b.append(sc("A B Y\nloop(i,3)\nloop(j,i)\n(i) (j) X\nend loop\nend loop\n(9) 9 X\n", [(1, 0), (2, 0), (2, 1), (9, 9)],
                "triangular nest: inner loop with bound 0 on the first pass"))
    b.append(sc("A B Y\nlet k = 0;\nloop(i,2)\nrepeat(k) 1 1 X\n(i) 5 X\nend loop\n", [(0, 5), (1, 5)],
                "zero-trip repeat inside a loop"))
    # variables and counters named like a device output that the driver does supply (with values that would mislead)
    b.append(sc("A B Y\nlet Y = 3;\n(Y) 1 X\n(Y+1) 2 X\n", [(3, 1), (4, 2)], "a variable named like a device output wins", default_answer=[7]))
    b.append(sc("A B Y\nloop(Y,3)\n(Y) 5 X\nend loop\n9 9 X\n", [(0, 5), (1, 5), (2, 5), (9, 9)],
                "a loop counter named like a device output counts on its own", default_answer=[1]))
    b.append(sc("A B Y\nlet n = 3;\nrepeat(n) (n) 7 X\n(n) 8 X\n", [(0, 7), (1, 7), (2, 7), (3, 8)],
                "repeat bound naming the implicit counter reads the outer n", default_answer=[0]))
    b.append(sc("A B Y\nlet n = 5;\nrepeat(1) (n) 1 X\n(n) 2 X\nloop(n,2)\nrepeat(1) (n) 3 X\nend loop\n", [(0, 1), (5, 2), (0, 3), (0, 3)],
                "repeat(1) still opens the scope of its counter", default_answer=[0]))
    b.append(sc("A B Y\nlet acc = 10;\nloop(i,4)\nlet acc = acc + i + 1;\n(i) (acc) X\nend loop\n10 99 X\n",
                [(0, 11), (1, 13), (2, 16), (3, 20), (10, 99)], "a let in a loop body accumulates across iterations", default_answer=[0]))
    # seventh round: an expression error inside a loop body is one error item; the loop goes on with the next pass
    b.append(Scenario("A B Y\nloop(i,4)\n(8 / (i - 1)) (i) X\nend loop\n9 9 X\n", S, default_answer=[0], stop_on_err=False, max_rows=50,
                      expect={"row_inputs": [["248", "0"], ["8", "2"], ["4", "3"], ["9", "9"]], "items": ["row", "err", "row", "row", "row"]},
                      note="division by zero in the second of four passes: the other passes and the row after the loop still run"))
    b.append(Scenario("A B Y\nloop(i,2)\nrepeat(3) (6 / (n - i)) (n) X\nend loop\n1 1 X\n", S, default_answer=[0], stop_on_err=False, max_rows=50,
                      expect={"row_inputs": [["6", "1"], ["3", "2"], ["250", "0"], ["6", "2"], ["1", "1"]], "items": ["err", "row", "row", "row", "err", "row", "row"]},
                      note="errors inside a repeat nested in a loop"))
    # seventh round: passes of a while body that reach no row (lets only; an inner loop with bound 0) - the condition is
    # evaluated again all the same
    b.append(sc("A B Y\nlet n = 90;\nlet r = 0;\nwhile((r + 1) * (r + 1) <= n)\nlet r = r + 1;\nend while\n(r) (n) X\n", [(9, 90)],
                "a while body of lets only runs until its condition fails (integer square root)"))
    b.append(sc("A B Y\nlet k = 0;\nwhile(k < 4)\nloop(j, k - 1)\n(k) (j) X\nend loop\nlet k = k + 1;\nend while\n9 9 X\n",
                [(2, 0), (3, 0), (3, 1), (9, 9)], "while passes whose inner loop has bound <= 0 produce no row and do not end the while"))
    b.append(sc("A B Y\nlet k = 0;\nwhile(k < 3)\nrepeat(k & 1) (k) 7 X\nlet k = k + 1;\nend while\n", [(1, 7)],
                "rowless first pass, row in the second, rowless third"))
    # fifth round: rows after a row whose output extraction failed still see the program's variables and loop frames
    Sv = [("in", "A", 8, 0), ("in", "B", 8, 0), ("out", "Y", 8)]
    b.append(Scenario("A B Y V\ndeclare V = 8 / Y;\nlet k = 7;\nloop(i,3)\n(i+k) (i) X X\nend loop\n(k) 9 X X\n", Sv, default_answer=[1],
                      answers={2: [0]}, stop_on_err=False, max_rows=50,
                      expect={"row_inputs": [["7", "0"], ["9", "2"], ["7", "9"]], "items": ["row", "err", "row", "row"]},
                      note="a virtual signal fails on one row inside a loop: the following rows run in the program's environment"))
    # statements executed before the first row read the device (the answer to the constructor's call)
    b.append(sc("A B Y\nloop(i, Y)\n(i) 4 X\nend loop\n9 9 X\n", [(0, 4), (1, 4), (9, 9)],
                "a loop bound evaluated before the first row reads the construction answer", answers={0: [2]}, default_answer=[7]))
    b.append(sc("A B Y\nlet v = Y + 1;\nwhile(v < 5)\n(v) 1 X\nlet v = v + 1;\nend while\n", [(3, 1), (4, 1)],
                "let and while before the first row read the construction answer", answers={0: [2]}, default_answer=[9]))
    b.append(sc("A B Y\nrepeat(Y) (n) 6 X\n", [(0, 6), (1, 6), (2, 6)],
                "repeat bound read from the device before the first row", answers={0: [3]}, default_answer=[0]))
    # ninth round: a counter named like the MOST RECENT binding of the enclosing scope shadows it, it does not overwrite it
    b.append(sc("A B Y\nlet k = 1;\nlet n = 5;\nrepeat(3) (n) 1 X\n(n) (k) X\n", [(0, 1), (1, 1), (2, 1), (5, 1)],
                "repeat counter named like the last let before it; the let is uncovered afterwards"))
    b.append(sc("A B Y\nlet k = 0;\nlet m = 0;\nloop(i,2)\nloop(i,3)\n(i) 2 X\nend loop\n(i) 3 X\nend loop\n",
                [(0, 2), (1, 2), (2, 2), (0, 3), (0, 2), (1, 2), (2, 2), (1, 3)],
                "inner loop counter named like the outer one, two lets below: the outer counter is uncovered after the inner loop"))
    b.append(sc("A B Y\nlet a = 7;\nlet i = 9;\nloop(i,2)\n(i) (a) X\nend loop\n(i) (a) X\n", [(0, 7), (1, 7), (9, 7)],
                "loop counter named like the last let before it"))
    n64 = " ".join("I%d" % i for i in range(64))
    s64_ = [("in", "I%d" % i, 1, 0) for i in range(64)]
    b.append(Scenario("%s\nbits(64, (0-1))\nbits(64, (1<<63))\nbits(64, (~5))\n" % n64, s64_,
                      expect={"row_inputs": [["1"] * 64, ["1"] + ["0"] * 63, ["1"] * 61 + ["0", "1", "0"]]},
                      note="bits(64, negative): the most significant entry is the sign bit"))
    return b + nonpositive_loop_scenarios(0) + nonpositive_loop_scenarios(-3)


def nonpositive_loop_scenarios(bound):
    S = [("in", "A", 8, 0), ("in", "B", 8, 0), ("out", "Y", 8)]
    b = int(bound)
    if b > 0:
        b = 0
    out = []
    out.append(Scenario("A B Y\nloop(i,%s)\n1 1 X\nend loop\n2 2 X\n" % lit(b), S, default_answer=[0],
                        expect={"row_inputs": [["2", "2"]]}, note="loop with bound %d runs no iteration" % b))
    out.append(Scenario("A B Y\nrepeat(%s) 1 1 X\n2 2 X\n" % lit(b), S, default_answer=[0],
                        expect={"row_inputs": [["2", "2"]]}, note="repeat with bound %d runs no iteration" % b))
    out.append(Scenario("A B Y\nlet n = %s;\nloop(i,n)\n1 1 X\nend loop\n2 2 X\n" % lit(b), S, default_answer=[0],
                        expect={"row_inputs": [["2", "2"]]}, note="loop with variable bound %d" % b))
    return out


def bits_scenarios(k, value=None):
    k = max(1, min(int(k), 64))
    names = " ".join("I%d" % i for i in range(k))
    sigs = [("in", "I%d" % i, 1, 0) for i in range(k)]
    out = []
    for v in ([(0xA5A5A5A5A5A5A5A5 >> 1) | 1] + ([int(value)] if value is not None else []) + [-1, -(1 << 63)]):
        want = [str((v >> (k - 1 - i)) & 1) for i in range(k)]
        out.append(Scenario("%s\nbits(%d, %s)\n" % (names, k, lit(v)), sigs, expect={"row_inputs": [want]},
                            note="bits(%d, %d)" % (k, v)))
        # the same entries bound to signals wider than one bit (a one-bit signal would mask a wrong entry such as -1
        # back to 1) and to expected columns of 64-bit outputs (not masked at all)
        wide = [("in", "I%d" % i, 8 if i % 2 else 64, 0) for i in range(k)]
        out.append(Scenario("%s\nbits(%d, %s)\n" % (names, k, lit(v)), wide, expect={"row_inputs": [want]},
                            note="bits(%d, %d) into 8- and 64-bit inputs" % (k, v)))
        kk = min(k, 8)
        onames = " ".join("O%d" % i for i in range(kk))
        osigs = [("in", "A", 1, 0)] + [("out", "O%d" % i, 64) for i in range(kk)]
        owant = [str((v >> (kk - 1 - i)) & 1) for i in range(kk)]
        out.append(Scenario("A %s\n0 bits(%d, %s)\n" % (onames, kk, lit(v)), osigs, default_answer=[0] * kk,
                            expect={"row_expected": [owant]}, note="bits(%d, %d) as expected values of 64-bit outputs" % (kk, v)))
    return out


control_judge = literal_judge


# ------------------------------------------------------------------ C17 random / resetRandom

BIG = "(1 << 62)"


def random_battery():
    S = [("in", "A", 1, 0)]
    b = []
    hdr = "A V\ndeclare V = 0;\n"
    b.append(Scenario(hdr + "0 (random(%s))\n0 (random(%s))\nresetRandom;\n0 (random(%s))\n0 (random(%s))\n" % ((BIG,) * 4), S,
                      expect={"replay": [(2, 0), (3, 1)], "range": (0, 1 << 62)}, note="resetRandom replays the draws"))
    b.append(Scenario(hdr + "0 (random(random(%s) + 2))\n0 (random(%s))\nresetRandom;\nlet a = random(%s);\n0 (random(a + 2))\n0 (random(%s))\n" % ((BIG,) * 4), S,
                      expect={"replay": [(2, 0), (3, 1)], "range": (0, (1 << 62) + 2)},
                      note="bound containing a draw: the same bound sequence written with a variable gives the same draws"))
    b.append(Scenario(hdr + "let en = 0;\n0 (en * random(%s))\n0 (random(%s))\nresetRandom;\n0 (random(%s))\n0 (random(%s))\n" % ((BIG,) * 4), S,
                      expect={"replay": [(3, 1)], "range": (0, 1 << 62)}, note="a draw multiplied by zero is still a draw"))
    b.append(Scenario(hdr + "let en = 0;\n0 (en & random(%s))\n0 (random(%s))\nresetRandom;\n0 (random(%s))\n0 (random(%s))\n" % ((BIG,) * 4), S,
                      expect={"replay": [(3, 1)], "range": (0, 1 << 62)}, note="a draw and-ed with zero is still a draw"))
    b.append(Scenario(hdr + "0 (ite(1, 7, random(%s)))\n0 (random(%s))\nresetRandom;\n0 (random(%s))\n" % ((BIG,) * 3), S,
                      expect={"replay": [(2, 1)], "range": (0, 1 << 62)}, note="no draw in the unselected branch of ite"))
    b.append(Scenario(hdr + "0 (random(%s))\nlet k = 0;\nwhile(k < 1)\nlet k = k + 1;\nresetRandom;\nend while\n0 (random(%s))\n" % ((BIG,) * 2), S,
                      expect={"replay": [(1, 0)], "range": (0, 1 << 62)}, note="resetRandom inside a row-free while body"))
    b.append(Scenario(hdr + "0 (random(%s))\nloop(i,2)\nresetRandom;\n0 (random(%s))\nend loop\n" % ((BIG,) * 2), S,
                      expect={"replay": [(1, 0), (2, 0)], "range": (0, 1 << 62)}, note="resetRandom inside a loop"))
    b.append(Scenario(hdr + "0 (random(2))\n0 (random(3))\n0 (random(2))\n", S, expect={"range": (0, 3)}, note="small bounds stay in range"))
    b.append(Scenario(hdr + "0 (ite(0, random(%s), 7))\n0 (random(%s))\nresetRandom;\n0 (random(%s))\n" % ((BIG,) * 3), S,
                      expect={"replay": [(2, 1)], "range": (0, 1 << 62)}, note="no draw in the unselected then-branch of ite"))
    Sb = [("in", "I0", 1, 0), ("in", "I1", 1, 0), ("in", "I2", 1, 0)]
    b.append(Scenario("I0 I1 I2 V\ndeclare V = 0;\n0 0 0 (random(%s))\n0 0 0 (random(%s))\nresetRandom;\nbits(3, random(%s)) (random(%s))\n"
                      % ((BIG,) * 4), Sb, expect={"replay": [(2, 1)]}, note="bits(k, e) evaluates e - and draws - once, not once per bit"))
    b.append(Scenario(hdr + "0 (random(%s))\nloop(i,3)\nresetRandom;\n0 (random(%s))\nend loop\nlet k = 0;\nwhile(k < 2)\nresetRandom;\nlet k = k + 1;\n0 (random(%s))\nend while\n"
                      % ((BIG,) * 3), S, expect={"replay": [(1, 0), (2, 0), (3, 0), (4, 0), (5, 0)], "range": (0, 1 << 62)},
                      note="resetRandom as the first statement of a loop / while body"))
    # second round: bounds just above 2^32 (many draws), a draw inside a declared signal, several resets in one run
    for bound in (0x100000001, 3 << 31, (1 << 33) + 5, (1 << 63) - 1):
        b.append(Scenario(hdr + "loop(i,300)\n0 (random(%d))\nend loop\n" % bound, S, max_rows=400,
                          expect={"range": (0, bound)}, note="300 draws below %d stay in range" % bound))
    S2 = [("in", "A", 1, 0), ("out", "Y", 8)]
    b.append(Scenario("A Y W V\ndeclare W = 0;\ndeclare V = random(%s) + Y * 0;\n0 X (random(%s)) X\n0 X (random(%s)) X\nresetRandom;\n"
                      "0 X (random(%s)) X\n0 X (random(%s)) X\n" % ((BIG,) * 5), S2, default_answer=[0],
                      expect={"replay_cols": {"W": [(2, 0), (3, 1)], "V": [(2, 0), (3, 1)]}, "distinct_cols": [("W", "V")]},
                      note="a draw inside a declared signal comes from the run's generator and is replayed after resetRandom"))
    b.append(Scenario(hdr + "0 (random(%s))\n0 (random(%s))\nresetRandom;\n0 (random(%s))\nresetRandom;\n0 (random(%s))\n0 (random(%s))\n"
                      "resetRandom;\nresetRandom;\n0 (random(%s))\n" % ((BIG,) * 6), S,
                      expect={"replay": [(2, 0), (3, 0), (4, 1), (5, 0)], "range": (0, 1 << 62)}, note="every resetRandom, also the second and third, replays from the start"))
    b.append(Scenario(hdr + "loop(k,4)\nresetRandom;\n0 (random(%s))\n0 (random(%s))\nend loop\n" % ((BIG,) * 2), S,
                      expect={"replay": [(2, 0), (3, 1), (4, 0), (5, 1), (6, 0), (7, 1)], "range": (0, 1 << 62)}, note="resetRandom in each of four loop passes"))
    # fourth round: draws in BOTH operands of every binary operator are taken left to right (the same program with the
    # draws bound to variables first gives the same value); a zero-width bits entry still evaluates - and draws - once
    for op in ("+", "-", "*", "/", "%", "<<", ">>", "&", "|", "^", "<", ">", "<=", ">=", "=", "!="):
        # the small third operand keeps comparisons and shifts informative: (p op q) alone would often be 0 / 1 either way
        e1 = "(random(%s) %s (random(%s) | 1)) * 3 + (random(1000) %s random(1000))" % (BIG, op, BIG, op)
        e2 = "(p %s (q | 1)) * 3 + (r %s t)" % (op, op)
        b.append(Scenario(hdr + "0 (%s)\nresetRandom;\nlet p = random(%s);\nlet q = random(%s);\nlet r = random(1000);\nlet t = random(1000);\n0 (%s)\n"
                          % (e1, BIG, BIG, e2), S, expect={"replay": [(1, 0)]},
                          note="both operands of `%s` draw: left operand first" % op))
    # fifth round: a bound that draws is evaluated - and draws - once per loop, not once per pass
    for head in ("loop(i, (random(%s) & 1) + 2)\n0 (random(%s))\nend loop\n" % (BIG, BIG), "repeat((random(%s) & 1) + 2) 0 (random(%s))\n" % (BIG, BIG)):
        b.append(Scenario(hdr + "let b = (random(%s) & 1) + 2;\n0 (random(%s))\n0 (random(%s))\nresetRandom;\n" % ((BIG,) * 3) + head, S,
                          expect={"replay": [(2, 0), (3, 1)]}, note="a loop / repeat bound containing random() draws once: the rows of the loop replay the draws that follow"))
    b.append(Scenario(hdr + "let b = random(%s);\n0 (random(%s))\n0 (random(%s))\n0 (random(%s))\nresetRandom;\nloop(i, 2 + 0 * random(%s))\n0 (random(%s))\nend loop\n0 (random(%s))\n" % ((BIG,) * 7), S,
                      expect={"replay": [(3, 0), (4, 1), (5, 2)]}, note="bound with a draw, two passes, then a draw after the loop"))
    b.append(Scenario(hdr + "0 (random(%s))\n0 (random(%s))\nresetRandom;\nbits(0, random(%s)) 0 (random(%s))\n" % ((BIG,) * 4), S,
                      expect={"replay": [(2, 1)]}, note="bits(0, e) fills no column but still evaluates e, and draws, once"))
    b.append(Scenario(hdr + "0 (random(%s))\n0 (random(%s))\n0 (random(%s))\nresetRandom;\nbits(0, random(%s)) bits(0, random(%s)) 0 (random(%s))\n" % ((BIG,) * 6), S,
                      expect={"replay": [(3, 2)]}, note="two zero-width bits entries draw twice"))
    return b


def random_judge_one(o, sc):
    vals = [r["outputs"][-1][1] for r in o.rows]
    e = sc.expect
    if any(i[0] == "err" for i in o.items):
        return "a row using random() is an error item (%s)" % sc.note
    lo, hi = e.get("range", (None, None))
    for v in (vals if "range" in e else []):
        try:
            iv = int(v)
        except ValueError:
            return "non-numeric value %s" % v
        if lo is not None and not (lo <= iv < hi):
            return "drawn value %d outside [%d, %d) (%s)" % (iv, lo, hi, sc.note)
    for col, pairs in e.get("replay_cols", {}).items():
        cv = [dict((n, out) for n, _, out, _, _ in r["outputs"]).get(col) for r in o.rows]
        for later, earlier in pairs:
            if later >= len(cv) or cv[later] != cv[earlier]:
                return "column %s: row %d has %s but row %d had %s: draws after resetRandom do not replay (%s)" % (
                    col, later + 1, cv[later] if later < len(cv) else None, earlier + 1, cv[earlier] if earlier < len(cv) else None, sc.note)
    for a_, b_ in e.get("distinct_cols", []):
        for r in o.rows:
            d = dict((n, out) for n, _, out, _, _ in r["outputs"])
            if d.get(a_) == d.get(b_):
                return "columns %s and %s of one row show the same draw %s: they do not share one generator (%s)" % (a_, b_, d.get(a_), sc.note)
    for later, earlier in e.get("replay", []):
        if later >= len(vals) or earlier >= len(vals):
            return "only %d rows were produced (%s)" % (len(vals), sc.note)
        if vals[later] != vals[earlier]:
            return "row %d drew %s but row %d drew %s: the draws after resetRandom do not replay the start of the run (%s)" % (
                later + 1, vals[later], earlier + 1, vals[earlier], sc.note)
    return None


random_judge = no_panic_judge(random_judge_one)


# ------------------------------------------------------------------ C18 vars()

def vars_battery():
    S = [("in", "A", 8, 0), ("out", "B", 8), ("out", "Q", 8)]
    b = []

    def sc(src, vars_, note, **kw):
        kw.setdefault("default_answer", [0, 0])
        return Scenario(src, S, show_vars=True, expect={"vars": vars_}, note=note, max_rows=50, **kw)
    b.append(sc("A B\nlet x = 5;\n1 X\nloop(i,2)\nlet y = i + 1;\n(i) X\nend loop\n2 X\n",
                [{"x": "5"}, {"x": "5", "i": "0", "y": "1"}, {"x": "5", "i": "1", "y": "2"}, {"x": "5"}], "loop scope ends"))
    b.append(sc("A B\nlet i = 3;\nloop(i,2)\n(i) X\nend loop\n(i) X\n", [{"i": "0"}, {"i": "1"}, {"i": "3"}], "shadowing and uncovering"))
    b.append(sc("A B\nlet B = 2;\nloop(k,1)\n(B) X\nend loop\n", [{"B": "2", "k": "0"}], "variable named like a device output is reported",
                default_answer=[9, 9]))
    b.append(sc("A B\nlet Q = 3;\n(Q) X\n", [{"Q": "3"}], "variable named like an output the header does not mention", default_answer=[7, 7]))
    b.append(sc("A B V\ndeclare V = 8 / B;\nlet x = 5;\n1 X X\n2 X X\n3 X X\n", [{"x": "5"}, {"x": "5"}],
                "vars survive a failed row", answers={1: [1, 0], 2: [0, 0], 3: [1, 0]}, stop_on_err=False))
    b.append(sc("A B\nlet i = 1;\nloop(i,5)\nlet i = 9223372036854775807;\n1 X\nend loop\n(i) X\n",
                [{"i": "9223372036854775807"}, {"i": "1"}], "counter driven to i64::MAX: the frame is still popped"))
    b.append(sc("A B\nlet i = 7;\nloop(i,2)\nloop(j,2)\n1 X\nend loop\nend loop\n",
                [{"i": "0", "j": "0"}, {"i": "0", "j": "1"}, {"i": "1", "j": "0"}, {"i": "1", "j": "1"}],
                "a name re-bound below the innermost frame: the innermost of the outer bindings is reported"))
    b.append(sc("A B\nlet x = 1;\nloop(a,1)\nlet x = 2;\nloop(b,1)\nlet x = 3;\nloop(c,1)\n1 X\nend loop\n2 X\nend loop\n3 X\nend loop\n4 X\n",
                [{"x": "3", "a": "0", "b": "0", "c": "0"}, {"x": "3", "a": "0", "b": "0"}, {"x": "2", "a": "0"}, {"x": "1"}],
                "three nested re-bindings uncover one by one"))
    b.append(sc("A B\nlet x = 1;\nloop(a,1)\nlet x = 2;\nloop(b,1)\n(x) X\nend loop\n(x) X\nend loop\n(x) X\n",
                [{"x": "2", "a": "0", "b": "0"}, {"x": "2", "a": "0"}, {"x": "1"}],
                "a name bound in two enclosing scopes, read in a third that does not bind it: the inner of the two wins"))
    b.append(sc("A B\nlet x = 1;\nlet y = 1;\nloop(a,1)\nlet x = 2;\nloop(b,1)\nlet y = 3;\nlet x = 4;\nloop(c,1)\nloop(d,1)\n(x+y) X\nend loop\nend loop\nend loop\nend loop\n",
                [{"x": "4", "y": "3", "a": "0", "b": "0", "c": "0", "d": "0"}],
                "names bound in three enclosing scopes below two scopes that bind nothing"))
    Sn = [("in", "A", 8, 0), ("out", "B", 8), ("out", "Q", 8), ("out", "n", 8)]
    b.append(Scenario("A B\nlet Q = 0;\n(Q) X\nrepeat(2) (n) X\nlet B = 7;\n(B) X\n", Sn, show_vars=True, default_answer=[7, 0, 0], max_rows=50,
                      expect={"vars": [{"Q": "0"}, {"Q": "0", "n": "0"}, {"Q": "0", "n": "1"}, {"Q": "0", "B": "7"}]},
                      note="variables bound to the very value the device reports for an output of their name are still variables"))
    b.append(sc("A B\nlet k = 0;\nloop(i,2)\nloop(z,k)\n9 X\nend loop\n(i) X\nend loop\n5 X\n",
                [{"k": "0", "i": "0"}, {"k": "0", "i": "1"}, {"k": "0"}],
                "zero-trip loop inside a loop leaves the outer frame to the outer loop"))
    b.append(sc("A B\nloop(a,2)\nloop(b,2)\n1 X\nend loop\n2 X\nend loop\n",
                [{"a": "0", "b": "0"}, {"a": "0", "b": "1"}, {"a": "0"}, {"a": "1", "b": "0"}, {"a": "1", "b": "1"}, {"a": "1"}],
                "inner counter disappears with the inner loop"))
    return b


vars_judge = literal_judge


# ------------------------------------------------------------------ C12 malformed programs

def malformed_battery():
    bad = [
        ("A B\nloop(n,3)\n1 1", "block open at EOF without newline"),
        ("A B\nloop(n,3)\n1 1\n", "block open at EOF with newline"),
        ("A B\nwhile(1)\n1 1", "while open at EOF without newline"),
        ("A B\nloop(n,3)\nlet x = 1;", "block open at EOF after a let"),
        ("A B\nloop(n,3)\nloop(k,2)\n1 1\nend loop", "outer block open at EOF"),
        ("A B\nloop(n,3)\n1 1\nend while\n", "loop closed by end while"),
        ("A B\nwhile(1)\n1 1\nend loop\n", "while closed by end loop"),
        ("A B\nloop(i,2)\nwhile(1)\n1 1\nend loop\nend loop\n", "inner while closed by end loop"),
        ("A B\nwhile(1)\nloop(i,2)\n1 1\nend while\nend while\n", "inner loop closed by end while"),
        ("A B\n1 1\nend loop\n", "end at top level"),
        ("A B\n1\n", "too few entries"),
        ("A B\n1 1 1\n", "too many entries"),
        ("A B\n1 1 C\n", "too many entries, surplus C"),
        ("A B\nbits(3,1)\n", "bits wider than the header"),
        ("A B\nlet x = 1\n1 1\n", "missing semicolon"),
        ("A B\nloop(i,2\n1 1\nend loop\n", "missing closing parenthesis"),
        ("A B\nloop(i 2)\n1 1\nend loop\n", "missing comma"),
        ("A B\n(foo(1)) 1\n", "unknown function"),
        ("A B\n(ite(1,2)) 1\n", "wrong number of arguments"),
        ("A B\n(random(1,2)) 1\n", "wrong number of arguments for random"),
        ("A B\n9223372036854775808 1\n", "literal does not fit in 64 bits"),
        ("A B\n0x10000000000000000 1\n", "hex literal does not fit"),
        ("A B\n(1) + (0) 1\n", "binary operator between two parenthesised row entries"),
        ("A B\n(1) - 1 0\n", "binary operator after a parenthesised row entry"),
        ("A B\n(1) & (1)\n", "operator joining two entries into one (row then too short)"),
        ("A B C\n(1) * (2) (3) 4\n", "operator between entries, three columns"),
        ("A B\n(Random(4)) 1\n", "function name in the wrong case: Random"),
        ("A B\n(ITE(1,0,1)) 1\n", "function name in the wrong case: ITE"),
        ("A B\n(signext(4,1)) 1\n", "function name in the wrong case: signext"),
        ("A B\nlet v = iTe(1, 2, 3);\n1 1\n", "function name in mixed case in a let"),
        ("A B\nloop(i,2)\nlet n = 0;\nwhile(n < 2)\nlet n = n + 1;\n1 1\nend loop\nend while\n", "crossed terminators: loop closed inside the while"),
        ("A B\nlet n = 0;\nwhile(n < 1)\nloop(i,2)\nlet n = n + 1;\n1 1\nend while\nend loop\n", "crossed terminators: while closed inside the loop"),
        ("A B\nloop(i,2)\nwhile(0)\n1 1\nend loop\nend while", "crossed terminators, no trailing newline"),
        ("A B\nloop(i,1)\nwhile(0)\nloop(j,1)\n1 1\nend loop\nend loop\nend while\n", "crossed terminators three deep"),
        ("A B\n0b1%s 1\n" % ("0" * 64), "binary literal of 65 digits does not fit"),
        ("A B\n1 0B1%s\n" % ("0" * 63), "binary literal 2^63 does not fit"),
        ("A B\n1 (0b1%s)\n" % ("01" * 40), "long binary literal in an expression"),
        ("A B\nlet v = 0b%s;\n1 1\n" % ("1" * 64), "binary literal of 64 ones in a let"),
        ("A B\nloop(i, 0b1%s)\n1 1\nend loop\n" % ("0" * 70), "oversized binary loop bound"),
        ("A B\n02000000000000000000000 1\n", "octal literal 2^64 does not fit"),
        ("A B\n1 01000000000000000000000\n", "octal literal 2^63 does not fit"),
        ("A B\n0X8000000000000000 1\n", "hex literal 2^63 does not fit"),
        ("A B\n1 18446744073709551616\n", "decimal literal 2^64 does not fit"),
        ("A B\nbits(0b1%s, 1) 1\n" % ("0" * 64), "oversized binary bits width"),
        ("A B\nbits(65,1)\n", "bits width 65"),
        ("A B\nbits(255,1)\n", "bits width 255"),
        ("A B\nbits(258,3)\n", "bits width 258 (low byte 2)"),
        ("A B\nbits(1026,3)\n", "bits width 1026 (low byte 2)"),
        ("A A\n1 1\n", "adjacent duplicate header names"),
        ("A B A\n1 1 1\n", "separated duplicate header names"),
        ("CLK D Q CLK\n1 1 1 1\n", "separated duplicate header names (4)"),
        ("A B\ndeclare V = 1;\ndeclare V = 2;\n1 1\n", "duplicate declare"),
        ("A B\ndeclare V = 1;\ndeclare V = 1;\n1 1\n", "duplicate declare with the same expression"),
        ("A B\ndeclare V = (A+1);\ndeclare V = A + 0x1;\n1 1\n", "duplicate declare with an equal expression spelled differently"),
        ("A B\nloop(i,2)\ndeclare W = A;\n1 1\nend loop\ndeclare W = A;\n", "duplicate declare, one of them in a loop body"),
        ("A B", "header not followed by a line break"),
        ("A B\nloop(i,2)", "truncated after a loop header"),
        ("A B\nwhile(1)", "truncated after a while header"),
        ("A B\nlet x =", "truncated inside a let"),
        ("A B\n(1 +", "truncated inside an expression"),
        ("A B\n1 1 end loop\n", "end in a row"),
        # second round: blocks cut off after blank / comment-only lines; duplicates around unsorted names
        ("A B\nloop(i,2)\n(i) 0\n\n", "block open at EOF after a blank line"),
        ("A B\nloop(i,2)\n(i) 0\n\n\n", "block open at EOF after two blank lines"),
        ("A B\nloop(i,2)\n1 1\n# c\n", "block open at EOF after a comment-only line"),
        ("A B\nwhile(1)\n1 1\n \t\n", "while open at EOF after a whitespace-only line"),
        ("A B\nloop(i,2)\n\n", "loop header followed only by a blank line"),
        ("A B\nloop(i,2)\nloop(k,2)\n1 1\nend loop\n\n", "outer block open at EOF after a blank line"),
        ("B A B\n1 1 1\n", "duplicate header name around a smaller one"),
        ("A B D C D\n1 1 1 1 1\n", "duplicate header name after an unsorted pair"),
        ("CLK A B Y CLK\n1 1 1 1 1\n", "duplicate first and last header name"),
        ("Z A B C D E F Z\n1 1 1 1 1 1 1 1\n", "duplicate header name, eight columns"),
        ("b a c b\n1 1 1 1\n", "duplicate lower-case header name, unsorted"),
    ]
    good = [
        ("A B\n1 1", "valid, no trailing newline"),
        ("A B\nloop(i,2)\n1 1\nend loop", "valid loop, no trailing newline"),
        ("A B\nloop(i,2)\nwhile(0)\n1 1\nend while\nend loop\n", "valid nesting"),
        ("A B\nbits(2,3)\nbits(1,0) 1\n", "valid bits"),
        ("A B\nrepeat(2) 1 1\n", "valid repeat"),
        ("A B C\nbits(64, 0-1) \n", "bits(64) is allowed... but needs 64 columns"),
    ]
    out = []
    for src, note in bad:
        out.append(Scenario(src, [], mode="parse", expect={"parse": "err"}, note=note))
    for src, note in good[:5]:
        out.append(Scenario(src, [], mode="parse", expect={"parse": "ok"}, note=note))
    return out


malformed_judge = literal_judge


# ------------------------------------------------------------------ C19 line numbers

def lines_battery():
    S = [("in", "A", 1, 0), ("in", "CLK", 1, 0), ("out", "Y", 8)]
    b = []

    def sc(src, lines, note, **kw):
        kw.setdefault("default_answer", [0])
        return Scenario(src, S, expect={"lines": lines}, note=note, max_rows=100, **kw)
    b.append(sc("A Y\n0 X\n\n1 X\n# c\n0 X\n", [2, 4, 6], "blank and comment lines"))
    b.append(sc("\n\nA Y\n0 X\n1 X\n", [4, 5], "blank lines before the header"))
    b.append(sc("\r\n\r\nA Y\r\n0 X\r\n\r\n1 X\r\n", [4, 6], "CRLF with leading blank lines"))
    b.append(sc("\r\nA Y\r\n0 X\r\n1 X\r\n", [3, 4], "CRLF with one leading blank line"))
    # fourth round: header names of multi-byte characters (byte offsets and character counts differ), then blank /
    # short lines
    for names, sigs_ in ((("\u00c4", "\u0178"), None), (("Gr\u00f6\u00dfe", "\u00acQ"), None), (("\u4fe1\u53f7\u5165", "\u4fe1\u53f7\u51fa"), None),
                         (("a\u0305", "Q\u0305\u0305\u0305\u0305"), None)):
        Sn = [("in", names[0], 1, 0), ("out", names[1], 8)]
        hdr_ = "%s %s" % names
        b.append(Scenario(hdr_ + "\n\n\n0 X\n1 X\n", Sn, default_answer=[0], expect={"lines": [4, 5]}, max_rows=100,
                          note="multi-byte header names, blank lines after the header"))
        b.append(Scenario(hdr_ + "\n0 X\n\n1 X\n#\n\n0 X\n", Sn, default_answer=[0], expect={"lines": [2, 4, 7]}, max_rows=100,
                          note="multi-byte header names, short rows and comments"))
        b.append(Scenario("\n" + hdr_ + "\r\n\r\n\r\n\r\n0 X\r\n", Sn, default_answer=[0], expect={"lines": [6]}, max_rows=100,
                          note="multi-byte header names, CRLF blank lines"))
    b.append(sc("A Y\nloop(i,2)\n\n0 X\nend loop\n1 X\n", [4, 4, 6], "blank line below a loop header"))
    b.append(sc("A Y\nloop(i,2)\n# one\n# two\nloop(j,1)\n\n0 X\nend loop\nend loop\n", [7, 7], "comments below nested loop headers"))
    b.append(sc("A Y\r\nlet k = 0;\r\nwhile(k < 2)\r\n\r\nlet k = k + 1;\r\n0 X\r\nend while\r\n1 X\r\n", [6, 6, 8], "CRLF while with a blank line"))
    b.append(sc("CLK Y\nC 1\n0 X\n\nC 2\n", [2, 2, 2, 3, 5, 5, 5], "two clocked rows on different lines"))
    b.append(sc("A Y\nX 1\nrepeat(2) 0 X\n1 X", [2, 2, 3, 3, 4], "X expansion, repeat, last line without newline"))
    b.append(sc("A Y\n0 X # trailing comment\n# a\n# b\n# c\n1 X\n", [2, 6], "comment block"))
    # third round: identical rows on different lines; rows beyond line 65535
    b.append(sc("A Y\n0 X\n0 X\n0 X\n\n0 X\n", [2, 3, 4, 6], "identical rows on consecutive lines keep their own lines"))
    b.append(sc("A Y\nloop(i,2)\n1 X\nend loop\n1 X\nX 1\n1 1\n", [3, 3, 5, 6, 6, 7], "a row equal to the last loop row / last expansion"))
    b.append(sc("A Y\n0 X\n" + "\n" * 65600 + "1 X\nrepeat(2) 0 X\n" + "# c\n" * 4500 + "1 X\n", [2, 65603, 65604, 65604, 70105],
                "rows beyond line 65535"))
    return b


lines_judge = literal_judge


# ------------------------------------------------------------------ C11 binding

def bind_battery():
    S = [("in", "A", 1, 0), ("in", "CLK", 1, 0), ("out", "Y", 8), ("out", "Q", 8), ("bidir", "D", 8, "Z")]
    b = []

    def sc(src, want, note, sigs=S, then_run=True):
        return Scenario(src, sigs, mode="run" if (want == "ok" and then_run) else "bind", default_answer=[0, 0, 0],
                        expect={"bind": want}, note=note, max_rows=50)
    b.append(sc("A Y\n0 1\n", "ok", "plain"))
    b.append(sc("A Z9\n0 1\n", "err", "unknown header column"))
    b.append(sc("A D D_out\n0 1 2\n", "ok", "bidirectional pair"))
    b.append(sc("A D_out_out\n0 1\n", "err", "repeated _out suffix is not a column of D"))
    b.append(sc("A A_out\n0 1\n", "err", "_out of a plain input"))
    b.append(sc("P_out P_out_out\n1 2\n", "ok", "bidirectional signal literally named P_out", sigs=[("bidir", "P_out", 8, 0)]))
    b.append(sc("CLK Y\nC 1\n", "ok", "C on an input"))
    b.append(sc("A Y\n0 C\n", "err", "C on an output"))
    b.append(sc("D1 D0 CLK Q\nbits(2,3) C 1\n", "err", "C after bits() lands on an output column",
                sigs=[("in", "D1", 1, 0), ("in", "D0", 1, 0), ("out", "CLK", 1), ("out", "Q", 8)]))
    b.append(sc("Q1 Q0 CLK\nbits(2,0) C\n", "ok", "C after bits() lands on an input column",
                sigs=[("out", "Q1", 1), ("out", "Q0", 1), ("in", "CLK", 1, 0)]))
    b.append(sc("A Y\n(Q) X\n", "ok", "reads an output"))
    b.append(sc("A Y\n(A) X\n", "err", "reads an input"))
    b.append(sc("A Y\n(nope) X\n", "err", "reads an unknown name"))
    b.append(sc("A Y\nloop(i,2)\n(i) X\nend loop\n(i) X\n", "err", "loop variable read after the loop"))
    b.append(sc("A Y\nloop(i,2)\n(i) X\nend loop\nlet i = 1;\n(i) X\n", "ok", "loop variable name rebound after the loop"))
    b.append(sc("A Y\nrepeat(2) (n) X\n(n) X\n", "err", "repeat counter read after the repeat"))
    b.append(sc("A Y\nlet k = 0;\nwhile(k < 1)\nlet k = k + 1;\nlet w = 5;\n(k) X\nend while\n(w) X\n", "ok", "variable bound inside a while is known afterwards"))
    b.append(sc("A Y\nlet Q = Q + 1;\n(Q) X\n", "ok", "self-referential let reads the output Q"))
    b.append(sc("A Y\nlet m = m + 1;\n(m) X\n", "err", "self-referential let of an unknown name"))
    b.append(sc("A Y V\ndeclare V = Q;\nlet Q = 1;\n0 X X\n", "ok", "declare sees signals, not variables"))
    b.append(sc("A Y V\nlet v = 1;\ndeclare V = v;\n0 X X\n", "err", "declare cannot see variables"))
    b.append(sc("A Y\n0 1\n", "err", "duplicate signal names", sigs=[("in", "A", 1, 0), ("out", "Y", 8), ("out", "Y", 4)]))
    b.append(sc("A Y\ndeclare Y = 1;\n0 1\n", "err", "virtual signal named like a real one"))
    # fourth round: a header column claimed by two signals (the read-back column of a bidirectional signal and a pin of
    # that very name) next to columns that name nothing: the number of bindings says nothing about which columns are bound
    Sdup = [("bidir", "A", 4, "Z"), ("out", "A_out", 4), ("in", "B", 1, 0)]
    b.append(sc("A A_out ZZ\n1 2 3\n", "err", "column bound twice next to a column that names no signal", sigs=Sdup))
    b.append(sc("A_out ZZ\n2 3\n", "err", "doubly bound column and an unknown one, two columns", sigs=Sdup))
    b.append(sc("B A A_out Q9\n0 1 2 3\n", "err", "doubly bound column, unknown column last", sigs=Sdup))
    b.append(sc("Q9 B A_out\n3 0 2\n", "err", "unknown column first, doubly bound column last", sigs=Sdup))
    b.append(sc("A A_out B\n1 2 0\n", "ok", "column bound twice, every column names a signal", sigs=Sdup, then_run=False))
    Sdup2 = [("bidir", "A", 4, "Z"), ("in", "A_out", 4, 0), ("bidir", "C", 2, "Z"), ("in", "C_out", 2, 0)]
    b.append(sc("A_out C_out U1 U2\n1 2 3 4\n", "err", "two doubly bound columns and two unknown ones", sigs=Sdup2))
    # eighth round: an outer variable shadowed inside a block is known again after the block
    b.append(sc("A Y\nlet n = 5;\nrepeat(2) (n) X\n(n) X\n", "ok", "outer n shadowed by a repeat counter and read afterwards"))
    b.append(sc("A Y\nlet i = 1;\nloop(i, 2)\n(i) X\nend loop\n(i + 1) X\n", "ok", "outer i shadowed by a loop counter and read afterwards"))
    b.append(sc("A Y\nlet v = 1;\nloop(k, 2)\nlet v = 2;\nloop(j, 1)\nlet v = 3;\n(v) X\nend loop\n(v) X\nend loop\n(v) X\n", "ok", "v re-bound at two loop levels and read after each"))
    # seventh round: `<name>_out` is the read-back COLUMN of a bidirectional signal - not a clock column, not an identifier,
    # and no alias for the column of a plain output or a declared signal
    Sbi = [("bidir", "A", 4, "Z"), ("in", "CLK", 1, 0), ("out", "Y", 8)]
    b.append(sc("A A_out Y\n1 C X\n", "err", "C in the read-back column of a bidirectional signal", sigs=Sbi))
    b.append(sc("CLK A_out\nC C\n", "err", "C in a read-back column next to a real clock", sigs=Sbi))
    b.append(sc("A Y\n(A_out) X\n", "err", "an expression reads `A_out` (no such signal, no such variable)", sigs=Sbi))
    b.append(sc("A Y\nlet t = A_out + 1;\n(t) X\n", "err", "a let reads `A_out`", sigs=Sbi))
    b.append(sc("A A_out Y\n1 X X\n", "ok", "plain use of the bidirectional pair", sigs=Sbi))
    # third round: a declared (virtual) signal is not something an expression can read
    b.append(sc("A Y V\ndeclare V = Q + 1;\n(V) X X\n", "err", "a row entry reads a declared signal"))
    b.append(sc("A Y\ndeclare V = Q;\nlet t = V + 1;\n(t) X\n", "err", "a let reads a declared signal"))
    b.append(sc("A Y V W\ndeclare V = Q;\ndeclare W = V + 1;\n0 X X X\n", "err", "a declaration reads another declared signal"))
    b.append(sc("A Y\ndeclare V = Q;\nlet V = 2;\n(V) X\n", "ok", "a variable named like a declared signal is a variable"))
    # ninth round: the bound of a loop / repeat is parsed OUTSIDE the scope it opens: a bound that names the statement's own
    # counter reads a signal (or an outer variable) of that name, and is an error when there is none
    b.append(sc("A Y\nloop(k, k + 2)\n(k) X\nend loop\n", "err", "loop bound names its own counter, no such signal"))
    b.append(sc("A Y\nloop(Q, Q + 2)\n(Q) X\nend loop\n", "ok", "loop bound names its own counter, an output of that name exists"))
    b.append(sc("A Y\nlet k = 2;\nloop(k, k)\n(k) X\nend loop\n", "ok", "loop bound names its own counter, an outer variable of that name exists"))
    b.append(sc("A Y\nrepeat(n + 1) (n) X\n", "err", "repeat bound names the implicit counter n, no such signal"))
    b.append(sc("A Y\nloop(i, 2)\nloop(j, j + 1)\n(j) X\nend loop\nend loop\n", "err", "inner loop bound names its own counter, no such signal"))
    b.append(sc("A Y\nloop(i, 2)\nloop(j, i + 1)\n(j) X\nend loop\nend loop\n", "ok", "inner loop bound names the outer counter"))
    return b


def bind_judge_one(o, sc):
    w = literal_judge_one(o, sc)
    if w:
        return w
    if sc.expect.get("bind") == "ok" and sc.mode == "run":
        # a test accepted this way can always be iterated: nothing later is a header/program/signal mismatch
        if not o.ok("NEW"):
            return "an accepted test cannot be iterated: %s (%s)" % (o.stage.get("NEW"), sc.note)
        for it in o.items:
            if it[0] == "err" and ("not been assigned" in it[2] or "Variable" in it[2]):
                return "an accepted test fails at run time with a scoping error: %s (%s)" % (it[2][:80], sc.note)
    return None


bind_judge = no_panic_judge(bind_judge_one)


# ------------------------------------------------------------------ C15 determinism / static == dynamic

def static_battery():
    S = [("in", "A", 8, 0), ("in", "CLK", 1, 0), ("out", "Y", 8), ("out", "Q", 8)]
    b = []
    prog = "A CLK Y Q\nlet v = 2;\n1 0 3 X\n(v) C X 4\nloop(i,2)\n(i) X (i) Z\nend loop\n"
    b.append(Scenario(prog, S, mode="both", default_answer=[3, 4], expect={"static": "ok"}, note="static then dynamic on the same test"))
    b.append(Scenario(prog, S, mode="both", default_answer=["Z", -1], layout=["Q", "Y"], expect={"static": "ok"},
                      note="static then dynamic, driver with another layout and odd values"))
    b.append(Scenario(prog, S, mode="both", default_answer=[1], layout=["Y"], expect={"static": "ok"}, note="static then dynamic, subset layout"))
    b.append(Scenario(prog, S, mode="both", default_answer=[3, 4], layout_at={2: ["Q", "Y"], 5: ["Q", "Y"]}, stop_on_err=False,
                      expect={"static": "ok", "faulty_calls": [2, 5]}, note="driver glitches twice: the other rows equal the static rows"))
    b.append(Scenario("A Y\nlet Q = Q + 1;\n(Q) X\n", S, mode="both", default_answer=[0, 6], expect={"static": "err"},
                      note="a program that reads an output is not static"))
    b.append(Scenario("A Y\n(Y) X\n", S, mode="both", default_answer=[1, 0], expect={"static": "err"}, note="reads an output in a row"))
    b.append(Scenario("A Y\nloop(i, Q)\n1 X\nend loop\n", S, mode="both", default_answer=[0, 2], expect={"static": "err"}, note="reads an output in a loop bound"))
    # second round: a name that was a loop counter is an output read again after the loop; iterators abandoned half-way
    b.append(Scenario("A Y\nloop(Q,2)\n1 X\nend loop\n(Q+1) X\n", S, mode="both", default_answer=[0, 6], expect={"static": "err"},
                      note="an output read after a loop whose counter had the same name"))
    b.append(Scenario("A Y\nloop(i,2)\nlet Q = 1;\n1 X\nend loop\n(Q+1) X\n", S, mode="both", default_answer=[0, 6], expect={"static": "err"},
                      note="an output read after a loop in which a variable had the same name"))
    b.append(Scenario("A Y\nrepeat(2) 1 X\n(n) X\n", S + [("out", "n", 8)], mode="both", default_answer=[0, 6, 2], expect={"static": "err"},
                      note="an output named n read after a repeat"))
    b.append(Scenario("A Y\nlet Q = 1;\nloop(Y,2)\n(Q+Y) X\nend loop\nrepeat(2) (n+Q) X\n", S + [("out", "n", 8)], mode="both",
                      default_answer=[40, 50, 60], expect={"static": "ok"},
                      note="variables and counters named like outputs the driver supplies: static and dynamic rows agree"))
    for k in (1, 2, 4):
        b.append(Scenario(prog, S, mode="both", default_answer=[3, 4], abandon=k, expect={"static": "ok"},
                          note="another iterator over the same test is dropped after %d rows first" % k))
    b.append(Scenario("A CLK Y Q\nX C 1 2\n", S, mode="both", default_answer=[1, 2], abandon=2, expect={"static": "ok"},
                      note="an iterator dropped in the middle of an X / C expansion leaves nothing behind"))
    # eighth round: several outputs read for the first time in one expression: repeated parses agree
    S6 = [("in", "A", 8, 0)] + [("out", "Q%d" % i, 8) for i in range(6)]
    b.append(Scenario("A Q0\n(Q0 + Q5 + Q3 + Q1 + Q4 + Q2) X\nlet t = Q4 * Q2 - Q0;\n(t) X\n", S6, mode="both", default_answer=[1] * 6, repeat_parse=40,
                      expect={"static": "err", "reparse": True}, note="six outputs first read in one expression: repeated parses give equal tests"))
    # eighth round: a repeat bound naming the device output n is an output read (the counter does not exist yet)
    b.append(Scenario("A Y\nrepeat(n + 1) (n) X\n", S + [("out", "n", 8)], mode="both", default_answer=[0, 0, 2], expect={"static": "err"},
                      note="repeat bound reads the output n"))
    b.append(Scenario("A Y K M\ndeclare K = 2 + 3;\ndeclare M = K * 0 + 7;\n1 X 5 X\n" if False else "A Y K\ndeclare K = 2 + 3;\n1 X 5\n0 X X\n", S, mode="both",
                      default_answer=[3, 4], expect={"static": "ok"}, note="a declared signal that reads no output is an expected column of the static rows too"))
    # seventh round: a variable first bound inside a while body, named like an output, used after the while: no output read
    b.append(Scenario("A Y\nlet k = 0;\nwhile(k < 2)\nlet k = k + 1;\nlet Q = k + 5;\n(Q) X\nend while\n(Q) X\n", S, mode="both",
                      default_answer=[40, 50], expect={"static": "ok"}, note="a variable first bound in a while body and named like an output is still a variable after the while"))
    # fifth round: the same TestCase value iterated before by drivers with other output layouts (same length, another
    # order; a subset; nothing) - the observed run equals the static rows all the same
    for pre in ([["Q", "Y"]], [["Y"], ["Q"]], [[], ["Q", "Y"]], [["Y", "Q"], ["Q", "Y"], ["Q"]]):
        b.append(Scenario(prog, S, mode="both", default_answer=[3, 4], layout=["Y", "Q"], pre_layouts=pre, expect={"static": "ok"},
                          note="the test case was run before by drivers with layouts %s" % pre))
        b.append(Scenario(prog, S, mode="both", default_answer=[4], layout=["Q"], pre_layouts=pre, expect={"static": "ok"},
                          note="observed driver supplies only Q; earlier drivers had layouts %s" % pre))
    # fourth round: what a fault leaves behind.  Rows after a failed call (driver error, wrong count, wrong order) equal
    # the static rows - values, changed flags and lines - also where variables shadow device outputs
    progv = "A CLK Y Q\nlet Q = 7;\nlet Y = 1;\n1 0 X X\n(Q+2) 0 X X\n(Q+2) 0 X X\nloop(i,2)\n(Q+Y+i) 0 X X\nend loop\n(Q+2) C X X\n"
    for k in (1, 2, 3):
        b.append(Scenario(progv, S, mode="both", default_answer=[50, 60], fail_at=[k], stop_on_err=False,
                          expect={"static": "ok", "faulty_calls": [k]}, note="driver error at call %d: later rows equal the static rows" % k))
        for dev, lay in (("one output fewer", ["Y"]), ("one output more", ["Y", "Q", "Y"]), ("no outputs", []), ("swapped", ["Q", "Y"])):
            b.append(Scenario(progv, S, mode="both", default_answer=[50, 60], layout=["Y", "Q"], layout_at={k: lay}, stop_on_err=False,
                              expect={"static": "ok", "faulty_calls": [k]},
                              note="%s at call %d: variables that shadow outputs stay visible, flags and rows equal the static run" % (dev, k)))
    decl = "A Y V1 V2 V3 V4 V5\n" + "".join("declare V%d = Y + %d;\n" % (k, k) for k in (3, 1, 5, 2, 4)) + "1 X 1 2 3 4 5\n"
    b.append(Scenario(decl, S, mode="both", default_answer=[0, 0], repeat_parse=40, expect={"static": "err", "reparse": True},
                      note="five declarations: repeated parses give equal tests"))
    return b


def static_judge_one(o, sc):
    e = sc.expect
    if any(l.startswith("REPARSE differs") for l in o.lines):
        return "parsing the same text again gives a different test (%s)" % sc.note
    st = o.stage.get("STATIC", ("missing", ""))[0]
    if e.get("static") and st != e["static"]:
        return "try_iter_static is %s, expected %s (%s)" % (st, e["static"], sc.note)
    if e.get("static") == "ok":
        srows = o.srows
        rows = [r for r in o.rows]
        faulty = set(e.get("faulty_calls", []))
        # dynamic rows (excluding the rows whose call glitched) must equal the static rows at the same position
        items = [it for it in o.items if it[0] in ("row", "err")]
        if len(items) != len(srows) and not any(l.startswith("TRUNC") for l in o.lines):
            return "dynamic run yields %d items, static run %d rows (%s)" % (len(items), len(srows), sc.note)
        for k, it in enumerate(items):
            if it[0] == "err":
                if not faulty:
                    return "dynamic run has an error item where the static run has a row (%s): %s" % (sc.note, it[2][:80])
                continue
            row = it[1]
            s = srows[k]
            if row["line"] != s["line"] or row["inputs"] != s["inputs"]:
                return "row %d differs between the static and the dynamic run: %s vs %s (%s)" % (k + 1, row["inputs"], s["inputs"], sc.note)
            if row["outputs"] and [(n, x) for n, x, _, _, _ in row["outputs"]] != [(n, x) for n, x in s["expected"]]:
                return "expected values of row %d differ between the static and the dynamic run (%s)" % (k + 1, sc.note)
    return None


static_judge = no_panic_judge(static_judge_one)


# ------------------------------------------------------------------ C16 .dig documents

def xml_escape(s):
    # a carriage return survives XML parsing only as a character reference (a literal CR is normalised to LF)
    return s.replace("&", "&amp;").replace("<", "&lt;").replace(">", "&gt;").replace("\r", "&#xd;")


def dig_xml(pins, tests, label_first=True):
    """pins: (kind In|Out|Clock, label, bits|None, default (int|'Z'|None)); tests: (label|None, source)."""
    out = ['<?xml version="1.0" encoding="utf-8"?>', "<circuit>", "<version>1</version>", "<attributes/>", "<visualElements>"]
    for kind, label, bits, default in pins:
        ents = []
        lab = "<entry><string>Label</string><string>%s</string></entry>" % xml_escape(label) if label is not None else ""
        if bits is not None:
            ents.append("<entry><string>Bits</string><int>%d</int></entry>" % bits)
        if default is not None:
            if default == "Z":
                ents.append('<entry><string>InDefault</string><value v="0" z="true"/></entry>')
            else:
                ents.append('<entry><string>InDefault</string><value v="%d" z="false"/></entry>' % default)
        ents = ([lab] + ents) if label_first else (ents + [lab])
        out.append("<visualElement><elementName>%s</elementName><elementAttributes>%s</elementAttributes><pos x=\"0\" y=\"0\"/></visualElement>"
                   % (kind, "".join(ents)))
    for label, src in tests:
        lab = "<entry><string>Label</string><string>%s</string></entry>" % xml_escape(label) if label is not None else ""
        data = "<entry><string>Testdata</string><testData><dataString>%s</dataString></testData></entry>" % xml_escape(src)
        ents = [lab, data] if label_first else [data, lab]
        out.append("<visualElement><elementName>Testcase</elementName><elementAttributes>%s</elementAttributes><pos x=\"0\" y=\"0\"/></visualElement>"
                   % "".join(ents))
    out += ["</visualElements>", "<wires/>", "</circuit>"]
    return "\n".join(out)


def dig_battery():
    b = []
    pins = [("In", "A", 4, 3), ("In", "B", None, None), ("Clock", "CLK", None, None), ("In", "D", 8, "Z"), ("Out", "Y", 8, None), ("Out", "Q", None, None)]
    sigs = ["A:4:in:3", "B:1:in:0", "CLK:1:in:0", "D:8:in:Z", "Y:8:out", "Q:1:out"]
    t1 = ("first", "A B Y\n1 0 1\n")
    t2 = ("second", "A Y\n2 2\n3 3\n")
    b.append(Scenario(dig_xml(pins, [t1, t2]), [], mode="dig", load="0", default_answer=[0, 0],
                      expect={"dig": "ok", "signals": sigs, "tests": [t1, t2], "load": "ok", "row_inputs": [["1", "0", "0", "Z"]]},
                      note="two tests, load by index"))
    b.append(Scenario(dig_xml(pins, [t1, t2]), [], mode="dig", load="name:" + "second".encode().hex(), default_answer=[0, 0],
                      expect={"dig": "ok", "load": "ok", "row_inputs": [["2", "0", "0", "Z"], ["3", "0", "0", "Z"]]}, note="load by name"))
    b.append(Scenario(dig_xml(pins, [("same", "A Y\n1 1\n"), ("same", "A Y\n2 2\n")]), [], mode="dig",
                      load="name:" + "same".encode().hex(), default_answer=[0, 0],
                      expect={"dig": "ok", "load": "ok", "row_inputs": [["1", "0", "0", "Z"]]}, note="repeated label selects the first test"))
    b.append(Scenario(dig_xml(pins, [(None, "A Y\n1 1\n"), (None, "A Y\n2 2\n")]), [], mode="dig",
                      load="name:" + "(unnamed)".encode().hex(), default_answer=[0, 0],
                      expect={"dig": "ok", "load": "ok", "row_inputs": [["1", "0", "0", "Z"]]}, note="unlabelled tests share a name; first wins"))
    b.append(Scenario(dig_xml(pins, [t1]), [], mode="dig", load="5", expect={"dig": "ok", "load": "err"}, note="index out of range"))
    b.append(Scenario(dig_xml(pins, [t1]), [], mode="dig", load="name:" + "nope".encode().hex(), expect={"dig": "ok", "load": "err"}, note="unknown name"))
    bd1 = ("rb", "D D_out Y\n1 X 1\n")
    bd2 = ("plain", "A Y\n1 1\n")
    sigs_b = ["A:4:in:3", "B:1:in:0", "CLK:1:in:0", "D:8:bidir:Z", "Y:8:out", "Q:1:out"]
    b.append(Scenario(dig_xml(pins, [bd1, bd2]), [], mode="dig", load="0", default_answer=[0, 0, 0],
                      expect={"dig": "ok", "signals": sigs_b, "load": "ok"}, note="_out column in an earlier test makes the pin bidirectional"))
    b.append(Scenario(dig_xml(pins, [bd2, bd1]), [], mode="dig", load="1", default_answer=[0, 0, 0],
                      expect={"dig": "ok", "signals": sigs_b, "load": "ok"}, note="_out column in the last test"))
    odd = [("In", "Bits", 4, 2), ("In", "InDefault", 2, "Z"), ("Out", "Label", 3, None)]
    b.append(Scenario(dig_xml(odd, [("Testdata", "Bits Label\n1 1\n")], label_first=True), [], mode="dig", load="0", default_answer=[0],
                      expect={"dig": "ok", "signals": ["Bits:4:in:2", "InDefault:2:in:Z", "Label:3:out"], "tests": [("Testdata", "Bits Label\n1 1\n")], "load": "ok"},
                      note="labels that spell attribute keys, label entry first"))
    b.append(Scenario(dig_xml(odd, [("Testdata", "Bits Label\n1 1\n")], label_first=False), [], mode="dig", load="0", default_answer=[0],
                      expect={"dig": "ok", "signals": ["Bits:4:in:2", "InDefault:2:in:Z", "Label:3:out"], "load": "ok"},
                      note="labels that spell attribute keys, label entry last"))
    b.append(Scenario(dig_xml(pins, [("t", "A X_out Y\n1 1 1\n")]), [], mode="dig", expect={"dig": "err"}, note="_out column whose stem is no pin"))
    b.append(Scenario(dig_xml(pins, [("t", "A Y_out\n1 1\n")]), [], mode="dig", expect={"dig": "err"}, note="_out column whose stem is an output pin"))
    b.append(Scenario("<circuit><visualElements>", [], mode="dig", expect={"dig": "err"}, note="truncated XML"))
    b.append(Scenario("", [], mode="dig", expect={"dig": "err"}, note="empty document"))
    # second round: line numbers of a test loaded from a document count from the first line of its own source text
    t3 = ("blank-first", "\n \t\n\nA Y\n1 1\n\n2 2\n")
    b.append(Scenario(dig_xml(pins, [t1, t3]), [], mode="dig", load="1", default_answer=[0, 0],
                      expect={"dig": "ok", "load": "ok", "tests": [t1, t3], "lines": [5, 7]},
                      note="blank lines before the header of a document test are counted"))
    b.append(Scenario(dig_xml(pins, [t3]), [], mode="dig", load="name:" + "blank-first".encode().hex(), default_answer=[0, 0],
                      expect={"dig": "ok", "load": "ok", "lines": [5, 7]}, note="the same, loaded by name"))
    # fourth round: a document test whose source really has CRLF line ends (stored as &#xd; + newline)
    t4 = ("crlf", "A Y\r\n1 1\r\n\r\n2 2\r\nloop(i,2)\r\n\r\n3 3\r\nend loop\r\n")
    b.append(Scenario(dig_xml(pins, [t1, t4]), [], mode="dig", load="1", default_answer=[0, 0],
                      expect={"dig": "ok", "load": "ok", "tests": [t1, t4], "lines": [2, 4, 7, 7]},
                      note="CRLF line ends inside a document test count once each"))
    b.append(Scenario(dig_xml(pins, [t4]), [], mode="dig", load="name:" + "crlf".encode().hex(), default_answer=[0, 0],
                      expect={"dig": "ok", "load": "ok", "lines": [2, 4, 7, 7]}, note="the same, loaded by name"))
    t5 = ("cr-blank-first", "\r\n\r\nA Y\r\n1 1\r\n")
    b.append(Scenario(dig_xml(pins, [t5]), [], mode="dig", load="0", default_answer=[0, 0],
                      expect={"dig": "ok", "load": "ok", "tests": [t5], "lines": [4]}, note="CRLF blank lines before the header of a document test"))
    # eighth round: the signals a test is bound to are the file's, whatever this test's own header uses; two tests may read back the same pin
    b.append(Scenario(dig_xml(pins, [bd1, bd2]), [], mode="dig", load="1", default_answer=[0, 0, 0],
                      expect={"dig": "ok", "signals": sigs_b, "load": "ok", "row_expected": [["X", "1", "X"]]},
                      note="D is bidirectional because of the other test: this test still reports its read-back as X"))
    b.append(Scenario(dig_xml(pins, [bd1, ("rb2", "A D D_out Y\n1 2 X 1\n")]), [], mode="dig", load="1", default_answer=[0, 0, 0],
                      expect={"dig": "ok", "signals": sigs_b, "load": "ok"}, note="two tests read back the same pin"))
    # seventh round: load by index is by position, also among tests that share a label (or have none)
    dup = [("same", "A Y\n1 1\n"), ("same", "A Y\n2 2\n"), ("same", "A Y\n3 3\n")]
    for k in (1, 2):
        b.append(Scenario(dig_xml(pins, dup), [], mode="dig", load=str(k), default_answer=[0, 0],
                          expect={"dig": "ok", "load": "ok", "row_inputs": [[str(k + 1), "0", "0", "Z"]]}, note="three tests with one label, load_test(%d)" % k))
    b.append(Scenario(dig_xml(pins, [(None, "A Y\n1 1\n"), (None, "A Y\n2 2\n")]), [], mode="dig", load="1", default_answer=[0, 0],
                      expect={"dig": "ok", "load": "ok", "row_inputs": [["2", "0", "0", "Z"]]}, note="two unlabelled tests, load_test(1)"))
    b.append(Scenario(dig_xml(pins, [("same", "A Y\n1 1\n"), ("same", "A Y\n1 1 1\n")]), [], mode="dig", load="1", default_answer=[0, 0],
                      expect={"dig": "ok", "load": "err"}, note="the second of two equally labelled tests is malformed: load_test(1) reports it"))
    # NBSP in a test header: the document loads or is an error, never a panic
    for hdr_ in ("A\u00a0B Y", "A B\u00a0", "\u00a0A B Y", "A \u00a0 Y"):
        b.append(Scenario(dig_xml(pins, [("nbsp", hdr_ + "\n1 0 1\n")]), [], mode="dig", note="no-break space in a test header (%r): no panic" % hdr_))
    # sixth round: test headers laid out with tabs, several blanks, CR, leading blank lines - the document loads all the same
    for hdr_, what in (("A\tB\tY", "tabs"), ("A   B \t Y", "several blanks"), ("\n\n  A B Y", "leading blank lines and blanks"),
                       ("A B Y  \t", "trailing blanks"), ("A B Y\r", "CR before the line break")):
        tt = ("laid-out", hdr_ + "\n1 0 1\n")
        b.append(Scenario(dig_xml(pins, [tt]), [], mode="dig", load="0", default_answer=[0, 0],
                          expect={"dig": "ok", "load": "ok", "tests": [tt], "row_inputs": [["1", "0", "0", "Z"]]},
                          note="test header laid out with %s" % what))
    # sixth round: signals keep document order whatever is read back (three read-back inputs)
    pins4 = [("In", "A", 4, 3), ("In", "B", None, None), ("Out", "Y", 8, None), ("Clock", "CLK", None, None), ("In", "D", 8, "Z"), ("Out", "Q", None, None), ("In", "E", 2, 1)]
    sigs4 = ["A:4:bidir:3", "B:1:bidir:0", "CLK:1:in:0", "D:8:bidir:Z", "E:2:bidir:1", "Y:8:out", "Q:1:out"]
    rb = ("rb4", "A A_out B B_out D D_out E E_out Y\n1 X 0 X 2 X 1 X X\n")
    b.append(Scenario(dig_xml(pins4, [rb]), [], mode="dig", load="0", default_answer=[0] * 6,
                      expect={"dig": "ok", "signals": sigs4, "load": "ok"}, note="four read-back inputs: signals stay in document order (inputs, then outputs)"))
    # sixth round: a name is a label, never a position; `<x>_out` alone in a header still reads back input <x>
    for nm in ("0", "1", "02", "00", "+1"):
        b.append(Scenario(dig_xml(pins, [t1, t2]), [], mode="dig", load="name:" + nm.encode().hex(), default_answer=[0, 0],
                          expect={"dig": "ok", "load": "err"}, note="numeric name %r matches no label: unknown, not test number %s" % (nm, nm)))
    b.append(Scenario(dig_xml(pins, [("1", "A Y\n3 3\n"), ("0", "A Y\n2 2\n")]), [], mode="dig", load="name:" + "0".encode().hex(), default_answer=[0, 0],
                      expect={"dig": "ok", "load": "ok", "row_inputs": [["2", "0", "0", "Z"]]}, note="numeric labels are labels: name 0 selects the test labelled 0"))
    b.append(Scenario(dig_xml(pins, [("listen", "D_out Y\nX 1\n")]), [], mode="dig", load="0", default_answer=[0, 0, 0],
                      expect={"dig": "ok", "signals": sigs_b, "load": "ok"}, note="header with D_out but no D column: D is read back, hence bidirectional"))
    b.append(Scenario(dig_xml(pins, [("plain", "A Y\n1 1\n"), ("listen", "A D_out\n1 X\n")]), [], mode="dig", load="1", default_answer=[0, 0, 0],
                      expect={"dig": "ok", "signals": sigs_b, "load": "ok"}, note="D_out without D in the second test only"))
    # sixth round: a document test that does not parse - the error's labels lie inside the source attached to it
    for eol in ("\r\n", "\n"):
        for body, what in (("A Y%s1 1%sloop(i,2)%s1 1%s" % ((eol,) * 4), "loop left open at the end"),
                           ("A Y%s1 1%s1 $" % (eol, eol), "bad token at the very end"),
                           ("A Y%s1 1%s1 1%s1 1%sprogram x%s" % ((eol,) * 5), "unsupported statement on the last line"),
                           ("A Y%s\u00e4\u00f6 1%s1 1%s1%s" % ((eol,) * 4), "short last row after multi-byte text")):
            b.append(Scenario(dig_xml(pins, [t1, ("bad", body)]), [], mode="dig", load="1", default_answer=[0, 0],
                              expect={"dig": "ok", "load": "err", "labels_ok": True}, note="%s, line ends %r" % (what, eol)))
    # a test of the same name and length loaded earlier in the process does not answer for this one
    good = ("same", "A Y\nloop(i,2)\n1 1\nend loop\n")
    bad_ = ("same", "A Y\nloop(i,2)\n1 1\n1 1     \n")
    assert len(good[1]) == len(bad_[1])
    b.append(Scenario(dig_xml(pins, [bad_]), [], mode="dig", load="0", default_answer=[0, 0], pre_digs=[(dig_xml(pins, [good]), "0")],
                      expect={"dig": "ok", "load": "err"}, note="a well-formed test of the same name and length was loaded before: this one is still rejected"))
    b.append(Scenario(dig_xml(pins, [bad_]), [], mode="dig", load="name:" + "same".encode().hex(), default_answer=[0, 0],
                      pre_digs=[(dig_xml(pins, [good]), "name:" + "same".encode().hex())],
                      expect={"dig": "ok", "load": "err"}, note="the same, loaded by name"))
    # fifth round: labels are compared exactly (blanks, case and line breaks count)
    ta, tb, tc = ("add ", "A Y\n1 1\n"), ("add", "A Y\n2 2\n"), (" add", "A Y\n3 3\n")
    b.append(Scenario(dig_xml(pins, [ta, tb, tc]), [], mode="dig", load="name:" + "add".encode().hex(), default_answer=[0, 0],
                      expect={"dig": "ok", "load": "ok", "tests": [ta, tb, tc], "row_inputs": [["2", "0", "0", "Z"]]},
                      note="labels that differ only by surrounding blanks: the exact one is selected"))
    b.append(Scenario(dig_xml(pins, [ta, tb, tc]), [], mode="dig", load="name:" + " add".encode().hex(), default_answer=[0, 0],
                      expect={"dig": "ok", "load": "ok", "row_inputs": [["3", "0", "0", "Z"]]}, note="label with a leading blank is its own name"))
    for nm in ("add  ", "ADD", "add\n", "\tadd", "ad"):
        b.append(Scenario(dig_xml(pins, [ta, tb]), [], mode="dig", load="name:" + nm.encode().hex(), default_answer=[0, 0],
                          expect={"dig": "ok", "load": "err"}, note="a name that matches no label exactly (%r) is unknown" % nm))
    b.append(Scenario(dig_xml(pins, [ta]), [], mode="dig", load="name:" + "add".encode().hex(), default_answer=[0, 0],
                      expect={"dig": "ok", "load": "err"}, note="only a padded label exists: the bare name is unknown"))
    pinsn = [("In", "N", 8, -1), ("In", "M", 64, -128), ("In", "P", 4, 9), ("Out", "Y", 8, None)]
    b.append(Scenario(dig_xml(pinsn, [("t", "P Y\n1 1\n")]), [], mode="dig", load="0", default_answer=[0],
                      expect={"dig": "ok", "signals": ["N:8:in:-1", "M:64:in:-128", "P:4:in:9", "Y:8:out"], "load": "ok",
                              "row_inputs": [["-1", "-128", "1"]]}, note="negative input defaults are kept"))
    pins3 = pins + [("In", "A_out", 2, 1)]
    b.append(Scenario(dig_xml(pins3, [("t", "A A_out Y\n1 1 1\n")]), [], mode="dig", load="0", default_answer=[0, 0],
                      expect={"dig": "ok", "signals": ["A:4:in:3", "B:1:in:0", "CLK:1:in:0", "D:8:in:Z", "A_out:2:in:1", "Y:8:out", "Q:1:out"],
                              "load": "ok"},
                      note="an input pin labelled A_out is its own signal, A stays an input"))
    pins2 = pins + [("Out", "A_out", 2, None)]
    b.append(Scenario(dig_xml(pins2, [("t", "A A_out\n1 1\n")]), [], mode="dig", load="0", default_answer=[0, 0, 0],
                      expect={"dig": "ok", "signals": ["A:4:in:3", "B:1:in:0", "CLK:1:in:0", "D:8:in:Z", "Y:8:out", "Q:1:out", "A_out:2:out"], "load": "ok"},
                      note="a pin labelled A_out is its own signal, A stays an input"))
    return b


def dig_judge_one(o, sc):
    e = sc.expect
    st = o.stage.get("DIG", ("missing", ""))[0]
    if "dig" in e and st != e["dig"]:
        return "loading the document is %s, expected %s (%s)" % (st, e["dig"], sc.note)
    if "signals" in e:
        got = [l.split(" ", 1)[1] for l in o.lines if l.startswith("DIGSIGNAL ")]
        if got != e["signals"]:
            return "signals are %s, expected %s (%s)" % (got, e["signals"], sc.note)
    if "tests" in e:
        got = []
        for l in o.lines:
            if l.startswith("DIGTEST "):
                _, a, b_ = (l.split(" ") + [""])[:3]
                got.append((bytes.fromhex(a).decode(), bytes.fromhex(b_).decode()))
        if got != [tuple(t) for t in e["tests"]]:
            return "tests are %s, expected %s (%s)" % (got, e["tests"], sc.note)
    if "load" in e:
        lst = o.stage.get("LOAD", ("missing", ""))[0]
        if lst != e["load"]:
            return "load_test is %s, expected %s (%s)" % (lst, e["load"], sc.note)
    for l in o.lines:
        if l.startswith("LOAD err") and "labels_ok=0" in l:
            return "a location of the load error lies outside the source text attached to it (%s)" % sc.note
    return literal_judge_one(o, sc)


dig_judge = no_panic_judge(dig_judge_one)


def dig_or_malformed_judge(obs, sc):
    return dig_judge(obs, sc) if sc.mode == "dig" else malformed_judge(obs, sc)


# ------------------------------------------------------------------ C20 layout (relational: variant vs base)

LAYOUT_SIGNALS = [("in", "A", 8, 0), ("in", "B", 8, 0), ("out", "Y", 8)]
LAYOUT_HEADER = "A B Y"

# programs as token lists (one list per line): every rendering below has the same token sequence by construction
LAYOUT_PROGRAMS = {
    "control": [
        ["let", "a", "=", "10", ";"],
        ["loop", "(", "i", ",", "3", ")"],
        ["(", "i", "+", "a", ")", "1", "X"],
        ["end", "loop"],
        ["bits", "(", "2", ",", "2", ")", "X"],
        ["31", "1", "15"],
        ["repeat", "(", "2", ")", "(", "n", "*", "2", ")", "0", "X"],
        ["while", "(", "a", "<", "12", ")"],
        ["let", "a", "=", "a", "+", "1", ";"],
        ["1", "(", "a", ")", "X"],
        ["end", "while"],
        ["resetRandom", ";"],
        ["0", "Z", "X"],
    ],
    "calls": [
        ["let", "a", "=", "6", ";"],
        ["(", "ite", "(", "a", ">", "5", ",", "7", ",", "8", ")", ")", "(", "ite", "(", "4", "<", "a", ",", "15", ",", "3", ")", "&", "255", ")", "X"],
        ["(", "1", "<<", "2", ")", "(", "a", ">=", "3", ")", "(", "a", "!=", "3", ")"],
        ["(", "~", "a", "&", "7", ")", "(", "!", "a", ")", "(", "-", "a", "+", "20", ")"],
        ["(", "a", "%", "4", ")", "(", "a", "/", "4", ")", "(", "a", "^", "1", ")"],
        ["(", "a", "|", "1", ")", "(", "a", "<=", "3", ")", "(", "a", ">>", "1", ")"],
        ["(", "a", "=", "6", ")", "(", "a", "<", "7", ")", "(", "0", "-", "a", "*", "2", "+", "100", ")"],
        ["(", "ite", "(", "0", ",", "1", ",", "ite", "(", "1", ",", "2", ",", "3", ")", ")", ")", "0", "0"],
    ],
    "short-rows": [[str(k % 2), "1", "X"] for k in range(14)] + [["loop", "(", "i", ",", "2", ")"], ["0", "0", "X"], ["end", "loop"], ["1", "1", "X"], ["0", "1", "X"]],
    "digit-strings": [
        ["10", "16", "2"],
        ["8", "10", "16"],
        ["(", "10", "+", "16", ")", "(", "2", "*", "8", ")", "(", "16", "-", "10", ")"],
        ["let", "a", "=", "16", ";"],
        ["(", "a", "+", "10", ")", "11", "17"],
        ["3", "9", "17"],
        ["loop", "(", "i", ",", "2", ")"],
        ["(", "i", "+", "16", ")", "10", "2"],
        ["end", "loop"],
    ],
    "literals": [
        ["0", "1", "2"],
        ["10", "255", "128"],
        ["let", "z", "=", "0", ";"],
        ["(", "z", "+", "16", ")", "(", "100", "-", "64", ")", "8"],
        ["bits", "(", "3", ",", "5", ")"],
        ["repeat", "(", "3", ")", "7", "0", "(", "n", "+", "0", ")"],
        # values whose hex spelling starts with a letter that also occurs in a radix prefix (b / B), or is all zeros
        ["176", "11", "187"],
        ["(", "2989", "&", "255", ")", "(", "48879", ">>", "8", ")", "(", "2827", "%", "256", ")"],
        ["bits", "(", "2", ",", "3", ")", "11"],
        ["(", "0", "+", "0", ")", "0", "0"],
    ],
    "runtime-error": [
        ["1", "2", "3"],
        ["(", "signExt", "(", "4", ",", "15", ")", ")", "0", "X"],
    ],
    "rejected-literal": [
        ["1", "2", "3"],
        ["9223372036854775808", "1", "1"],
    ],
    "rejected-literal-2": [
        ["18446744073709551615", "1", "1"],
    ],
    "rejected-row": [
        ["1", "1", "1"],
        ["1", "1"],
    ],
    "rejected-function": [
        ["(", "nosuch", "(", "1", ")", ")", "0", "0"],
    ],
    "rejected-let": [
        ["let", "a", "5", ";"],
        ["0", "0", "0"],
    ],
}


def _needs_gap(a, b):
    w = lambda c: c.isalnum() or c == "_"
    if w(a[-1]) and w(b[0]):
        return True
    # operator characters that would merge into another token: << >> <= >= !=
    return (a[-1] + b[0]) in ("<<", ">>", "<=", ">=", "!=") or (a[-1] in "<>!=" and b[0] in "<>=")


def layout_render(lines, style="plain", eol="\n", trailing="", comment=None, header=LAYOUT_HEADER, last_eol=True):
    """style: plain (one space), min (only where tokens would merge), wide, tabs, mixed, callgap (space between a name
    and an opening parenthesis too, as `plain` does), cr (carriage returns as blank space inside lines)."""
    sep = {"plain": " ", "wide": "   ", "tabs": "\t", "mixed": " \t ", "cr": " \r "}.get(style, " ")
    out = [header]
    for toks in lines:
        if toks is None or isinstance(toks, str):
            out.append(toks or "")
            continue
        s = ""
        for k, t in enumerate(toks):
            if k > 0:
                if style == "min":
                    s += " " if _needs_gap(toks[k - 1], t) else ""
                else:
                    s += sep
            s += t
        if style in ("wide", "mixed"):
            s = "  " + s
        s += trailing
        if comment is not None:
            s += comment
        out.append(s)
    return eol.join(out) + (eol if last_eol else "")


def _radix(tok, how):
    if not tok.isdigit():
        return tok
    n = int(tok)
    return {"hex": "0x%x" % n, "HEX": "0X%X" % n, "hex0": "0x00%x" % n, "bin": "0b%s" % bin(n)[2:], "BIN": "0B%s" % bin(n)[2:],
            "bin0": "0b0%s" % bin(n)[2:], "oct": "0%o" % n, "dec": tok}[how]


def layout_battery():
    b = []

    def sc(name, base_src, var_src, note, line_map=None):
        return Scenario(var_src, LAYOUT_SIGNALS, default_answer=[0], max_rows=200,
                        expect={"base": base_src, "line_map": line_map}, note="%s: %s" % (name, note))
    for name, lines in LAYOUT_PROGRAMS.items():
        base = layout_render(lines)
        for style in ("min", "wide", "tabs", "mixed", "cr"):
            b.append(sc(name, base, layout_render(lines, style), "blank space style '%s'" % style))
        b.append(sc(name, base, layout_render(lines, trailing=" \t"), "trailing blanks"))
        b.append(sc(name, base, layout_render(lines, eol="\r\n"), "CR before every LF"))
        b.append(sc(name, base, layout_render(lines, comment=" # note"), "comment appended to every line"))
        b.append(sc(name, base, layout_render(lines, comment="#x#y"), "comment appended without a blank"))
        # fifth round: comments full of multi-byte characters (byte offsets run ahead of character counts)
        b.append(sc(name, base, layout_render(lines, comment=" # " + "\u2192\u00fc\u20ac" * 8), "multi-byte comment appended to every line"))
        b.append(sc(name, base, layout_render(lines, comment="#" + "\U0001F600" * 10), "four-byte characters in appended comments"))
        b.append(sc(name, base, layout_render(lines, last_eol=False), "no newline at the end")
                 if name in ("literals", "calls") else
                 sc(name, base, layout_render(lines, comment="\t#"), "empty comment appended"))
        # lines inserted after the header: blank, blank-with-spaces, single comment, comment block
        for what, ins in (("blank lines", ["", ""]), ("whitespace-only line", [" \t "]), ("comment line", ["# one"]),
                          ("comment block", ["# one", "  # two", "#three"]), ("comment then blank", ["#c", "", "# d"]),
                          ("multi-byte comment block", ["# " + "\u2192\u00fc\u20ac" * 10, "#" + "\U0001F600" * 12])):
            for at in (range(len(lines) + 1) if what in ("blank lines", "comment line") else sorted(set((0, 1, len(lines) // 2, len(lines))))):
                new = list(lines[:at]) + list(ins) + list(lines[at:])
                # base line numbers: header is line 1, program line k (0-based) is line k + 2
                lm = {k + 2: (k + 2 + (len(ins) if k >= at else 0)) for k in range(len(lines))}
                b.append(sc(name, base, layout_render(new), "%s inserted before program line %d" % (what, at + 1), lm))
        for cm in (" # the last row", "#1 2 3", " # 3"):
            b.append(sc(name, layout_render(lines, last_eol=False), layout_render(lines[:-1] + [lines[-1] + [cm]], "plain", last_eol=False).replace(" " + cm, cm),
                        "comment %r on the last line, no newline at the end" % cm))
        if name == "literals":
            # eighth round: `0X` / `0x` / `0b` without digits are two tokens (the literal 0 and a name), with or without a blank
            for base_row, var_row in (("0 X 1", "0X 1"), ("0 x 1", "0x 1"), ("1 0 X", "1 0X"), ("0 X X", "0X X"), ("0 X 0", "0X 0")):
                b.append(Scenario(LAYOUT_HEADER + "\n" + var_row + "\n", LAYOUT_SIGNALS, default_answer=[0], max_rows=50,
                                  expect={"base": LAYOUT_HEADER + "\n" + base_row + "\n", "line_map": None},
                                  note="literals: integer literals `%s` written as `%s` (no blank between the literal 0 and X)" % (base_row, var_row)))
            # a bits() count in every radix (eight one-bit inputs)
            s8 = [("in", "I%d" % i, 1, 0) for i in range(8)]
            h8 = " ".join(x[1] for x in s8)
            for cnt in ("010", "0x8", "0b1000", "0X08", "0B01000"):
                b.append(Scenario("%s\nbits(%s, 165)\nbits(%s, 90)\n" % (h8, cnt, cnt), s8, max_rows=50,
                                  expect={"base": "%s\nbits(8, 165)\nbits(8, 90)\n" % h8, "line_map": None},
                                  note="literals: integer literals - bits count 8 written as %s" % cnt))
        if name in ("literals", "digit-strings", "control", "calls", "rejected-literal", "rejected-literal-2"):
            # sixth round: every literal in a radix of its own (cycling), so that one program holds equal digit strings
            # with different meanings: 10, 0x10, 0b10, 010
            for shift in range(4):
                cyc = ("dec", "hex", "bin", "oct")
                cnt = [0]

                def mix(t):
                    if not t.isdigit():
                        return t
                    cnt[0] += 1
                    return _radix(t, cyc[(cnt[0] + shift) % 4])
                b.append(sc(name, base, layout_render([[mix(t) for t in l] for l in lines]), "integer literals in mixed radices (phase %d)" % shift))
            for how in ("hex", "HEX", "hex0", "bin", "BIN", "bin0", "oct"):
                b.append(sc(name, base, layout_render([[_radix(t, how) for t in l] for l in lines]), "integer literals as %s" % how))
    return b


_layout_base_cache = {}


def layout_judge(obs, sc):
    """variant (obs) against the native run of the base program: same verdicts, same rows, lines shifted by the map."""
    from .. import replay as _rp
    base_src = sc.expect["base"]
    key = (base_src, tuple(sorted(obs)))
    if key not in _layout_base_cache:
        _layout_base_cache[key] = _rp.run(Scenario(base_src, sc.signals, default_answer=sc.default_answer, max_rows=sc.max_rows),
                                          profiles=tuple(sorted(obs)))
    base = _layout_base_cache[key]
    lm = sc.expect.get("line_map")
    for p, o in obs.items():
        if o.panics:
            return "%s build panics: %s (%s)" % (p, o.panics[0][1][:160], sc.note)
        bo = base[p]
        if bo.panics:
            return "%s build panics on the base program: %s" % (p, bo.panics[0][1][:160])
        for stg in ("PARSE", "BIND", "NEW"):
            a, c = bo.stage.get(stg, ("missing",))[0], o.stage.get(stg, ("missing",))[0]
            if a != c:
                return "%s build: %s is '%s' for the base layout and '%s' for the variant (%s)" % (p, stg, a, c, sc.note)
        ia = [(i[0], i[1] if i[0] == "err" else None) for i in bo.items]
        ic = [(i[0], i[1] if i[0] == "err" else None) for i in o.items]
        if ia != ic:
            return "%s build: item sequence differs: base %s, variant %s (%s)" % (p, ia[:12], ic[:12], sc.note)
        for k, (ra, rc) in enumerate(zip(bo.rows, o.rows)):
            if (ra["inputs"], ra["outputs"], ra["failing"]) != (rc["inputs"], rc["outputs"], rc["failing"]):
                return "%s build: row %d differs: base %s / %s, variant %s / %s (%s)" % (
                    p, k, ra["inputs"], ra["outputs"], rc["inputs"], rc["outputs"], sc.note)
            want = lm.get(ra["line"], None) if lm else ra["line"]
            if want is None:
                want = ra["line"]
            if rc["line"] != want:
                return "%s build: row %d reports line %d, expected %d (base line %d; %s)" % (p, k, rc["line"], want, ra["line"], sc.note)
    return None
