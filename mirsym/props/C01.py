"""C01 - control flow and variables determine exactly which rows run, and in what order.

Per-transition obligations on the resumable interpreter StmtIterator::next_with_context (cut at its outer loop
header: one arm from an arbitrary state per path), on DataEntry::eval (bits expansion, all k <= 64), on the frame
operations of FramedMap (bounded) and on the parser arms that build Loop / repeat / While / Let (scoping).
The induction over executions (rows = those of the sequential reading) is argued in DESIGN.md, not mechanised.
"""
import z3

from ..oblig import obligation
from ..sym import bv64, Node
from ..models import vec_slice
from .. import build
from .common import initial, mval, T, no_panic_judge
from ..replay import Scenario, lit
from . import batteries as B
from . import dri

KEEP = [r"EvalContext::", r"Expr::eval", r"StmtIterator::next_with_context", r"DataEntry::eval"]


def rep():
    from .refmodel import with_reference
    return with_reference(dri.Rep({"family": "control"}, B.control_battery(), B.control_judge), ("control", "expressions"))


def explore_arms(O, keep=KEEP, bound_rows=False):
    m = O.mir
    fn = O.find("::next_with_context")
    eng = O.engine()
    eng.keep_events(*keep)
    be = fn.back_edges()
    headers = sorted(set(d for _, d in be))
    outer = headers[0] if headers else None
    if outer is not None:
        eng.cut_blocks = {outer}
    if bound_rows:
        eng.max_visits = 5
        eng.iter_bound = 3
    paths = O.explore(eng, fn)
    return m, fn, eng, paths, outer


def state_tag(eng, m, me):
    return eng.tag_of(eng.field(me, m.fidx("StmtIterator", "inner_state")), None)


def names_of(p):
    return [e.norm.split("::")[-1] for e in p.crate_calls()]


@obligation("C01/interpreter-arms", desc="next_with_context, one arm from an arbitrary state: Iterate takes exactly one "
            "statement (Let: eval then set; Loop: bound evaluated once, here, before any frame is pushed, and stored; While: "
            "state only; ResetRandom: reseed; end of block: Ok(None)); StartLoop: push_frame then set(counter, 0) - entered "
            "only with 0 < bound; EndIterateInner: read counter, +1, continue with set(counter, v) iff v < bound and no frame "
            "operation, else exactly one pop_frame; StartWhile: condition evaluated on every entry, zero -> Iterate without "
            "frame operations; inner rows are passed up unchanged")
def interpreter_arms(O):
    R = rep()
    m, fn, eng, paths, outer = explore_arms(O)
    me0 = eng.deref(initial(fn, 1))
    tag0 = state_tag(eng, m, me0)
    S = {n: bv64(m.vidx("StmtIteratorState", n)) for n in m.enums["StmtIteratorState"]}
    seen = set()
    # initial-state terms (before the path changes the state)
    eng.focus(None)
    st0 = eng.field(me0, m.fidx("StmtIterator", "inner_state"))
    MX = {}
    for nm_ in ("StartLoop", "EndIterateInner"):
        ls_ = eng.field(eng.downcast(st0, nm_), 0)
        MX[nm_] = eng.scalar(eng.field(ls_, m.fidx("LoopState", "max"), "i64"))

    def arm_paths(name):
        out = []
        for p in paths:
            r, _ = O.solve(list(p.pc) + [tag0 == S[name]], want_model=False)
            if r == "sat":
                out.append(p)
        return out

    def next_state(p):
        me = eng.deref(p.args.fields[1])
        return eng.field(me, m.fidx("StmtIterator", "inner_state"))

    for name in m.enums["StmtIteratorState"]:
        ps = arm_paths(name)
        if not ps:
            O.inconclusive("vacuous: no path for state %s" % name)
            continue
        seen.add(name)
        cond = [tag0 == S[name]]
        for p in ps:
            eng.focus(p)
            ev = names_of(p)
            frame_ops = [e for e in ev if e in ("push_frame", "pop_frame")]
            if p.outcome == "panic":
                if name == "EndIterateInner":
                    # counter missing / not a number: protected by the frame discipline (C10/counter-lookup)
                    O.assumed_unreachable("EndIterateInner: %s" % p.detail, "the loop counter set in StartLoop lives in the "
                                          "loop's own frame until pop_frame; variables shadow outputs (C10/counter-lookup)")
                    continue
                R.fail(O, p, "%s arm panics: %s" % (name, p.detail), extra=cond)
                continue
            ns = next_state(p)
            nt = eng.tag_of(ns, None)
            if name == "StartLoop":
                mx = MX["StartLoop"]
                bfacts = lambda mod: {"family": "control", "what": "loop entry vs bound", "bound": mval(mod, mx)}
                bscen = lambda mod: B.nonpositive_loop_scenarios(mval(mod, mx)) + B.control_battery()
                if ev == []:
                    O.prove(p, mx <= bv64(0), "a loop is skipped only when its bound is not positive", bfacts, bscen,
                            B.control_judge, extra=cond)
                    R.prove(O, p, nt == S["Iterate"], "a skipped loop continues with the enclosing block", extra=cond)
                    continue
                if ev != ["push_frame", "set"]:
                    R.fail(O, p, "loop entry performs %s instead of push_frame, set(counter, 0)" % ev, extra=cond)
                    continue
                setev = [e for e in p.crate_calls() if e.norm.endswith("::set")][0]
                R.prove(O, p, eng.scalar(setev.args[2], "i64") == bv64(0), "the counter starts at 0", extra=cond)
                R.prove(O, p, nt == S["StartIterateInner"], "loop entry continues with the first iteration", extra=cond)
                O.prove(p, mx > bv64(0), "the loop body is entered only when 0 < bound", bfacts, bscen, B.control_judge, extra=cond)
            elif name == "StartIterateInner":
                if ev:
                    R.fail(O, p, "starting an iteration performs %s" % ev, extra=cond)
                R.prove(O, p, nt == S["IterateInner"], "an iteration runs the body from its first statement", extra=cond)
            elif name in ("IterateInner", "WhileIterateInner"):
                if ev != ["next_with_context"]:
                    R.fail(O, p, "%s performs %s" % (name, ev), extra=cond)
                    continue
                inner = p.crate_calls()[0].ret
                it = eng.tag_of(inner, None)
                opt = eng.field(eng.downcast(inner, "Ok"), 0)
                ot = eng.tag_of(opt, None)
                if p.outcome == "return":
                    # a row or an error is passed up unchanged
                    r1, _ = O.solve(list(p.pc) + cond + [it == bv64(0)], want_model=False)
                    if r1 == "sat":
                        R.prove(O, p, ot == bv64(1), "the body's end is not reported as the end of the program", extra=cond + [it == bv64(0)])
                        got = eng.field(eng.downcast(eng.field(eng.downcast(p.ret, "Ok"), 0), "Some"), 0)
                        src = eng.field(eng.downcast(opt, "Some"), 0)
                        if not (got.root == src.root):
                            R.fail(O, p, "a row from the loop body is not passed up unchanged", extra=cond + [it == bv64(0)])
                    R.prove(O, p, eng.tag_of(p.ret, None) == it, "an error of the body is an error of the loop", extra=cond)
                    # ... and the iterator is as before the call: nothing of the loop's state is taken out, replaced or
                    # reset on the way to the body, so the run can go on after the error item
                    r_err, _ = O.solve(list(p.pc) + cond + [it == bv64(1)], want_model=False)
                    if r_err == "sat":
                        ws = p.state.extra.get("writes", [])
                        if ws:
                            R.fail(O, p, "%s: on an error of the body the iterator's own state was written (%s)" % (name, ws[0][1]),
                                   extra=cond + [it == bv64(1)])
                else:
                    R.prove(O, p, z3.And(it == bv64(0), ot == bv64(0)), "the body is left only when it is exhausted", extra=cond)
                    R.prove(O, p, nt == (S["EndIterateInner"] if name == "IterateInner" else S["StartWhile"]),
                            "after the body: loop bookkeeping (loop) / re-evaluation of the condition (while)", extra=cond)
                if frame_ops:
                    R.fail(O, p, "%s performs frame operations %s" % (name, frame_ops), extra=cond)
            elif name == "EndIterateInner":
                if not ev or ev[0] != "get":
                    R.fail(O, p, "end of iteration does not read the counter first (%s)" % ev, extra=cond)
                    continue
                getev = p.crate_calls()[0]
                cur = eng.scalar(eng.field(eng.downcast(eng.field(eng.downcast(getev.ret, "Some"), 0), "Value"), 0, "i64"))
                mx = MX["EndIterateInner"]
                cont_ref = z3.And(cur != bv64((1 << 63) - 1), cur + bv64(1) < mx)
                if ev == ["get", "set"]:
                    setev = p.crate_calls()[1]
                    R.prove(O, p, cont_ref, "another iteration only while counter + 1 < bound", extra=cond)
                    R.prove(O, p, eng.scalar(setev.args[2], "i64") == cur + bv64(1), "the counter advances by one", extra=cond)
                    R.prove(O, p, nt == S["StartIterateInner"], "the next iteration starts", extra=cond)
                elif ev == ["get", "pop_frame"]:
                    R.prove(O, p, z3.Not(cont_ref), "the loop ends only when counter + 1 reaches the bound", extra=cond)
                    R.prove(O, p, nt == S["Iterate"], "after the loop the enclosing block continues", extra=cond)
                else:
                    R.fail(O, p, "end of iteration performs %s (expected get+set or get+pop_frame)" % ev, extra=cond)
            elif name == "StartWhile":
                if ev != ["eval"]:
                    R.fail(O, p, "while entry performs %s instead of evaluating the condition once" % ev, extra=cond)
                    continue
                res = p.crate_calls()[0].ret
                rt = eng.tag_of(res, None)
                cv = eng.scalar(eng.field(eng.downcast(res, "Ok"), 0, "i64"))
                if p.outcome == "return":
                    R.prove(O, p, z3.And(rt == bv64(1), eng.tag_of(p.ret, None) == bv64(1)),
                            "while returns early only on a condition error", extra=cond)
                else:
                    R.prove(O, p, rt == bv64(0), "while continues only with a condition value", extra=cond)
                    R.prove(O, p, z3.And(z3.Implies(cv == bv64(0), nt == S["Iterate"]),
                                         z3.Implies(cv != bv64(0), nt == S["WhileIterateInner"])),
                            "zero leaves the while, non-zero runs the body", extra=cond)
            elif name == "Iterate":
                if not ev or ev[0] != "next" and p.calls(r"Iterator>::next$") == []:
                    pass
                nx = p.calls(r"Iterator>::next$")
                if len(nx) != 1:
                    R.fail(O, p, "Iterate takes %d statements in one step" % len(nx), extra=cond)
                    continue
                stmt_opt = nx[0].ret
                so = eng.tag_of(stmt_opt, None)
                r0, _ = O.solve(list(p.pc) + cond + [so == bv64(0)], want_model=False)
                if r0 == "sat":
                    if p.outcome != "return":
                        R.fail(O, p, "end of block does not end the iteration", extra=cond + [so == bv64(0)])
                    else:
                        R.prove(O, p, z3.And(eng.tag_of(p.ret, None) == bv64(0),
                                             eng.tag_of(eng.field(eng.downcast(p.ret, "Ok"), 0), None) == bv64(0)),
                                "end of block yields Ok(None)", extra=cond + [so == bv64(0)])
                    continue
                stmt = T(eng, eng.field(eng.downcast(stmt_opt, "Some"), 0))
                stt = eng.tag_of(stmt, None)
                ST = {n: bv64(m.vidx("Stmt", n)) for n in m.enums["Stmt"]}
                for sname in m.enums["Stmt"]:
                    c2 = cond + [so == bv64(1), stt == ST[sname]]
                    r1, _ = O.solve(list(p.pc) + c2, want_model=False)
                    if r1 != "sat":
                        continue
                    seen.add("Iterate/" + sname)
                    crate = names_of(p)
                    if sname == "Let":
                        if crate not in (["eval", "set"], ["eval"]):
                            R.fail(O, p, "let performs %s" % crate, extra=c2)
                        elif crate == ["eval", "set"]:
                            evv, sv = p.crate_calls()
                            val = eng.scalar(eng.field(eng.downcast(evv.ret, "Ok"), 0, "i64"))
                            R.prove(O, p, z3.And(eng.tag_of(evv.ret, None) == bv64(0), eng.scalar(sv.args[2], "i64") == val),
                                    "let binds the value of its expression", extra=c2)
                        else:
                            R.prove(O, p, z3.And(eng.tag_of(p.crate_calls()[0].ret, None) == bv64(1),
                                                 p.outcome == "return"), "let without binding only on an evaluation error", extra=c2)
                    elif sname == "Loop":
                        if crate != ["eval"]:
                            R.fail(O, p, "reaching a loop performs %s: the bound must be evaluated once, before any "
                                         "frame is pushed or the counter is bound" % crate, extra=c2)
                        elif p.outcome != "return":
                            evv = p.crate_calls()[0]
                            R.prove(O, p, nt == S["StartLoop"], "a loop statement leads to loop entry", extra=c2)
                            ls = eng.field(eng.downcast(ns, "StartLoop"), 0)
                            R.prove(O, p, eng.scalar(eng.field(ls, m.fidx("LoopState", "max"), "i64")) ==
                                    eng.scalar(eng.field(eng.downcast(evv.ret, "Ok"), 0, "i64")),
                                    "the evaluated bound is stored for the whole loop", extra=c2)
                    elif sname == "While":
                        if crate:
                            R.fail(O, p, "reaching a while performs %s" % crate, extra=c2)
                        R.prove(O, p, nt == S["StartWhile"], "a while statement leads to the evaluation of its condition", extra=c2)
                    elif sname == "ResetRandom":
                        if crate != ["reset_random_seed"]:
                            R.fail(O, p, "resetRandom performs %s" % crate, extra=c2)
                    elif sname == "DataRow":
                        if frame_ops or "set" in crate:
                            R.fail(O, p, "a data row changes variables", extra=c2)
    for need in list(m.enums["StmtIteratorState"]) + ["Iterate/" + s for s in m.enums["Stmt"]]:
        if need not in seen:
            O.inconclusive("vacuous: case %s not explored" % need)


def end_only_when_exhausted(O, R):
    """next_with_context returns Ok(None) only from the statement dispatch with no statement left, calls nothing else on
    that path and stays in the dispatch state - so the end, once reported, is reported again by every later call."""
    m, fn, eng, paths, outer = explore_arms(O)
    me0 = eng.deref(initial(fn, 1))
    tag0 = state_tag(eng, m, me0)
    S = {n: bv64(m.vidx("StmtIteratorState", n)) for n in m.enums["StmtIteratorState"]}
    n = 0
    for p in paths:
        if p.outcome != "return":
            continue
        eng.focus(p)
        rt = eng.tag_of(p.ret, None)
        ot = eng.tag_of(eng.field(eng.downcast(p.ret, "Ok"), 0), None)
        cond = [rt == bv64(0), ot == bv64(0)]
        r, _ = O.solve(list(p.pc) + cond, want_model=False)
        if r != "sat":
            continue
        n += 1
        if not R.prove(O, p, tag0 == S["Iterate"], "the end of the rows is reported only by the statement dispatch of a block "
                       "(not from a loop / while bookkeeping state)", extra=cond):
            continue
        nx = p.calls(r"Iterator>::next$")
        others = [e for e in names_of(p)]
        if len(nx) != 1:
            R.fail(O, p, "the end is reported after taking %d statements" % len(nx), extra=cond)
            continue
        R.prove(O, p, eng.tag_of(nx[0].ret, None) == bv64(0), "the end of the rows is reported only when the block has no "
                "statement left", extra=cond)
        if others:
            R.fail(O, p, "reporting the end performs %s" % others, extra=cond)
        me = eng.deref(p.args.fields[1])
        nt = eng.tag_of(eng.field(me, m.fidx("StmtIterator", "inner_state")), None)
        R.prove(O, p, nt == S["Iterate"], "an exhausted block stays exhausted: the next call reports the end again", extra=cond)
    if n == 0:
        O.inconclusive("vacuous: no path returns Ok(None)")


@obligation("C01/end-only-when-exhausted", desc="next_with_context: Ok(None) only from the statement dispatch with no statement "
            "left (never from a skipped loop or a finished while), with nothing else called, leaving the dispatch state")
def o_end_only_when_exhausted(O):
    end_only_when_exhausted(O, rep())


@obligation("C01/data-row", desc="Iterate arm for a data row (<= 3 entries): every entry is evaluated exactly once, in order; "
            "the row carries the concatenated results, the statement's line and update_output = true; an evaluation error "
            "ends the row")
def data_row(O):
    R = rep()
    m, fn, eng, paths, outer = explore_arms(O, bound_rows=True)
    me0 = eng.deref(initial(fn, 1))
    tag0 = state_tag(eng, m, me0)
    cond = [tag0 == bv64(m.vidx("StmtIteratorState", "Iterate"))]
    n = 0
    for p in paths:
        eng.focus(p)
        des = p.calls(r"DataEntry::eval$")
        if not des:
            continue
        r, _ = O.solve(list(p.pc) + cond, want_model=False)
        if r != "sat":
            continue
        if p.outcome == "cut":
            continue
        if p.outcome != "return":
            R.fail(O, p, "data row: %s %s" % (p.outcome, p.detail), extra=cond)
            continue
        n += 1
        # entries evaluated in order: k-th evaluation is of element k of the statement's data
        for k, e in enumerate(des):
            ch = getattr(e.tnames[0], "chain", [])
            if not e.tnames[0] or not e.tnames[0][1].endswith("[]"):
                R.fail(O, p, "entry evaluation %d is not applied to an element of the row" % k, extra=cond)
        idxs = []
        for e in des:
            t0 = T(eng, e.args[0])
            idxs.append(t0.idxs[-1] if t0 is not None and t0.idxs else None)
        for k, ix in enumerate(idxs):
            if ix is None or not z3.is_bv_value(z3.simplify(ix)) or z3.simplify(ix).as_long() != k:
                R.fail(O, p, "entries are not evaluated in order (evaluation %d looks at index %s)" % (k, ix), extra=cond)
                break
        rt = eng.tag_of(p.ret, None)
        oks = [eng.tag_of(e.ret, None) == bv64(0) for e in des]
        R.prove(O, p, z3.Implies(rt == bv64(0), z3.And(oks)), "a row is produced only if every entry evaluated", extra=cond)
        r2, _ = O.solve(list(p.pc) + cond + [rt == bv64(0)], want_model=False)
        if r2 == "sat":
            c2 = cond + [rt == bv64(0)]
            row = eng.field(eng.downcast(eng.field(eng.downcast(p.ret, "Ok"), 0), "Some"), 0)
            R.prove(O, p, eng.scalar(eng.field(row, m.fidx("DataEntries", "update_output"), "bool")),
                    "rows produced by the interpreter are checked rows", extra=c2)
            R.prove(O, p, eng.tag_of(eng.field(eng.downcast(p.ret, "Ok"), 0), None) == bv64(1), "a row is returned", extra=c2)
    if n == 0:
        O.inconclusive("vacuous: no data-row path")
    O.note("bounded to 3 entries per row")


@obligation("C01/bits-expansion", profiles=("dev", "release"),
            desc="DataEntry::eval: Expr(e) -> [Number(v)]; Bits{k, e} -> k Number entries, entry i = (v >> (k-1-i)) & 1 "
                 "(most significant bit first), for every k <= 64 and every v; X/Z/C/Number -> themselves; no panic")
def bits_expansion(O):
    m = O.mir
    R = rep()
    fn = O.find("::eval", file="stmt.rs", param0="&DataEntry")
    eng = O.engine()
    eng.range_bound = 66
    eng.iter_bound = 66
    eng.keep_events(r"Expr::eval$")
    paths = O.explore(eng, fn)
    de = eng.deref(initial(fn, 1))
    tag = eng.tag_of(de, None)
    k = eng.scalar(eng.field(eng.downcast(de, "Bits"), 0, "u8"))
    T_BITS, T_EXPR = bv64(m.vidx("DataEntry", "Bits")), bv64(m.vidx("DataEntry", "Expr"))
    pre = [z3.ULE(k, z3.BitVecVal(64, 8))]        # parser: bits width <= 64 (C12/bits-width)
    O.witness([p for p in paths if p.outcome == "return"], "Bits entry evaluates", [tag == T_BITS] + pre)
    O.witness([p for p in paths if p.outcome == "return"], "Expr entry evaluates", [tag == T_EXPR])

    def scen(mod):
        kk = mval(mod, k, False)
        return B.bits_scenarios(kk)
    for p in paths:
        eng.focus(p)
        if p.outcome == "panic":
            O.fail_path(p, "entry evaluation panics: %s" % p.detail, lambda mod: {"family": "control", "k": mval(mod, k, False)},
                        scen, B.control_judge, extra=pre)
            continue
        if p.outcome == "cut":
            r, _ = O.solve(list(p.pc) + [tag == T_BITS] + pre, want_model=False)
            if r == "sat":
                # a loop of the function itself over the bits (not the iterator chain this obligation follows): the code
                # has another shape - the battery (bits(k, v) for k up to 64, negative and mixed patterns) decides natively
                raise LookupError("bits expansion runs a loop of its own that is cut inside the claimed range (%s)" % (p.detail or "")[:60])
            continue
        if p.outcome != "return":
            continue
        ev = p.calls(r"Expr::eval$")
        rt = eng.tag_of(p.ret, None)
        for T_, nm in ((T_BITS, "Bits"), (T_EXPR, "Expr")):
            cond = [tag == T_] + (pre if nm == "Bits" else [])
            r, _ = O.solve(list(p.pc) + cond, want_model=False)
            if r != "sat":
                continue
            if len(ev) != 1:
                R.fail(O, p, "%s entry evaluates its expression %d times" % (nm, len(ev)), extra=cond)
                continue
            et = eng.tag_of(ev[0].ret, None)
            v = eng.scalar(eng.field(eng.downcast(ev[0].ret, "Ok"), 0, "i64"))
            R.prove(O, p, rt == et, "%s entry fails iff its expression fails" % nm, extra=cond)
            r2, _ = O.solve(list(p.pc) + cond + [rt == bv64(0)], want_model=False)
            if r2 != "sat":
                continue
            c2 = cond + [rt == bv64(0)]
            out = vec_slice(eng, eng.field(eng.downcast(p.ret, "Ok"), 0))
            if nm == "Expr":
                e0 = eng.elem(out, bv64(0))
                O.prove(p, z3.And(eng.length(out) == bv64(1), eng.tag_of(e0, None) == bv64(m.vidx("DataEntry", "Number")),
                                  eng.scalar(eng.field(eng.downcast(e0, "Number"), 0, "i64")) == v),
                        "an expression entry becomes one Number with its value", {"family": "control", "what": "expr entry"},
                        B.control_battery(), B.control_judge, extra=c2)
                continue
            k64 = z3.ZeroExt(56, k)
            if not O.prove(p, eng.length(out) == k64, "bits(k, e) expands into exactly k entries",
                           lambda mod: {"family": "control", "k": mval(mod, k, False)}, scen, B.control_judge, extra=c2):
                continue
            claims = []
            for i, (ix, e) in enumerate(out.elems or []):
                sh = k64 - bv64(1) - ix
                claims.append(z3.And(eng.tag_of(e, None) == bv64(m.vidx("DataEntry", "Number")),
                                     eng.scalar(eng.field(eng.downcast(e, "Number"), 0, "i64")) == ((v >> sh) & bv64(1))))
            O.prove(p, z3.And(claims) if claims else z3.BoolVal(True), "entry i of bits(k, e) is bit k-1-i of the value (MSB first)",
                    lambda mod: {"family": "control", "k": mval(mod, k, False), "v": mval(mod, v)},
                    lambda mod, v=v: B.bits_scenarios(mval(mod, k, False), mval(mod, v)), B.control_judge, extra=c2)
    # pass-through kinds
    for nm in ("X", "Z", "C", "Number"):
        cond = [tag == bv64(m.vidx("DataEntry", nm))]
        for p in paths:
            if p.outcome != "return":
                continue
            r, _ = O.solve(list(p.pc) + cond, want_model=False)
            if r != "sat":
                continue
            eng.focus(p)
            out = vec_slice(eng, eng.field(eng.downcast(p.ret, "Ok"), 0))
            e0 = eng.elem(out, bv64(0))
            cl = z3.And(eng.tag_of(p.ret, None) == bv64(0), eng.length(out) == bv64(1), eng.tag_of(e0, None) == tag)
            if nm == "Number":
                cl = z3.And(cl, eng.scalar(eng.field(eng.downcast(e0, "Number"), 0, "i64")) ==
                            eng.scalar(eng.field(eng.downcast(de, "Number"), 0, "i64")))
            R.prove(O, p, cl, "%s entries pass through unchanged" % nm, extra=cond)


@obligation("C01/frames", desc="FramedMap (bounded: <= 3 bindings, <= 2 frames): push_frame records the current length; "
            "pop_frame truncates to the recorded length (0 if none) and removes that record; set rebinds only within the "
            "innermost frame, otherwise appends; get returns the innermost (last) binding of the name")
def frames(O):
    m = O.mir
    R = rep()
    # push_frame / pop_frame
    for meth in ("push_frame", "pop_frame"):
        fn = O.find("::" + meth, file="framed_map.rs", param0="&mut FramedMap")
        eng = O.engine()
        NV, NF = 3, 2

        def setup(eng_, st, fr, NV=NV, NF=NF):
            me = eng_.deref(fr.locals[1])
            vals = [build.struct([Node("k%d" % i, ty="K"), Node("v%d" % i, ty="V")]) for i in range(NV)]
            from ..sym import assign_node
            vv = build.vec_of(eng_, vals)
            nv = z3.BitVec("nvals", 64)
            vv.vec.length = nv
            st.pc.append(z3.ULE(nv, bv64(NV)))
            assign_node(eng_.field(me, m.fidx("FramedMap", "values")), vv)
            fs = build.vec_of(eng_, [Node("f%d" % i, ty="usize") for i in range(NF)], "Vec<usize>")
            nf = z3.BitVec("nframes", 64)
            fs.vec.length = nf
            st.pc.append(z3.ULE(nf, bv64(NF)))
            assign_node(eng_.field(me, m.fidx("FramedMap", "frame_stack")), fs)
        paths = O.explore(eng, fn, setup=setup)
        O.witness([p for p in paths if p.outcome == "return"], "%s returns" % meth)
        nv, nf = z3.BitVec("nvals", 64), z3.BitVec("nframes", 64)
        for p in paths:
            eng.focus(p)
            if p.outcome == "panic":
                R.fail(O, p, "%s panics: %s" % (meth, p.detail))
                continue
            if p.outcome != "return":
                continue
            me = eng.deref(p.args.fields[1])
            vals = vec_slice(eng, eng.field(me, m.fidx("FramedMap", "values")))
            fs = vec_slice(eng, eng.field(me, m.fidx("FramedMap", "frame_stack")))
            if meth == "push_frame":
                top = eng.scalar(eng.elem(fs, nf), "usize") if True else None
                R.prove(O, p, z3.And(eng.length(fs) == nf + bv64(1), eng.length(vals) == nv),
                        "push_frame adds one frame and keeps all bindings")
                # the recorded value is the current number of bindings
                last = None
                for ix, e in (fs.elems or []):
                    if z3.is_true(z3.simplify(ix == nf)) or z3.eq(z3.simplify(ix), z3.simplify(nf)):
                        last = e
                if last is None:
                    R.fail(O, p, "push_frame does not record a frame start")
                else:
                    R.prove(O, p, eng.scalar(last, "usize") == nv, "the new frame starts at the current end of the bindings")
            else:
                f_top = z3.If(nf == bv64(0), bv64(0),
                              z3.If(nf == bv64(1), z3.BitVec("f0", 64), z3.BitVec("f1", 64)))
                want_len = z3.If(z3.ULT(f_top, nv), f_top, nv)
                R.prove(O, p, z3.And(eng.length(vals) == want_len,
                                     eng.length(fs) == z3.If(nf == bv64(0), bv64(0), nf - bv64(1))),
                        "pop_frame drops exactly the bindings of the innermost frame and that frame's record")


@obligation("C01/parser-scoping", desc="parser arms build the scopes the statement prescribes: loop / repeat push a frame for "
            "their counter around the body only (bound parsed outside), while opens no scope, let binds after its "
            "initialiser")
def parser_scoping(O):
    from . import C11
    W = dri.WithRep(O, rep())
    for ob in ("let", "loop", "repeat", "while"):
        C11.SCOPE_OBS[ob](W)


# ------------------------------------------------------------------ parser: the statement built for each form

def _same_value(a, b):
    return a is not None and b is not None and a.root == b.root and a.path == b.path


STATEMENT_FORMS = {
    # form: (token prefix, Stmt variant, [(field index, sub-parser event suffix, which occurrence)])
    "let": (("Let", "Ident", "Equal", "Semi"), "Let", [(1, "parse_expr", 0)]),
    "loop": (("Loop", "LParen", "Ident", "Comma", "RParen", "Eol"), "Loop", [(1, "parse_expr", 0), (2, "parse_stmt_block", 0)]),
    "while": (("While", "LParen", "RParen", "Eol"), "While", [(0, "parse_expr", 0), (1, "parse_stmt_block", 0)]),
    "repeat": (("Repeat", "LParen", "RParen"), "Loop", [(1, "parse_expr", 0)]),
    "resetRandom": (("ResetRandom", "Semi"), "ResetRandom", []),
}


def _reg_statement(form):
    fixed, variant, subs = STATEMENT_FORMS[form]

    @obligation("C01/parser-statements[%s]" % form, profiles=("dev",),
                desc="parser arm for `%s` (sub-parsers as events): whenever the statement is accepted the block holds exactly one "
                     "statement, of kind %s, built from exactly what the sub-parsers returned (bound / condition / initialiser / "
                     "body unchanged%s)" % (form, variant, "; a repeat is a loop over the one row with the implicit counter n, "
                                                            "whatever its bound" if form == "repeat" else ""))
    def _ob(O, form=form, fixed=fixed, variant=variant, subs=subs):
        from . import C09, C11
        from ..itermodels import str_id, _str_node
        R = rep()
        m, eng, ts, paths = C09.explore_block(O, 0, None, None, 1, keep=C11.SCOPE_KEEP, fixed=fixed,
                                              keep_outcomes=lambda oc: oc in ("return", "cut", "panic"))
        nok = 0
        for p in paths:
            eng.focus(p)
            if p.outcome != "return":
                continue
            rt = eng.tag_of(p.ret, None)
            r, _ = O.solve(list(p.pc) + [rt == bv64(0)], want_model=False)
            if r != "sat":
                continue
            nok += 1
            ok = [rt == bv64(0)]
            blk = vec_slice(eng, eng.field(eng.downcast(p.ret, "Ok"), 0))
            ln = z3.simplify(eng.length(blk))
            if not z3.is_bv_value(ln) or ln.as_long() != 1 or not blk.elems:
                R.fail(O, p, "`%s` puts %s statements into the block instead of one" % (form, ln), extra=ok)
                continue
            st = blk.elems[0][1]
            if not R.prove(O, p, eng.tag_of(st, None) == bv64(m.vidx("Stmt", variant)),
                           "`%s` is parsed into a %s statement" % (form, variant), extra=ok):
                continue
            pay = eng.downcast(st, variant)
            bad = None
            for fidx, suffix, occ in subs:
                evs = [e for e in p.calls() if e.norm.endswith(suffix)]
                if len(evs) <= occ:
                    bad = "no %s call" % suffix
                    break
                want = eng.field(eng.downcast(evs[occ].ret, "Ok"), 0)
                got = eng.field(pay, fidx)
                if not _same_value(got, want):
                    bad = "field %d of the statement is not what %s returned" % (fidx, suffix)
                    break
            if bad is None and form == "repeat":
                inner = vec_slice(eng, eng.field(pay, 2))
                il = z3.simplify(eng.length(inner))
                rows = [e for e in p.calls() if e.norm.endswith("parse_data_row")]
                if not z3.is_bv_value(il) or il.as_long() != 1 or not inner.elems or len(rows) != 1:
                    bad = "the repeat loop does not hold exactly the one row"
                else:
                    row = inner.elems[0][1]
                    if not R.prove(O, p, eng.tag_of(row, None) == bv64(m.vidx("Stmt", "DataRow")), "repeat body is the data row", extra=ok):
                        continue
                    if not _same_value(eng.field(eng.downcast(row, "DataRow"), 0), eng.field(eng.downcast(rows[0].ret, "Ok"), 0)):
                        bad = "the row inside the repeat loop is not what parse_data_row returned"
                    else:
                        # the counter's name: the String made from the literal "n"
                        f0 = eng.field(pay, 0)
                        mk = [e for e in p.trace if e.kind == "call" and e.ret is not None and e.ret.root == f0.root]
                        lit_ = None
                        if mk and mk[0].args:
                            sn = _str_node(eng, mk[0].args[0])
                            lit_ = sn.conc if isinstance(sn.conc, str) else None
                        if lit_ != "n":
                            bad = "the implicit counter of repeat is not made from the literal \"n\" (%r)" % (lit_,)
            if bad:
                R.fail(O, p, "`%s`: %s" % (form, bad), extra=ok)
        if nok == 0:
            O.inconclusive("vacuous: the statement is never accepted")
        O.note("%d paths, %d accepting" % (eng.npaths, nok))
    return _ob


STATEMENT_OBS = {}
for _f in STATEMENT_FORMS:
    STATEMENT_OBS[_f] = _reg_statement(_f)


@obligation("C01/variables-first", profiles=("dev",),
            desc="EvalContext::get: a name bound by let / loop / repeat is read from the variable frames, whatever the device "
                 "reports for an output of the same name (the environment the rows are evaluated in is the program's)")
def variables_first(O):
    from . import C04
    C04.ctx_get(O, rep())


@obligation("C01/construction-answer-installed", profiles=("dev",),
            desc="try_new / new_with_outputs: the environment of statements that run before the first row (a loop bound, a while "
                 "condition, a let that names a device output) is the answer to the constructor's call")
def construction_answer_installed(O):
    from . import C04
    C04.construction_answer(O, rep())


@obligation("C01/variables-survive-faults", profiles=("dev",),
            desc="extract_output_values: the variable maps are swapped exactly twice on every path (error paths included), so the "
                 "bindings and loop frames the following rows are evaluated in are the program's, also after a row whose output "
                 "extraction failed")
def variables_survive_faults(O):
    from . import C04
    C04.swap_restored(O, rep())


@obligation("C01/parser-bits-entry", profiles=("dev",),
            desc="parse_data_row on `bits(k, e)` with one header column (k = 1): the entry stored is a Bits entry - expanded at run "
                 "time into one-bit values - never the bare expression")
def parser_bits_entry(O):
    from . import C12
    R = rep()
    C12.bits_entry_kept(O, dri.Rep(dict(R.facts), B.bits_scenarios(1, 7) + B.bits_scenarios(1, -2) + list(R.battery), R.judge))


@obligation("C01/kani-frames-set", profiles=("dev",),
            desc="second engine (Kani / CBMC over the compiled code, FramedMap<u8, i64>): two `set`s with distinct keys, "
                 "push_frame, one more `set` with an arbitrary key (equal to either earlier key or new), then pop_frame - the "
                 "new binding is the visible one inside the frame and both earlier bindings are intact afterwards (a counter "
                 "shadows, it never overwrites, a binding of the enclosing scope); keys and values symbolic, shape concrete")
def kani_frames_set(O):
    from . import kani_obs
    kani_obs.framed_map_kernels(O, "C01")
