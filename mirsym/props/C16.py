"""C16 - loading a .dig file is total and recovers the circuit interface and its tests.

roxmltree is an uninterpreted environment (every Node method is an event with an arbitrary result), so the
obligations are about what the crate does with the XML it is shown: which node it reads an attribute from,
defaults, accumulation of bidirectional pins over all tests, load_test / load_test_by_name, and the panic sites
of dig.rs. Totality over arbitrary XML text is roxmltree's.
"""
import re
import time

import z3

from ..oblig import obligation
from ..sym import bv64, Node
from ..models import vec_slice
from .. import build
from .common import initial, mval, T
from . import batteries as B
from . import dri
from ..replay import Scenario


def rep():
    return dri.Rep({"family": "dig"}, B.dig_battery(), B.dig_judge)


@obligation("C16/load-test", desc="load_test(n): n >= len -> Err(IndexOutOfBounds{n, len}); otherwise parse source n and bind "
            "it to a clone of the file's signals; load_test_by_name: first test whose name equals the argument (<= 3 tests), "
            "else Err(TestNotFound)")
def load_test(O):
    m = O.mir
    R = rep()
    fn = O.find("::load_test", file="lib.rs")
    eng = O.engine()
    eng.keep_events(r"from_str$", r"with_signals$", r"with_source$", r"named_source$", r"<Vec as Clone>::clone")
    paths = O.explore(eng, fn)
    me = eng.deref(initial(fn, 1))
    tcs = vec_slice(eng, eng.field(me, m.fidx("File", "test_cases")))
    n = eng.scalar(initial(fn, 2))
    ln = eng.length(tcs)
    O.witness([p for p in paths if p.outcome == "return"], "in range", [z3.ULT(n, ln)])
    O.witness([p for p in paths if p.outcome == "return"], "out of range", [z3.UGE(n, ln)])
    for p in paths:
        eng.focus(p)
        if p.outcome == "panic":
            R.fail(O, p, "load_test panics: %s" % p.detail)
            continue
        if p.outcome != "return":
            continue
        rt = eng.tag_of(p.ret, None)
        fs = p.calls(r"from_str$")
        r, _ = O.solve(list(p.pc) + [z3.UGE(n, ln)], want_model=False)
        if r == "sat":
            R.prove(O, p, rt == bv64(1), "an index past the last test is an error", extra=[z3.UGE(n, ln)])
            if fs:
                R.fail(O, p, "a test is parsed although the index is out of range", extra=[z3.UGE(n, ln)])
        r, _ = O.solve(list(p.pc) + [z3.ULT(n, ln)], want_model=False)
        if r == "sat":
            cond = [z3.ULT(n, ln)]
            if len(fs) != 1:
                R.fail(O, p, "load_test does not parse exactly one source", extra=cond)
                continue
            # the source parsed is test_cases[n].source (string identity)
            from ..itermodels import str_id, _str_node
            got_sid = str_id(eng, _str_node(eng, fs[0].args[0]))
            eng.focus(None)
            tc_n = eng.elem(tcs, n)
            want_sid = str_id(eng, eng.field(tc_n, m.fidx("TestCaseDescription", "source")))
            eng.focus(p)
            R.prove(O, p, got_sid == want_sid, "load_test parses the source of the selected test", extra=cond)
            ws = p.calls(r"with_signals$")
            r2, _ = O.solve(list(p.pc) + cond + [rt == bv64(0)], want_model=False)
            if r2 == "sat":
                if len(ws) != 1:
                    R.fail(O, p, "a test is returned without being bound to the file's signals", extra=cond + [rt == bv64(0)])
                    continue
                cl = p.calls(r"<Vec as Clone>::clone")
                sig_f = eng.field(eng.deref(p.args.fields[1]), m.fidx("File", "signals"))
                if not cl or T(eng, cl[0].args[0]) is not sig_f or ws[0].args[1].root != cl[0].ret.root:
                    R.fail(O, p, "the test is not bound to (a clone of) the file's signal list", extra=cond + [rt == bv64(0)])
                got = eng.field(eng.downcast(p.ret, "Ok"), 0)
                wr = eng.field(eng.downcast(ws[0].ret, "Ok"), 0)
                if got.root != wr.root:
                    R.fail(O, p, "load_test does not return the bound test", extra=cond + [rt == bv64(0)])
    # by name
    fn2 = O.find("::load_test_by_name")
    eng2 = O.engine()
    eng2.iter_bound = 3
    eng2.keep_events(r"load_test$", r"to_string$")
    NT = 3

    def setup(eng_, st, fr):
        me2 = eng_.deref(fr.locals[1])
        tcs2 = [build.struct([Node("tname%d" % k, ty="String"), Node("tsrc%d" % k, ty="String")], "TestCaseDescription") for k in range(NT)]
        v = build.vec_of(eng_, tcs2, "Vec<TestCaseDescription>")
        nn = z3.BitVec("ntests", 64)
        v.vec.length = nn
        st.pc.append(z3.ULE(nn, bv64(NT)))
        from ..sym import assign_node
        assign_node(eng_.field(me2, m.fidx("File", "test_cases")), v)
    paths2 = O.explore(eng2, fn2, setup=setup)
    O.witness([p for p in paths2 if p.outcome == "return"], "load_test_by_name returns")
    from ..itermodels import str_id, _str_node
    nn = z3.BitVec("ntests", 64)
    tn = [z3.BitVec("tname%d.sid" % k, 64) for k in range(NT)]
    for p in paths2:
        eng2.focus(p)
        if p.outcome == "cut":
            continue
        if p.outcome != "return":
            R.fail(O, p, "load_test_by_name: %s %s" % (p.outcome, p.detail))
            continue
        want = str_id(eng2, _str_node(eng2, p.args.fields[2]))
        lt = p.calls(r"load_test$")
        first = []
        for k in range(NT):
            first.append(z3.And([z3.ULT(bv64(k), nn), tn[k] == want] + [tn[j] != want for j in range(k)]))
        none = z3.And([z3.Or(z3.UGE(bv64(k), nn), tn[k] != want) for k in range(NT)])
        if lt:
            idx = eng2.scalar(lt[0].args[1], "usize")
            R.prove(O, p, z3.And([z3.Implies(first[k], idx == bv64(k)) for k in range(NT)] + [z3.Not(none)]),
                    "load_test_by_name loads the FIRST test with that label")
            if p.ret.root != lt[0].ret.root:
                R.fail(O, p, "load_test_by_name does not return load_test's result")
        else:
            R.prove(O, p, z3.And(none, eng2.tag_of(p.ret, None) == bv64(1)), "no test is loaded only if no label matches, and that is an error")
    O.note("load_test_by_name bounded to %d tests" % NT)


@obligation("C16/attribute-lookup", desc="attrib(node, label): the value returned is the LAST element child of an entry whose "
            "FIRST element child is a <string> with exactly that text (a value that happens to spell a key is not a key)")
def attribute_lookup(O):
    R = rep()
    fn = O.find("attrib")
    eng = O.engine()
    eng.max_visits = 3
    paths = O.explore(eng, fn)
    n = 0
    for p in paths:
        eng.focus(p)
        if p.outcome == "panic":
            R.fail(O, p, "attrib panics: %s" % p.detail)
            continue
        if p.outcome != "return":
            continue
        last = p.calls(r"last_element_child$")
        if not last:
            continue
        n += 1
        # the entry whose last child is returned (events carry the names of the nodes they were applied to)
        entry_name = tuple(last[-1].tnames[0]) if last[-1].tnames[0] else None
        firsts = [e for e in p.calls(r"first_element_child$") if e.tnames[0] and tuple(e.tnames[0]) == entry_name]
        if not firsts or entry_name is None:
            R.fail(O, p, "an attribute value is returned from an entry whose first child was never looked at")
            continue
        key_root = firsts[-1].ret.root
        texts = [e for e in p.calls(r"Node::text$") if e.tnames[0] and e.tnames[0][0] == key_root]
        tags = [e for e in p.calls(r"Node::tag_name$") if e.tnames[0] and e.tnames[0][0] == key_root]
        if not texts or not tags:
            R.fail(O, p, "the key compared with the label is not the entry's first element child")
            continue
        if p.ret.root != last[-1].ret.root:
            R.fail(O, p, "attrib does not return the entry's last element child")
    if n == 0:
        O.inconclusive("vacuous: attrib never returns a value")


@obligation("C16/signal-extraction", desc="extract_signal_data: label from the `Label` attribute, width from `Bits` or 1 when "
            "absent/unparsable; extract_input_data: z=\"true\" -> high-Z, else the parsed `v`, default Value(0)")
def signal_extraction(O):
    m = O.mir
    R = rep()
    fn = O.find("extract_signal_data")
    eng = O.engine()
    eng.keep_events(r"^attrib$", r"Node::text$", r"str>::parse")
    paths = O.explore(eng, fn)
    O.witness([p for p in paths if p.outcome == "return"], "extract_signal_data returns")
    for p in paths:
        eng.focus(p)
        if p.outcome == "panic":
            R.fail(O, p, "extract_signal_data panics: %s" % p.detail)
            continue
        if p.outcome != "return":
            continue
        at = p.calls(r"^attrib$")
        labels = []
        for e in at:
            t = T(eng, e.args[1])
            labels.append(t.conc if t is not None and isinstance(t.conc, str) else None)
        rt = eng.tag_of(p.ret, None)
        r, _ = O.solve(list(p.pc) + [rt == bv64(1)], want_model=False)
        if r != "sat":
            continue
        if labels[:1] != ["Label"] or "Bits" not in labels:
            R.fail(O, p, "signal data is read from attributes %s" % labels, extra=[rt == bv64(1)])
            continue
        bits_ev = at[labels.index("Bits")]
        bt = eng.tag_of(bits_ev.ret, None)
        tup = eng.field(eng.downcast(p.ret, "Some"), 0)
        width = eng.scalar(eng.field(tup, 1, "usize"))
        R.prove(O, p, z3.Implies(bt == bv64(0), width == bv64(1)), "a pin without a Bits attribute is one bit wide", extra=[rt == bv64(1)])


@obligation("C16/bidirectional-accumulates", desc="File::parse (<= 2 tests, <= 2 header names each): the set of read-back "
            "(`_out`) inputs is created once and every test inserts into that same set, which is the one finally applied to "
            "the signals; the panic sites of File::parse are not reachable from the checks that precede them")
def bidirectional_accumulates(O):
    m = O.mir
    R = rep()
    fn = O.find("::parse", file="dig.rs", param0="&str")
    eng = O.engine()
    eng.iter_bound = 2
    eng.max_visits = 4
    eng.keep_events(r"HeaderParser::", r"visual_elements$", r"^attrib$", r"extract_")
    eng.record_inlined = False
    eng.deadline = time.time() + 300
    paths = O.explore(eng, fn)
    n = 0
    for p in paths:
        eng.focus(p)
        if p.outcome == "panic":
            d = p.detail or ""
            if p.site.split("::")[-1].startswith("text_pos_to_range"):
                O.assumed_unreachable("text_pos_to_range: %s" % d[:60], "roxmltree positions are 1-based (row >= 1, col >= 1)")
                continue
            inv = None
            if "We already checked" in d or "panic_fmt" in d or "unreachable" in d:
                inv = ("a name enters the read-back set only after an input pin of that name was found in the signal list, and "
                       "the list is not changed in between")
            O.fail_path(p, "File::parse panics at %s: %s" % (p.site.split("::")[-1], d[:80]),
                        {"family": "dig", "what": "File::parse panic", "panic": d[:50]}, R.battery, R.judge, assumed=inv)
            continue
        if p.outcome != "return":
            continue
        news = p.calls(r"HashSet::new$")
        ins = p.calls(r"HashSet::insert$")
        clears = [e for e in p.calls() if re.search(r"HashSet::(clear|drain|retain)$", e.norm)]
        if clears:
            R.fail(O, p, "a name set is emptied while the tests are being scanned")
            continue
        n += 1
        # the signal list is not touched while the headers are being scanned: every store through a reference (a pin's kind
        # changed in place) comes after the last header was parsed - a pin promoted half-way would no longer be found as the
        # Input it is when a later test reads it back too
        hp = p.calls(r"HeaderParser::")
        if hp:
            last_hp = max(p.trace.index(e) for e in hp)
            early = [w for w in p.state.extra.get("writes", []) if w[2] <= last_hp and w[3] == 1]
            if early:
                R.fail(O, p, "File::parse changes a signal (%s) before all test headers were scanned" % early[0][1])
                continue
        # no HashSet is created after the first insert (per-test sets would be)
        if news and ins:
            first_ins = p.trace.index(ins[0])
            late = [e for e in news if p.trace.index(e) > first_ins]
            late_collects = [e for e in p.calls() if e.norm.startswith("collect[HashSet") and first_ins < p.trace.index(e)
                             and p.trace.index(e) < p.trace.index(ins[-1])]
            if late or late_collects:
                R.fail(O, p, "a new name set is built in the middle of scanning the tests")
    if n == 0:
        O.inconclusive("vacuous: File::parse never returns")
    O.note("%d paths (%s)" % (eng.npaths, eng.outcomes))


@obligation("C16/default-value-parse", desc="extract_input_data and its closures: the `v` attribute of an InDefault entry is parsed "
            "as i64 (the type of input values) by str::parse - the one conversion, straight into InputValue::Value - so every "
            "default a 64-bit signal can have, negative ones included, is kept (type facts read from the MIR call sites)")
def default_value_parse(O):
    import re
    m = O.mir
    R = rep()
    fns = [(n, f) for n, f in m.funcs.items() if re.search(r"(^|::)extract_input_data(::\{closure#\d+\})*$", n)]
    if not fns:
        O.inconclusive("extract_input_data not found")
        return
    parses = []
    casts = []
    for n, f in fns:
        O.rec["functions"][n.split("dig::")[-1]] = f.text_hash
        for bb, (stmts, term) in f.blocks.items():
            if term and term[0] == "call" and re.search(r"str>::parse::<|FromStr>::from_str", str(term[2])):
                mm = re.search(r"parse::<([^>]*)>", str(term[2])) or re.search(r"<(\w+) as FromStr>", str(term[2]))
                parses.append((n, mm.group(1) if mm else "?"))
            for st in stmts:
                if st[0] == "assign" and st[2][0] == "cast" and "IntToInt" in str(st[2]):
                    casts.append((n, str(st[2])[:80]))
    O.rec["paths"] += len(fns)
    bad = []
    if len(parses) != 1:
        bad.append("the default value goes through %d parse calls (%s)" % (len(parses), parses))
    elif parses[0][1].strip() != "i64":
        bad.append("the default value is parsed as %s, not as i64" % parses[0][1])
    if casts:
        bad.append("the parsed default is converted between integer types (%s)" % casts[0][1])
    for b_ in bad:
        O.violation(b_, None, dict(R.facts, what=b_[:80]), R.battery, R.judge, b_)
    O.note("parse calls: %s" % parses)


def malformed_xml_scenarios():
    """malformed documents whose XML error carries a position: LF / CRLF, ASCII / multi-byte text before the error, error on
    early and late rows - loading must return an error (with a location), never panic"""
    out = []
    lines = ["<?xml version=\"1.0\" encoding=\"utf-8\"?>", "<circuit>", "<version>1</version>", "<a>\u00fc\u00df</a>", "<b>\u4fe1\u53f7\u00df</b>",
             "<c>gr\u00f6\u00dfe \U0001F600</c>", "<visualElements>"]
    for eol in ("\n", "\r\n"):
        for k in range(1, len(lines) + 1):
            for bad in ("</wrong>", "<x></y>", "<<", "&bogus;", "<e a=1>"):
                doc = eol.join(lines[:k] + [bad]) + eol
                out.append(Scenario(doc, [], mode="dig", expect={"dig": "err"},
                                    note="malformed XML %r on row %d, line ends %r" % (bad, k + 1, eol)))
    for eol in ("\n", "\r\n", ""):
        for tail in ("<!-- cut off", "<![CDATA[ cut off", "<visualElement", "<a b=\"c", "text \u00e4\u00f6", "<a>&amp", "<?pi"):
            for k in (1, 3, 6):
                out.append(Scenario("\n".join(lines[:k] + [tail]) + eol, [], mode="dig", expect={"dig": "err"},
                                    note="document cut off inside %r after %d lines, final line end %r" % (tail, k, eol)))
                out.append(Scenario("\r\n".join(lines[:k] + [tail]) + eol + eol, [], mode="dig", expect={"dig": "err"},
                                    note="CRLF document cut off inside %r, two trailing line ends %r" % (tail, eol)))
    # text lines that END in characters of 2, 3 and 4 bytes, the error on the row below (rows 2 .. 12): a line start that is
    # off by a few bytes lands inside one of them
    tails = ["\u00df", "\u4fe1", "\U0001F600", "\u00fc\u00df", "\u53f7\u00df", "x\U0001F600\u00e9"]
    for eol in ("\r\n", "\n", "\r"):
        for r in range(2, 13):
            for shift in range(3):
                body = ["<circuit>"] + ["t%d %s" % (i, tails[(i + shift) % len(tails)]) for i in range(r - 2)]
                for bad in ("</wrong>", "\u00e4<<"):
                    out.append(Scenario(eol.join(body + [bad]) + eol, [], mode="dig", expect={"dig": "err"},
                                        note="XML error on row %d below lines ending in multi-byte characters, line ends %r" % (r, eol)))
    return out


@obligation("C16/error-position-no-panic", desc="text_pos_to_range (location of an XML error; roxmltree positions are 1-based, "
            "the sum of line lengths stays below the text length): apart from arithmetic that the contract excludes, the "
            "function consists of the iterator chain lines / take / map / sum - no string slicing or other operation that "
            "can panic on a position that is not a character boundary")
def error_position_no_panic(O):
    import re
    R = dri.Rep(dict(rep().facts, what="XML error position"), malformed_xml_scenarios() + list(rep().battery), rep().judge)
    fn = O.find("text_pos_to_range")
    eng = O.engine()
    eng.iter_bound = 3
    paths = O.explore(eng, fn)
    allowed = (r"core::str::<impl str>::lines$", r"<Lines as Iterator>::take$", r"<Take as Iterator>::map$", r"<Map as Iterator>::sum$")
    n = 0
    for p in paths:
        eng.focus(p)
        other = [e.norm for e in p.trace if e.kind == "call" and not any(re.search(a, e.norm) for a in allowed)]
        if other:
            R.fail(O, p, "text_pos_to_range performs %s, which may panic or misplace the location for positions off a "
                         "character boundary" % other[0])
            continue
        if p.outcome == "panic":
            if "overflow" in (p.detail or ""):
                O.assumed_unreachable("text_pos_to_range: %s" % p.detail, "roxmltree positions are 1-based (row >= 1, col >= 1) and the "
                                      "summed line lengths plus the column stay below usize::MAX")
                continue
            R.fail(O, p, "text_pos_to_range panics: %s" % p.detail)
            continue
        if p.outcome == "return":
            n += 1
    if n == 0:
        O.inconclusive("vacuous: text_pos_to_range never returns")


@obligation("C16/test-headers-lex-without-panic", desc="dig::File::parse runs the header lexer over every test's source: the generated "
            "header lexer (executed from MIR over symbolic bytes, <= 6 bytes of arbitrary well-formed UTF-8 left) never yields an "
            "error item - the arm HeaderParser::parse marks unreachable!() - so a document with any characters in a test header "
            "loads or is an error, never a panic")
def test_headers_lex(O):
    from . import C09
    C09.HEADER_LEXER_UTF8(dri.WithRep(O, rep()))
