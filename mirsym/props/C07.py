"""C07 - values from the program are reduced to the width of the signal they drive.

Kernels: the per-signal closures of generate_input_entries / generate_expected_entries (acyclic MIR) and the
closure of with_signals that creates virtual signals.  All widths 1..=64 and all 64-bit values are symbolic.
"""
import z3

from ..oblig import obligation
from ..sym import bv64
from .common import initial, mask_ref, mval, s64, no_panic_judge
from ..replay import Scenario, lit


def _views(O, eng, fn, entries_field=1):
    """Initial-state terms read by the two closures: (index node, bits term, entry node, in-bounds list)."""
    m = O.mir
    env = eng.deref(initial(fn, 1))
    signals = eng.deref(eng.field(env, 0, "&[Signal]"))
    entries = eng.deref(eng.field(env, 1, "&[stmt::DataEntry]"))
    idx = eng.deref(initial(fn, 2))
    ent = eng.downcast(idx, "Entry")
    # EntryIndex::Entry { entry_index, signal_index }
    ei = eng.scalar(eng.field(ent, 0, "usize"))
    si = eng.scalar(eng.field(ent, 1, "usize"))
    sig = eng.elem(signals, si)
    bits = eng.scalar(eng.field(sig, m.fidx("Signal", "bits"), "usize"))
    entry = eng.elem(entries, ei)
    inb = [z3.ULT(si, eng.length(signals)), z3.ULT(ei, eng.length(entries))]
    return idx, bits, entry, inb, env, ei


def _want(bits, n):
    return s64(n & ((1 << bits) - 1)) if bits < 64 else s64(n)


def _scenario_input(bits, n):
    """Family of public-API scenarios driving program value n into an input signal of the given width: alone,
    after an output in the signal list, among inputs of other widths, and as a bidirectional signal."""
    w = str(_want(bits, n))
    ob = 8 if bits != 8 else 5
    out = []
    out.append(Scenario("A\n(%s)\n" % lit(n), [("in", "A", bits, 0)], expect={"sig": "A", "want": w},
                        note="input path bits=%d n=%d" % (bits, n)))
    out.append(Scenario("A Y\n(%s) X\n" % lit(n), [("out", "Y", 3), ("in", "A", bits, 0)], default_answer=[0],
                        expect={"sig": "A", "want": w}, note="output listed before the input"))
    out.append(Scenario("B A Y\n(%s) (%s) X\n" % (lit(n), lit(n)),
                        [("out", "Y", 3), ("in", "B", ob, 0), ("out", "Q", 2), ("in", "A", bits, 0)], default_answer=[0, 0],
                        expect={"sig": "A", "want": w, "sig2": "B", "want2": str(_want(ob, n))},
                        note="mixed widths and directions"))
    out.append(Scenario("A A_out\n(%s) X\n" % lit(n), [("bidir", "A", bits, "Z")], default_answer=[0],
                        expect={"sig": "A", "want": w}, note="bidirectional"))
    # one header column bound to two signals of different widths: `A_out` is an input pin of that name and also the
    # read-back column of the bidirectional signal A; each signal is reduced to its own width
    for ow in sorted(set((4, 13, 64)) - {bits}):
        out.append(Scenario("A_out\n(%s)\n" % lit(n), [("in", "A_out", bits, 0), ("bidir", "A", ow, "Z")], default_answer=[0],
                            expect={"sig": "A_out", "want": w}, note="column shared with a bidirectional signal of width %d" % ow))
    # the caller changes the signal's width (a public field of the bound test) before running: the width in force is the signal's
    for nb in sorted(set((16, 64, 3)) - {bits}):
        for v in (n, 0x12345, -1):
            out.append(Scenario("A\n(%s)\n" % lit(v), [("in", "A", bits, 0)], set_bits=[("A", nb)],
                                expect={"sig": "A", "want": str(_want(nb, v))},
                                note="width of A changed from %d to %d after binding, value %d" % (bits, nb, v)))
    # the same value on consecutive rows with a failing row in between: what is handed over is the row's own value
    out.append(Scenario("A\n5\n(%s)\n(%s)\n5\n" % (lit(n), lit(n)), [("in", "A", bits, 0)], fail_at=[2], stop_on_err=False,
                        expect={"handed": ["0" if False else str(_want(bits, 5)), w, w, str(_want(bits, 5))]},
                        note="repeated entry after a row whose driver call failed"))
    return out


def _judge_input(bits, n):
    def chk(o, sc):
        if not o.ok("NEW") or len(o.calls) < 2:
            return "row was not delivered to the driver: %s" % o.lines[-3:]
        if "handed" in sc.expect:
            got = [dict((nm, v) for nm, v, _, _ in c[2]).get("A") for c in o.calls[1:]]
            if got != sc.expect["handed"]:
                return "driver was handed A = %s over the run, expected %s (%s)" % (got, sc.expect["handed"], sc.note)
            return None
        for key, wkey in (("sig", "want"), ("sig2", "want2")):
            if key not in sc.expect:
                continue
            got = dict((nm, v) for nm, v, _, _ in o.calls[1][2]).get(sc.expect[key])
            if got != sc.expect[wkey]:
                return "driver received %s=%s, program value %d, expected %s (%s)" % (
                    sc.expect[key], got, n, sc.expect[wkey], sc.note)
            if o.rows and dict((nm, v) for nm, v, _ in o.rows[0]["inputs"]).get(sc.expect[key]) != sc.expect[wkey]:
                return "row reports input %s differently from the reference %s" % (sc.expect[key], sc.expect[wkey])
        return None
    return no_panic_judge(chk)


@obligation("C07/input-mask", profiles=("dev", "release"),
            desc="generate_input_entries closure: for an Entry index whose evaluated entry is Number(n) and a signal of "
                 "width bits in 1..=64 the produced InputEntry carries Value(n mod 2^bits) and the path does not panic; "
                 "Z passes through")
def input_mask(O):
    m = O.mir
    fn = O.find("::generate_input_entries::{closure#0}")
    eng = O.engine()
    paths = O.explore(eng, fn)
    idx, bits, entry, inb, env, ei = _views(O, eng, fn)
    changed = eng.deref(eng.field(env, 2, "&[bool]"))
    inb = inb + [z3.ULT(ei, eng.length(changed))]
    n = eng.scalar(eng.field(eng.downcast(entry, "Number"), 0, "i64"))
    T_ENTRY = bv64(m.vidx("EntryIndex", "Entry"))
    T_NUM = bv64(m.vidx("DataEntry", "Number"))
    T_Z = bv64(m.vidx("DataEntry", "Z"))
    width_ok = [z3.UGE(bits, bv64(1)), z3.ULE(bits, bv64(64))]
    cls_num = [eng.tag_of(idx, None) == T_ENTRY, entry_tag(eng, entry) == T_NUM] + inb + width_ok
    cls_z = [eng.tag_of(idx, None) == T_ENTRY, entry_tag(eng, entry) == T_Z] + inb + width_ok
    V_VALUE = bv64(m.vidx("InputValue", "Value"))
    V_Z = bv64(m.vidx("InputValue", "Z"))
    fvalue = m.fidx("InputEntry", "value")

    def facts(mod):
        return {"bits": mval(mod, bits, False), "n": mval(mod, n), "path": "input"}

    def scen(mod):
        b, v = mval(mod, bits, False), mval(mod, n)
        return _scenario_input(b, v)

    def judge(obs, sc):
        return _judge_input(0, 0)(obs, sc)

    rets = [p for p in paths if p.outcome == "return"]
    O.witness(rets, "Entry/Number return path", cls_num)
    for p in paths:
        if p.outcome == "return":
            val = eng.field(p.ret, fvalue)
            claim = z3.And(eng.tag_of(val, None) == V_VALUE,
                           eng.scalar(eng.field(eng.downcast(val, "Value"), 0, "i64")) == mask_ref(n, bits))
            O.prove(p, claim, "Number entry -> Value(n mod 2^bits)", facts, scen, judge, extra=cls_num)
            claimz = eng.tag_of(val, None) == V_Z
            O.prove(p, claimz, "Z entry -> Z", {"path": "input", "entry": "Z"}, None, None, extra=cls_z)
        elif p.outcome == "panic":
            O.fail_path(p, "panic on the Number path for a width in 1..=64: %s" % p.detail, facts, scen, judge,
                        extra=cls_num)
            O.fail_path(p, "panic on the Z path: %s" % p.detail, {"path": "input", "entry": "Z"}, None, None,
                        extra=cls_z)


def entry_tag(eng, entry):
    return eng.tag_of(entry, None)


def eval_lit(text):
    """inverse of replay.lit for the scenarios built here: '(expr)' with + - over decimals."""
    t = text.strip()
    import re
    t = re.sub(r"[^0-9()+\- ]", "", t)
    return s64(eval(t))


def _scenario_expected(bits, n):
    w = str(_want(bits, n))
    out = []
    out.append(Scenario("A Y\n0 (%s)\n" % lit(n), [("in", "A", 1, 0), ("out", "Y", bits)], default_answer=[0],
                        expect={"sig": "Y", "want": w}, note="expected path bits=%d n=%d" % (bits, n)))
    out.append(Scenario("Y A\n(%s) 0\n" % lit(n), [("out", "Y", bits), ("in", "A", 1, 0)], default_answer=[0],
                        expect={"sig": "Y", "want": w}, note="output listed first"))
    ob = 8 if bits != 8 else 5
    out.append(Scenario("A Q Y\n0 (%s) (%s)\n" % (lit(n), lit(n)),
                        [("out", "Q", ob), ("in", "A", 1, 0), ("out", "Y", bits)], default_answer=[0, 0],
                        expect={"sig": "Y", "want": w, "sig2": "Q", "want2": str(_want(ob, n))}, note="two outputs"))
    out.append(Scenario("D D_out\nZ (%s)\n" % lit(n), [("bidir", "D", bits, "Z")], default_answer=[0],
                        expect={"sig": "D", "want": w}, note="bidirectional expected"))
    for iw in sorted(set((4, 13, 64)) - {bits}):
        out.append(Scenario("D_out\n(%s)\n" % lit(n), [("in", "D_out", iw, 0), ("bidir", "D", bits, "Z")], default_answer=[0],
                            expect={"sig": "D", "want": w}, note="read-back column shared with an input pin of width %d" % iw))
    out += _scenario_virtual(n)
    return out


def _scenario_virtual(n):
    """virtual signals are 64 bits wide whatever they are computed from"""
    w = str(s64(n))
    return [Scenario("A V\ndeclare V = 0;\n0 (%s)\n" % lit(n), [("in", "A", 1, 0)], expect={"sig": "V", "want": w},
                     note="virtual constant"),
            Scenario("A Q V W\ndeclare V = Q;\ndeclare W = Q + 1;\n0 X (%s) (%s)\n" % (lit(n), lit(n)),
                     [("in", "A", 1, 0), ("out", "Q", 8)], default_answer=[1],
                     expect={"sig": "V", "want": w, "sig2": "W", "want2": w}, note="virtual alias of a narrow output")]


def _judge_expected(bits, n):
    def chk(o, sc):
        if not o.rows:
            return "no row produced: %s" % o.lines[-3:]
        for d in o.signals:
            name, b, kind = d.split(":", 2)
            if kind.startswith("virtual") and b != "64":
                return "virtual signal %s has width %s" % (name, b)
        for key, wkey in (("sig", "want"), ("sig2", "want2")):
            if key not in sc.expect:
                continue
            got = dict((nm, e) for nm, e, _, _, _ in o.rows[0]["outputs"]).get(sc.expect[key])
            if got != sc.expect[wkey]:
                return "row reports expected %s=%s, program value %d, reference %s (%s)" % (
                    sc.expect[key], got, n, sc.expect[wkey], sc.note)
        return None
    return no_panic_judge(chk)


@obligation("C07/expected-mask", profiles=("dev", "release"),
            desc="generate_expected_entries closure: Number(n) -> Value(n mod 2^bits) for bits in 1..=64 without panic; "
                 "Z -> Z and X -> X unchanged")
def expected_mask(O):
    m = O.mir
    fn = O.find("::generate_expected_entries::{closure#0}")
    eng = O.engine()
    paths = O.explore(eng, fn)
    idx, bits, entry, inb, env, ei = _views(O, eng, fn)
    n = eng.scalar(eng.field(eng.downcast(entry, "Number"), 0, "i64"))
    T_ENTRY = bv64(m.vidx("EntryIndex", "Entry"))
    width_ok = [z3.UGE(bits, bv64(1)), z3.ULE(bits, bv64(64))]
    base = [eng.tag_of(idx, None) == T_ENTRY] + inb + width_ok
    fvalue = m.fidx("ExpectedEntry", "value")

    def facts(mod):
        return {"bits": mval(mod, bits, False), "n": mval(mod, n), "path": "expected"}

    def scen(mod):
        return _scenario_expected(mval(mod, bits, False), mval(mod, n))

    def judge(obs, sc):
        return _judge_expected(0, 0)(obs, sc)

    rets = [p for p in paths if p.outcome == "return"]
    for kind in ("Number", "Z", "X"):
        cls = base + [entry_tag(eng, entry) == bv64(m.vidx("DataEntry", kind))]
        O.witness(rets, "Entry/%s return path" % kind, cls)
        for p in paths:
            if p.outcome == "return":
                val = eng.field(p.ret, fvalue)
                if kind == "Number":
                    claim = z3.And(eng.tag_of(val, None) == bv64(m.vidx("ExpectedValue", "Value")),
                                   eng.scalar(eng.field(eng.downcast(val, "Value"), 0, "i64")) == mask_ref(n, bits))
                    O.prove(p, claim, "Number entry -> Value(n mod 2^bits)", facts, scen, judge, extra=cls)
                else:
                    claim = eng.tag_of(val, None) == bv64(m.vidx("ExpectedValue", kind))
                    O.prove(p, claim, "%s entry passes through" % kind, {"path": "expected", "entry": kind},
                            [Scenario("A Y\n0 %s\n" % kind, [("in", "A", 1, 0), ("out", "Y", 8)], default_answer=[0])],
                            lambda obs, sc, kind=kind: no_panic_judge(
                                lambda o, s: None if (o.rows and o.rows[0]["outputs"][0][1] == kind) else
                                "expected column shows %s" % (o.rows[0]["outputs"][0][1] if o.rows else o.lines[-2:]))(obs, sc),
                            extra=cls)
            elif p.outcome == "panic":
                if kind == "Number":
                    O.fail_path(p, "panic on the Number path for a width in 1..=64: %s" % p.detail, facts, scen, judge,
                                extra=cls)
                else:
                    O.fail_path(p, "panic on the %s path: %s" % (kind, p.detail), {"path": "expected", "entry": kind},
                                None, None, extra=cls)


@obligation("C07/virtual-64", profiles=("dev",),
            desc="with_signals closure: every declared virtual signal becomes Signal{bits: 64, typ: Virtual}")
def virtual_64(O):
    m = O.mir
    fn = O.find("::with_signals::{closure#0}")
    eng = O.engine()
    paths = O.explore(eng, fn)
    rets = [p for p in paths if p.outcome == "return"]
    O.witness(rets, "closure returns")

    def judge(obs, sc):
        def chk(o, s):
            for d in o.signals:
                name, bits, kind = d.split(":", 2)
                if kind.startswith("virtual") and bits != "64":
                    return "virtual signal %s has width %s" % (name, bits)
            if o.rows and o.rows[0]["outputs"][-1][1] != "-1":
                return "virtual expected value shows %s for program value -1" % o.rows[0]["outputs"][-1][1]
            return None
        return no_panic_judge(chk)(obs, sc)

    sc = _scenario_virtual(-1) + _scenario_virtual(0x1FF) + _scenario_virtual(1 << 40)
    judge = lambda obs, s_: _judge_expected(0, 0)(obs, s_)
    for p in paths:
        if p.outcome == "return":
            b = eng.scalar(eng.field(p.ret, m.fidx("Signal", "bits"), "usize"))
            t = eng.tag_of(eng.field(p.ret, m.fidx("Signal", "typ")), None)
            O.prove(p, z3.And(b == bv64(64), t == bv64(m.vidx("SignalType", "Virtual"))),
                    "virtual signal is 64 bits wide", lambda mod: {"bits": mval(mod, b, False)}, sc, judge)
        elif p.outcome == "panic":
            O.fail_path(p, "panic while creating a virtual signal: %s" % p.detail, {}, sc, judge)


@obligation("C07/kani-mask-kernel", profiles=("dev",),
            desc="second engine (Kani / CBMC over the compiled code): n & bit_mask(bits) keeps exactly the low `bits` bits of n "
                 "for every width 1..=64 and every 64-bit n, without panic")
def kani_mask_kernel(O):
    from . import kani_obs
    kani_obs.mask_kernel(O, "C07")


def _c07_rep():
    from . import dri
    sc = []
    for bits, n in ((4, 0xabc), (8, 0x1234), (13, -1)):
        sc += _scenario_input(bits, n)
    # expected values stay the program's reduced value whatever the driver answers (sign-extended, stray high bits)
    S = [("in", "A", 1, 0), ("out", "Y", 4), ("out", "W", 8)]
    sc.append(Scenario("A Y W\n0 (0xF) (0x25)\n1 (0-1) 5\n", S, answers={1: [-1, 0x35], 2: [0x1F, 0x105]}, default_answer=[0, 0],
                       expect={"row_expected": [["15", "37"], ["15", "5"]], "row_outputs": [["-1", "53"], ["31", "261"]]},
                       note="driver answers outside the signal's width: expected stays the program's reduced value, output the driver's"))
    # one header column bound to a bidirectional signal's read-back AND a narrower signal of that very name
    S2 = [("bidir", "D", 8, "Z"), ("out", "D_out", 4), ("in", "A", 1, 0)]
    sc.append(Scenario("A D D_out\n0 Z (0xabc)\n", S2, default_answer=[0, 0], expect={"row_expected": [["188", "12"]]},
                       note="column D_out shared by the 8-bit read-back of D and the 4-bit output D_out: each reduced to its own width"))
    S3 = [("out", "D_out", 4), ("bidir", "D", 8, "Z"), ("in", "A", 1, 0)]
    sc.append(Scenario("A D D_out\n0 Z (0xabc)\n", S3, default_answer=[0, 0], expect={"row_expected": [["12", "188"]]},
                       note="the same with the narrower signal first in the signal list"))

    def judge(obs, sc_):
        if sc_.expect and ("row_expected" in sc_.expect or "row_outputs" in sc_.expect):
            return B_.literal_judge(obs, sc_)
        return _judge_input(0, 0)(obs, sc_)
    from . import batteries as B_
    return dri.Rep({"path": "pipeline"}, sc, judge)


@obligation("C07/reduced-once-per-signal", profiles=("dev",),
            desc="get_row runs the interpreter, the X / C expansions, the changed-flag comparison and the two entry generators and "
                 "no other pass over the evaluated entries: a value is reduced exactly once, by the closure of the signal it is "
                 "bound to (a column shared by two signals of different widths is reduced per signal)")
def reduced_once(O):
    from . import dri
    dri.get_row_is_the_pipeline(O, _c07_rep())


@obligation("C07/expected-value-is-the-programs", profiles=("dev",),
            desc="EvaluatedRow::into_data_row (<= 3 entries): the expected value of a result entry is the row's expected value as "
                 "generated (the program's value reduced to the signal's width) - not adjusted to what the driver answered")
def expected_is_programs(O):
    from . import C03, dri
    C03.zip_into_row(dri.WithRep(O, _c07_rep()))


def _c07_value_rep():
    """values whose high bits matter, bound to signals wide enough to show them"""
    from . import dri, batteries as B_
    S64 = [("in", "A", 64, 0), ("in", "B", 8, 0), ("out", "Y", 64)]
    sc = [Scenario("A B Y\n((0-200) >> 1) ((0-200) >> 1) ((0-1) >> 60)\n((1 << 63) >> 63) 0 ((0-8) >> 2)\n", S64, default_answer=[0],
                   expect={"row_inputs": [["-100", "156"], ["-1", "0"]], "row_expected": [["-1"], ["-2"]]},
                   note=">> of a negative value into 64-bit signals keeps the sign")]
    S4 = [("in", "I0", 4, 0), ("in", "I1", 4, 0), ("in", "I2", 4, 0), ("out", "Y", 8)]
    sc.append(Scenario("I0 I1 I2 Y\nbits(3, 45) X\nbits(3, (0-3)) X\nbits(1, 7) bits(1, 6) bits(1, (0-1)) X\n", S4, default_answer=[0],
                       expect={"row_inputs": [["1", "0", "1"], ["1", "0", "1"], ["1", "0", "1"]]},
                       note="bits(k, v) with v wider than k bits into 4-bit inputs: every entry is one bit of v"))

    def judge(obs, sc_):
        return B_.literal_judge(obs, sc_)
    return dri.Rep({"path": "value"}, sc, judge)


@obligation("C07/program-value[bits]", profiles=("dev", "release"),
            desc="the value a bits(k, e) group hands to each of its k columns is one bit of e (0 or 1) whatever the width of e - "
                 "so what the signal's width reduction sees is the program's value, also on signals wider than one bit")
def program_value_bits(O):
    from . import C01, dri
    C01.bits_expansion(dri.WithRep(O, _c07_value_rep()))


@obligation("C07/program-value[shift]", profiles=("dev", "release"),
            desc="BinOp::eval against the statement's semantics for all operands (>> arithmetic): the high bits of the program's "
                 "64-bit value, which signals wider than 64-k bits receive unreduced, are the statement's")
def program_value_shift(O):
    from . import C08, dri
    C08.binop_eval(dri.WithRep(O, _c07_value_rep()))


def rep():
    """battery used when an obligation cannot be decided on a changed tree (shape fallback)"""
    from . import dri
    a, b = _c07_value_rep(), _c07_rep()

    def judge(obs, sc_):
        return (a.judge if sc_ in a.battery else b.judge)(obs, sc_)
    return dri.Rep({"path": "fallback"}, list(a.battery) + list(b.battery), judge)
