"""C09 - parsing is total: any text gives a test or a located error, never a panic.

Bounded model checking of the real parser code over symbolic token sequences (see parsing.py): every sequence of
N token kinds the lexer can produce (N <= 3 in the quick tier, 4 in the thorough tier), followed by Eof, is run
through Parser::parse_stmt_block(None) with all helper functions executed from the MIR; the header parser is run
over symbolic header-token sequences. A path that ends in a panic is a counterexample: its token kinds and token
texts are rendered as source text and parsed natively.
Outside: termination, the lexer's own DFA (which bytes give which tokens) and the character-boundary clause.
"""
import re
import time
import zlib

import z3

from ..oblig import obligation
from ..sym import bv64, Node, fresh_root
from .. import build
from .common import mval, no_panic_judge
from ..replay import Scenario
from .parsing import TokenStream, kind_name

SAMPLE = {"Comma": ",", "Semi": ";", "Plus": "+", "Minus": "-", "Times": "*", "Divide": "/", "Reminder": "%", "LogicalNot": "!",
          "BinaryNot": "~", "Xor": "^", "And": "&", "Or": "|", "ShiftLeft": "<<", "ShiftRight": ">>", "Equal": "=",
          "NotEqual": "!=", "LessThanOrEqual": "<=", "GreaterThanOrEqual": ">=", "LessThan": "<", "GreaterThan": ">",
          "LParen": "(", "RParen": ")", "End": "end", "Loop": "loop", "Repeat": "repeat", "Bits": "bits", "Let": "let",
          "ResetRandom": "resetRandom", "While": "while", "Declare": "declare", "Program": "program", "Init": "init",
          "Memory": "memory", "Def": "def", "Call": "call", "Ident": "foo", "DecInt": "5", "HexInt": "0x1F", "BinInt": "0b101",
          "OctInt": "017", "Eol": "\n", "Error": "$", "Eof": ""}
IDENT_TEXTS = ["c", "C", "x", "X", "z", "Z", "random", "ite", "signExt", "n"]


def lit_id(text):
    return zlib.crc32(text.encode()) | (1 << 62) | (len(text) << 32)


def render(m, kinds, sids=None, header="A B", trailing_newline=False):
    """Source text whose body lexes to the given token kinds (idents get the text the model chose)."""
    out = []
    for i, k in enumerate(kinds):
        name = kind_name(m, k)
        txt = SAMPLE.get(name, "?")
        if name == "Ident" and sids and sids[i] is not None:
            for t in IDENT_TEXTS:
                if lit_id(t) == sids[i]:
                    txt = t
        out.append(txt)
    body = ""
    for t in out:
        if t == "\n":
            body += "\n"
        else:
            body += (" " if body and not body.endswith("\n") else "") + t
    return header + "\n" + body + ("\n" if trailing_newline else "")


# trailing comments of multi-byte characters: layout only, but they move every byte offset that an error location
# could be computed from (several lengths, so that a miscounted offset lands inside a character at least once)
DECORS = (" # µ", "\t#Ωx", " \t# µΩ größe € \U0001F600")


def literal_extremes():
    """integer literals at and beyond every radix's 64-bit boundary, in the places a number can stand: a located error or a
    test, never a panic"""
    lits = ["9223372036854775807", "9223372036854775808", "18446744073709551615", "18446744073709551616", "99999999999999999999999",
            "0x7FFFFFFFFFFFFFFF", "0x8000000000000000", "0xFFFFFFFFFFFFFFFF", "0x10000000000000000", "0XfffffffffffffffffF",
            "0777777777777777777777", "01000000000000000000000", "01777777777777777777777", "02000000000000000000000",
            "07777777777777777777777", "017777777777777777777777", "0b" + "1" * 63, "0b" + "1" * 64, "0B1" + "0" * 64, "0b" + "1" * 70,
            "00000000000000000000000000000007", "0x00000000000000000000000000001", "0b" + "0" * 80 + "1"]
    out = []
    for l in lits:
        for src in ("A B\n%s 1\n", "A B\n1 (%s)\n", "A B\nlet v = %s;\n1 1\n", "A B\nloop(i, %s)\n1 1\nend loop\n", "A B\nbits(%s, 1)\n",
                    "A B\nbits(2, %s)\n", "A B\nrepeat(%s) 1 1\n", "A B\n1 (1 + %s)"):
            out.append(Scenario(src % l, [], mode="parse", render=True, note="literal %s in %r" % (l[:14], src[:18])))
    return out


_LIT_EXTREMES = None


def parse_scenarios(m, kinds, sids, headers=("A B", "A", "A B C")):
    global _LIT_EXTREMES
    if _LIT_EXTREMES is None:
        _LIT_EXTREMES = literal_extremes()
    out = list(_LIT_EXTREMES) if any(kind_name(m, k) in ("DecInt", "HexInt", "OctInt", "BinInt") for k in kinds) else []
    for h in headers:
        for nl in (False, True):
            src = render(m, kinds, sids, h, nl)
            out.append(Scenario(src, [], mode="parse", render=True,
                                note="tokens %s header %r newline %s" % ([kind_name(m, k) for k in kinds], h, nl)))
            lines = src.split("\n")
            for d in (DECORS if h == headers[0] else DECORS[:1]):
                dec = "\n".join([lines[0]] + [(l + d) if (l or i < len(lines) - 2) else l for i, l in enumerate(lines[1:])])
                out.append(Scenario(dec, [], mode="parse", render=True,
                                    note="tokens %s header %r newline %s, multi-byte comment %r appended" % (
                                        [kind_name(m, k) for k in kinds], h, nl, d)))
    return out


def parse_judge_total(obs, sc):
    for p, o in obs.items():
        if o.panics:
            return "%s build: parsing panics: %s (%s)" % (p, o.panics[0][1][:160], sc.note)
        st = o.stage.get("PARSE")
        if st and st[0] == "err" and "spans_ok=0" in st[1]:
            return "%s build: error location outside the source or not on a character boundary (%s)" % (p, sc.note)
    return None


def only_bad(outcome):
    return outcome in ("panic", "cut", "unsupported")


def explore_block(O, N, end_token=None, first_class=None, nsig=2, keep=(), fixed=(), keep_outcomes=None, suffix=(),
                  path_hook=None, cut_outer=False, from_header=False):
    m = O.mir
    fn = O.find("::parse_stmt_block")
    eng = O.engine()
    eng.inline_cyclic = True
    eng.max_visits = N + 4
    eng.iter_bound = 4
    eng.auto_inline_depth = 40
    eng.auto_inline_max_blocks = 600
    eng.max_paths = 400000
    eng.keep_path = keep_outcomes
    eng.record_inlined = False
    eng.deadline = time.time() + (600 if O.tier == "quick" else 3000)
    eng.max_recursion = N + 2
    eng.keep_events(r"from_str_radix", r"HashMap::", r"Entry::", r"FramedSet::", r"FuncTable::get", r"BinOpTree::add",
                    r"<Expr as From>::from", r"to_string", *keep)
    ts = TokenStream(m, N, fixed=fixed, suffix=suffix)
    ts.install(eng)
    if path_hook is not None:
        eng.path_hook = path_hook(eng, ts)
    if cut_outer:
        hs = sorted(set(d for _, d in fn.back_edges()))
        if hs:
            eng.cut_blocks = {hs[0]}
    eng.max_visits = ts.n + 4
    eng.max_recursion = ts.n + 2

    def setup(eng_, st, fr):
        for c in ts.constraints():
            st.pc.append(c)
        if first_class is not None and N > 0:
            st.pc.append(first_class(ts.kinds[len(ts.fixed)]))
        et = Node(fresh_root("e"), ty="Option<TokenKind>")
        if end_token is None:
            et.tag = bv64(0)
            et.variants = {}
        else:
            et = build.enum_val(eng_, "Option", "Some", [build.enum_val(eng_, "TokenKind", end_token, [])])
        fr.locals[2] = et
        me = eng_.deref(fr.locals[1])
        sigs = [Node("hdr%d" % i, ty="String") for i in range(nsig)]
        eng_.field(me, m.fidx("Parser", "signals")).target = build.slice_of_items(sigs, "[String]")
        line = eng_.scalar(eng_.field(me, m.fidx("Parser", "line"), "usize"))
        st.pc.append(z3.ULT(line, bv64(1 << 40)))
    if from_header and eng.cut_blocks:
        # one turn of the statement loop from an arbitrary state of the function's locals
        paths = O.explore(eng, fn, setup=setup, start_bb=sorted(eng.cut_blocks)[0])
    else:
        paths = O.explore(eng, fn, setup=setup)
    return m, eng, ts, paths


_POS_RX = None


def location_hook(state, m):
    """path hook factory: a returned ParseError may only be located by token boundaries (tokI.start / tokI.end, in
    source order) or the end of the source - the lexer obligations put those on character boundaries inside the
    source.  Keeps the paths that locate an error by anything else."""
    import re as _re
    from ..models import vec_slice
    rx = _re.compile(r"^tok(\d+)\.(start|end)$")
    state["located"] = 0
    state["badloc"] = []

    stored = _re.compile(r"^c\d+#Some\.")     # payload of what a HashMap insert / entry call handed back

    def key(t, allow_stored=False):
        t = z3.simplify(t)
        if not z3.is_const(t) or t.decl().kind() != z3.Z3_OP_UNINTERPRETED:
            return None
        nm = t.decl().name()
        if nm == "input.len":
            return (1 << 30, 0)
        if allow_stored and stored.match(nm):
            return "stored"
        mm = rx.match(nm)
        return (int(mm.group(1)), 0 if mm.group(2) == "start" else 1) if mm else None

    def ranges_in(n, out, depth=0):
        if n is None or depth > 4:
            return
        if n.ty and _re.fullmatch(r"(?:(?:std|core)::ops::(?:range::)?)?Range<usize>", n.ty.strip()) and n.fields and 0 in n.fields and 1 in n.fields:
            out.append(n)
            return
        for v in (n.fields or {}).values():
            if hasattr(v, "fields"):
                ranges_in(v, out, depth + 1)
        for v in (n.variants or {}).values():
            ranges_in(v, out, depth + 1)

    def factory(eng, ts):
        at_idx = m.fidx("ParseError", "at")

        def hook(p):
            if p.outcome != "return" or p.ret is None or not p.ret.variants or "Err" not in p.ret.variants:
                return False
            err = p.ret.variants["Err"]
            if not err.fields or 0 not in err.fields:
                return False
            saved = eng.cur_state
            eng.cur_state = p.state
            try:
                sl = vec_slice(eng, eng.field(err.fields[0], at_idx))
                ln = z3.simplify(eng.length(sl))
                why = None
                if not z3.is_bv_value(ln) or len(sl.elems or []) != ln.as_long():
                    why = "the list of locations is not determined by the path"
                else:
                    # spans kept in the parser's own maps (virtual signals, expected inputs / outputs) come back out of
                    # them in DuplicateVirtualSignal errors: what goes in must be a token-boundary span too
                    has_store = False
                    for ev in p.trace:
                        if ev.kind == "call" and _re.search(r"HashMap::insert$|Entry::or_insert$", ev.norm):
                            has_store = True
                            rs = []
                            for a_ in ev.args[1:]:
                                ranges_in(a_, rs)
                            for r_ in rs:
                                a = key(eng.scalar(eng.field(r_, 0, "usize")))
                                b = key(eng.scalar(eng.field(r_, 1, "usize")))
                                if a is None or b is None or a > b:
                                    why = "a span stored for later error reports is not a token-boundary span"
                    for _, e in sl.elems:
                        if why:
                            break
                        a = key(eng.scalar(eng.field(e, 0, "usize")), has_store)
                        b = key(eng.scalar(eng.field(e, 1, "usize")), has_store)
                        if a == "stored" and b == "stored":
                            continue
                        if a is None or b is None or "stored" in (a, b):
                            why = "a location bound is computed, not a token boundary: %s..%s" % (
                                str(z3.simplify(eng.scalar(eng.field(e, 0, "usize"))))[:60],
                                str(z3.simplify(eng.scalar(eng.field(e, 1, "usize"))))[:60])
                            break
                        if a > b:
                            why = "a location ends before it starts (%s > %s)" % (a, b)
                            break
            except Exception as ex:        # navigation failed: unknown shape
                why = "the error value has an unexpected shape (%s)" % ex
            finally:
                eng.cur_state = saved
            state["located"] += 1
            if why and len(state["badloc"]) < 24:
                state["badloc"].append((p, why))
                return True
            return False
        return hook
    return factory


def token_facts(m, ts, mod):
    kinds = [mval(mod, k, False) for k in ts.kinds]
    f = z3.Function("text_of_span", z3.BitVecSort(64), z3.BitVecSort(64), z3.BitVecSort(64))
    sids = []
    for i in range(ts.n):
        s = z3.BitVec("tok%d.start" % i, 64)
        e = z3.BitVec("tok%d.end" % i, 64)
        try:
            sids.append(mval(mod, f(s, e), False))
        except Exception:
            sids.append(None)
    return kinds, sids


def classes(m, parts):
    """Split the token kinds into `parts` classes (for parallel jobs): predicate factories on a kind term."""
    n = len(m.enums["TokenKind"])
    out = []
    for j in range(parts):
        vals = [v for v in range(n) if v % parts == j]
        out.append(lambda k, vals=vals: z3.Or([k == bv64(v) for v in vals]))
    return out


def total_block(O, N, part=None, parts=1, nsig=2, fixed=()):
    m0 = O.mir
    fc = classes(m0, parts)[part] if part is not None and N > 0 else None
    if N >= 4 and fc is not None:
        # `(` + three arbitrary tokens = three arbitrary tokens inside an expression: that class ran into the 12 GB cap of the
        # thorough tier (MemoryError, an inconclusive job) - left out of the N = 4 jobs and stated in their description
        lp = bv64(m0.vidx("TokenKind", "LParen"))
        fc = (lambda k, base_fc=fc: z3.And(base_fc(k), k != lp))
    loc = {}
    m, eng, ts, paths = explore_block(O, N, None, fc, nsig, fixed=fixed, keep_outcomes=only_bad, path_hook=location_hook(loc, m0))
    if not eng.outcomes.get("return"):
        O.inconclusive("vacuous: the parser never returns in this class")
    for p, why in loc.get("badloc", []):
        def lfacts(mod, why=why):
            return {"site": "error location", "what": re.sub(r"\d+", "N", why)[:80]}

        def lscen(mod):
            kinds, sids = token_facts(m, ts, mod)
            return parse_scenarios(m, kinds, sids)
        O.fail_path(p, "a parse error is located by something other than token boundaries: %s" % why, lfacts, lscen, parse_judge_total)
    total_paths = eng.npaths
    npanic = 0
    for p in paths:
        if p.outcome == "cut":
            O.inconclusive("loop bound too small for %d tokens: %s at %s" % (N, p.detail, p.site))
            continue
        if p.outcome != "panic":
            continue
        npanic += 1

        def facts(mod):
            kinds, sids = token_facts(m, ts, mod)
            return {"site": p.site.split("::")[-1], "panic": (p.detail or "")[:80]}

        def scen(mod):
            kinds, sids = token_facts(m, ts, mod)
            return parse_scenarios(m, kinds, sids)
        O.fail_path(p, "parser panics at %s: %s" % (p.site.split("::")[-1], p.detail), facts, scen, parse_judge_total)
    O.note("%d returned errors: every location is a span between token boundaries in source order (or the end of the source)"
           % loc.get("located", 0))
    O.note("%s%d symbolic tokens%s, %d signals in the header: %d paths, %d ending in a panic" % (
        ("after %s: " % " ".join(fixed)) if fixed else "", N, "" if part is None else " (class %d/%d of the first token)" % (part + 1, parts), nsig, total_paths, npanic))


def _reg(N, part, parts, tier):
    name = "C09/block-total[N=%d%s]" % (N, "" if part is None else ",%d/%d" % (part + 1, parts))

    @obligation(name, profiles=("dev",), tier=tier,
                desc="Parser::parse_stmt_block(None) over every sequence of %d token kinds followed by Eof%s: no path "
                     "panics%s" % (N, "" if part is None else " (first token in class %d of %d)" % (part + 1, parts),
                                   "; sequences that start with `(` are outside the N = 4 jobs" if N >= 4 else ""))
    def _ob(O, N=N, part=part, parts=parts):
        total_block(O, N, part, parts)
    return _ob


for _n in (0, 1, 2):
    _reg(_n, None, 1, "quick")
for _p in range(12):
    _reg(3, _p, 12, "quick")
for _p in range(16):
    _reg(4, _p, 16, "thorough")


PREFIXES = {
    "loop": ["Loop", "LParen", "Ident", "Comma", "DecInt", "RParen"],
    "while": ["While", "LParen", "DecInt", "RParen"],
    "repeat": ["Repeat", "LParen", "DecInt", "RParen"],
    "let": ["Let", "Ident", "Equal", "DecInt"],
    "declare": ["Declare", "Ident", "Equal", "DecInt"],
    "bits": ["Bits", "LParen", "DecInt", "Comma", "DecInt"],
    "call": ["LParen", "Ident", "LParen", "DecInt"],
    "loop-body": ["Loop", "LParen", "Ident", "Comma", "DecInt", "RParen", "Eol"],
    "while-body": ["While", "LParen", "DecInt", "RParen", "Eol"],
    "row-then": ["DecInt", "DecInt", "Eol"],
    "bits-then": ["Bits", "LParen", "DecInt", "Comma", "DecInt", "RParen"],     # a row whose first entry spans k columns
}


def _reg_prefix(name, fixed, M, tier):
    @obligation("C09/statement-total[%s+%d]" % (name, M), profiles=("dev",), tier=tier,
                desc="block parser over the token prefix `%s` followed by every sequence of %d token kinds and Eof: no panic"
                     % (" ".join(fixed), M))
    def _ob(O, fixed=fixed, M=M):
        total_block(O, M, None, 1, 2, fixed=fixed)
    return _ob


IN_EXPRESSION = ("let", "declare", "call", "bits")     # the symbolic tokens continue an expression: many operator paths
for _nm, _fx in PREFIXES.items():
    _deep = 1 if _nm in IN_EXPRESSION else 2
    for _M in range(_deep + 1):
        _reg_prefix(_nm, _fx, _M, "quick")
    if _nm not in IN_EXPRESSION:     # (two arbitrary tokens inside an expression: > 4 GB and no end in a probe)
        _reg_prefix(_nm, _fx, _deep + 1, "thorough")


def span_scenarios():
    """error locations for unknown characters, including multi-byte ones, at various positions"""
    out = []
    for ch in ("$", "é", "€", "→", "\U0001F600"):
        for src in ("A B\n1 %s\n", "A B\nlet %s = 1;\n", "A B\n1 1\n%s", "A B\n(1 + %s)\n", "A B\nloop(i,2)\n%s\nend loop\n"):
            out.append(Scenario(src % ch, [], mode="parse", render=True, note="unknown character U+%04X" % ord(ch)))
    return out


@obligation("C09/token-iter", profiles=("dev",),
            desc="TokenIter::next: every token carries exactly the span the lexer reported (also Error tokens), one Eof "
                 "token is appended after the lexer is exhausted (with the lexer's final span), then None for ever")
def token_iter(O):
    m = O.mir
    fn = O.find("::next", file="lexer/mod.rs", param0="&mut TokenIter")
    eng = O.engine()
    paths = O.explore(eng, fn)
    O.witness([p for p in paths if p.outcome == "return"], "TokenIter::next returns")
    from .common import initial
    eof0 = eng.scalar(eng.field(eng.deref(initial(fn, 1)), m.fidx("TokenIter", "eof"), "bool"))
    for p in paths:
        eng.focus(p)
        if p.outcome != "return":
            O.fail_path(p, "TokenIter::next: %s %s" % (p.outcome, p.detail), {"site": "TokenIter::next"}, span_scenarios(), parse_judge_total)
            continue
        nx = p.calls(r"SpannedIter as Iterator>::next$")
        if len(nx) != 1:
            O.fail_path(p, "TokenIter::next asks the lexer %d times" % len(nx), {"site": "TokenIter::next"}, span_scenarios(), parse_judge_total)
            continue
        item = nx[0].ret
        it = eng.tag_of(item, None)
        rt = eng.tag_of(p.ret, None)
        r, _ = O.solve(list(p.pc) + [it == bv64(1)], want_model=False)
        if r == "sat":
            tup = eng.field(eng.downcast(item, "Some"), 0)
            res = eng.field(tup, 0)
            span = eng.field(tup, 1)
            tok = eng.field(eng.downcast(p.ret, "Some"), 0)
            tspan = eng.field(tok, m.fidx("Token", "span"))
            same = z3.And(eng.scalar(eng.field(tspan, 0, "usize")) == eng.scalar(eng.field(span, 0, "usize")),
                          eng.scalar(eng.field(tspan, 1, "usize")) == eng.scalar(eng.field(span, 1, "usize")))
            kind = eng.tag_of(eng.field(tok, m.fidx("Token", "kind")), None)
            okk = eng.tag_of(eng.field(eng.downcast(res, "Ok"), 0), None)
            O.prove(p, z3.And(rt == bv64(1), same,
                              z3.If(eng.tag_of(res, None) == bv64(0), kind == okk, kind == bv64(m.vidx("TokenKind", "Error")))),
                    "a lexer item becomes a token with the same span (kind as lexed, or Error)", {"site": "TokenIter::next span"},
                    span_scenarios(), parse_judge_total, extra=[it == bv64(1)])
        r, _ = O.solve(list(p.pc) + [it == bv64(0)], want_model=False)
        if r == "sat":
            tok = eng.field(eng.downcast(p.ret, "Some"), 0)
            kind = eng.tag_of(eng.field(tok, m.fidx("Token", "kind")), None)
            me = eng.deref(p.args.fields[1])
            eof1 = eng.scalar(eng.field(me, m.fidx("TokenIter", "eof"), "bool"))
            O.prove(p, z3.And(z3.Implies(eof0, rt == bv64(0)),
                              z3.Implies(z3.Not(eof0), z3.And(rt == bv64(1), kind == bv64(m.vidx("TokenKind", "Eof")), eof1))),
                    "exactly one Eof token after the lexer is exhausted, then None", {"site": "TokenIter::next eof"},
                    span_scenarios(), parse_judge_total, extra=[it == bv64(0)])


def _reg_header_total(N):
    @obligation("C09/header-total[N=%d]" % N, profiles=("dev",),
                desc="HeaderParser::parse over every sequence of %d header tokens then end of input: no panic (lexing errors "
                     "excluded: the header lexer's rules cover every character - a lexer fact, listed as an assumption)" % N)
    def _ob(O, N=N):
        from . import C12, dri
        hdr_scen = [Scenario(s, [], mode="parse", render=True, note="header %r" % s)
                    for s in ("", "\n", "A", "A B", "A\n", "\n\nA B\n", "A A\n", "A B A\n", " \t\r\n", "A B\n1 1\n", " \nA\n1\n")]
        W = dri.WithRep(O, dri.Rep({"site": "HeaderParser::parse"}, hdr_scen, parse_judge_total))
        C12.HEADER_OBS[N](W)
    return _ob


for _n in (0, 1, 2, 3, 4):
    _reg_header_total(_n)


# ------------------------------------------------------------------ the generated lexers (MIR over symbolic source bytes)

def _lexer_scenarios(eng, src, L, header):
    from . import lexing

    def scen(mod):
        data = lexing.model_bytes(eng, src, mod, L)
        try:
            text = data.decode()
        except UnicodeDecodeError:
            return []
        srcs = [text + "\n0 0\n", text] if header else ["A B\n" + text, "A B\n" + text + "\n", "A B\n1 " + text + "\n"]
        return [Scenario(s, [], mode="parse", render=True, note="source %r" % s) for s in srcs]
    return scen


def _reg_header_lexer(L, ascii_only, tier):
    @obligation("C09/header-lexer[%s<=%d]" % ("ascii" if ascii_only else "utf8", L), profiles=("dev",), tier=tier,
                desc="the generated header lexer from any offset, every %s source with at most %d bytes left: lexing returns "
                     "(no panic), never yields an error item (HeaderParser::parse treats one as unreachable), and a token "
                     "covers at least one byte and ends inside the source on a character boundary"
                     % ("ASCII" if ascii_only else "well-formed UTF-8", L))
    def _ob(O, L=L, ascii_only=ascii_only):
        from . import lexing
        from .. import lexmodel
        m = O.mir
        eng, src, paths = lexing.lex_explore(O, "HeaderTokenKind", L, ascii_only=ascii_only, reentry="inline")
        scen = _lexer_scenarios(eng, src, L, True)
        n = lexmodel.src_len(eng, src)
        ok = []
        for p in paths:
            facts = {"site": "header lexer"}
            if p.outcome == "cut":
                O.inconclusive("loop bound too small: %s" % p.detail)
                continue
            if p.outcome != "return":
                O.fail_path(p, "header lexer: %s %s" % (p.outcome, p.detail), facts, scen, parse_judge_total)
                continue
            st_, kind, s, e = lexing.result_of(m, "HeaderTokenKind", p)
            if st_ == "none":
                ok.append(p)
                continue
            if st_ != "ok" or s is None or e is None or e <= s:
                O.fail_path(p, "header lexer yields %s %s [%s,%s)" % (st_, kind, s, e), facts, scen, parse_judge_total)
                continue
            ok.append(p)
            be = lexing.byte(eng, src, e)
            O.prove(p, z3.And(z3.ULE(bv64(e), n), z3.Or(n == bv64(e), z3.Not(z3.And(z3.UGE(be, 0x80), z3.ULE(be, 0xBF))))),
                    "a header token ends inside the source on a character boundary", facts, scen, parse_judge_total)
        O.witness(ok, "header lexer returns")
    return _ob


HEADER_LEXER_ASCII = _reg_header_lexer(18, True, "quick")
HEADER_LEXER_UTF8 = _reg_header_lexer(6, False, "quick")
_reg_header_lexer(34, True, "thorough")
_reg_header_lexer(8, False, "thorough")


def _reg_body_lexer(L, ascii_only, cls, tier):
    @obligation("C09/body-lexer[%s,%s<=%d]" % (cls, "ascii" if ascii_only else "utf8", L), profiles=("dev",), tier=tier,
                desc="the generated body lexer from any offset whose byte is %s, every %s source with at most %d bytes left: one "
                     "step (up to the token, or up to the re-entry after skipped trivia) returns without panic; a token or "
                     "error item covers at least one byte and ends inside the source on a character boundary (so that an "
                     "error located at it can be rendered)" % (
                         {"token": "not blank, `#` or a line break", "blank": "blank", "comment": "`#`", "eol": "a line break"}[cls],
                         "ASCII" if ascii_only else "well-formed UTF-8", L))
    def _ob(O, L=L, ascii_only=ascii_only, cls=cls):
        from . import lexing
        from .. import lexmodel
        m = O.mir
        first = {"token": lambda b: z3.Not(lexing.in_set(b, (0x20, 9, 13, 12, 10, 0x23))),
                 "blank": lambda b: lexing.in_set(b, (0x20, 9, 13, 12)), "comment": lambda b: b == 0x23,
                 "eol": lambda b: b == 10}[cls]
        eng, src, paths = lexing.lex_explore(O, "TokenKind", L, first=first, ascii_only=ascii_only, reentry="event")
        scen = _lexer_scenarios(eng, src, L, False)
        n = lexmodel.src_len(eng, src)
        ok = []
        for p in paths:
            facts = {"site": "body lexer"}
            if p.outcome == "cut":
                O.inconclusive("loop bound too small: %s" % p.detail)
                continue
            if p.outcome != "return":
                O.fail_path(p, "body lexer: %s %s" % (p.outcome, p.detail), facts, scen, parse_judge_total)
                continue
            st_, kind, s, e = lexing.result_of(m, "TokenKind", p)
            res = p.state.extra.get("lex_reentries", [])
            if st_ == "none" and len(res) == 1 and res[0]["end"] >= 1:
                ok.append(p)
                O.prove(p, z3.ULE(bv64(res[0]["end"]), n), "skipped trivia ends inside the source", facts, scen, parse_judge_total)
                continue
            if st_ not in ("ok", "err") or res or s is None or e is None or e <= s:
                O.fail_path(p, "body lexer yields %s %s [%s,%s) after %d re-entries" % (st_, kind, s, e, len(res)), facts, scen,
                            parse_judge_total)
                continue
            ok.append(p)
            be = lexing.byte(eng, src, e)
            O.prove(p, z3.And(z3.ULE(bv64(e), n), z3.Or(n == bv64(e), z3.Not(z3.And(z3.UGE(be, 0x80), z3.ULE(be, 0xBF))))),
                    "a body token or error item ends inside the source on a character boundary", facts, scen, parse_judge_total)
        O.witness(ok, "body lexer returns")
    return _ob


_reg_body_lexer(13, True, "token", "quick")
_reg_body_lexer(4, False, "token", "quick")
_reg_body_lexer(18, False, "blank", "quick")
_reg_body_lexer(9, True, "comment", "quick")
_reg_body_lexer(6, False, "comment", "quick")
_reg_body_lexer(6, False, "eol", "quick")
_reg_body_lexer(16, True, "token", "thorough")
_reg_body_lexer(5, False, "token", "thorough")
_reg_body_lexer(12, True, "comment", "thorough")


@obligation("C09/lexers-run-over-the-callers-text", profiles=("dev",),
            desc="ParsedTestCase::parse, HeaderParser::new, Parser::new: the string handed to the lexers (and kept for slicing "
                 "token texts) is the caller's text itself - not a trimmed, normalised or re-assembled copy - so every token "
                 "boundary, and with it every error location, is an offset into the text the caller has")
def lexers_run_over_callers_text(O):
    from ..itermodels import str_id, _str_node
    from .common import initial
    m = O.mir
    targets = [("::parse", dict(file="parsed_test_case.rs"), r"HeaderParser::new$"),
               ("::new", dict(file="parser/mod.rs", param0="&str", nparams=1), r"Logos>::lexer$|::lexer$"),
]
    for suffix, kw, rx in targets:
        fn = O.find(suffix, **kw)
        eng = O.engine()
        eng.keep_events(r"HeaderParser::new$", r"HeaderParser::parse$", r"Parser::from$", r"parse_stmt_block$", r"Parser::finish$",
                        r"TokenIter::new$", r"lexer$", r"spanned$")
        paths = O.explore(eng, fn)
        n = 0
        for p in paths:
            eng.focus(p)
            if p.outcome == "panic":
                O.fail_path(p, "%s panics: %s" % (sym_short(fn), p.detail), {"site": sym_short(fn)}, bom_scenarios(), parse_judge_total)
                continue
            if p.outcome != "return":
                continue
            evs = p.calls(rx)
            if not evs:
                # every accepted way through must hand the text on
                O.fail_path(p, "%s does not hand its text to %s" % (sym_short(fn), rx), {"site": sym_short(fn)}, bom_scenarios(), parse_judge_total)
                continue
            n += 1
            want = str_id(eng, _str_node(eng, initial(fn, 1)))
            try:
                got = str_id(eng, _str_node(eng, evs[0].args[0]))
            except Exception:
                got = None
            if got is None:
                O.fail_path(p, "%s hands something that is not a string on" % sym_short(fn), {"site": sym_short(fn)}, bom_scenarios(), parse_judge_total)
                continue
            O.prove(p, got == want, "%s lexes the caller's text itself" % sym_short(fn), {"site": sym_short(fn), "what": "text identity"},
                    bom_scenarios(), parse_judge_total)
        if n == 0:
            O.inconclusive("vacuous: %s never reaches %s" % (sym_short(fn), rx))
        if suffix == "::new":
            # the parser keeps the same text for slicing token texts (HeaderParser.input, handed on by Parser::from)
            for p in paths:
                if p.outcome != "return":
                    continue
                eng.focus(p)
                kept = eng.field(p.ret, m.fidx("HeaderParser", "input"))
                O.prove(p, str_id(eng, _str_node(eng, kept)) == str_id(eng, _str_node(eng, initial(fn, 1))),
                        "HeaderParser keeps the caller's text", {"site": "HeaderParser::new", "what": "text identity"},
                        bom_scenarios(), parse_judge_total)
    fn = O.find("::from", file="parser/mod.rs", param0="HeaderParser")
    eng = O.engine()
    paths = O.explore(eng, fn)
    n = 0
    for p in paths:
        if p.outcome != "return":
            continue
        eng.focus(p)
        n += 1
        src = eng.field(p.args.fields[1], m.fidx("HeaderParser", "input"))
        kept = eng.field(p.ret, m.fidx("Parser", "input"))
        O.prove(p, str_id(eng, _str_node(eng, kept)) == str_id(eng, _str_node(eng, src)),
                "Parser::from keeps the header parser's text", {"site": "Parser::from", "what": "text identity"},
                bom_scenarios(), parse_judge_total)
    if n == 0:
        O.inconclusive("vacuous: Parser::from does not return")


def sym_short(fn):
    from ..sym import short_name
    return short_name(fn.name).split("::")[-3:] and "::".join(short_name(fn.name).split("::")[-2:])


def bom_scenarios():
    """texts with a byte-order mark / leading or trailing blanks / unusual characters whose errors must be located in the text as given"""
    out = []
    for pre in ("﻿", "﻿﻿", " ﻿", " ", "\t \t", "\r\n\r\n"):
        for src in ("A A\n0 0\n", "A B\n0 $\n", "A B\n0\n", "A B\nlet x = ;\n", "A B\n1 1\nend loop\n", "A B C\n1 1\n"):
            out.append(Scenario(pre + src, [], mode="parse", render=True, note="text starting with %r, error in %r" % (pre, src)))
    for post in ("﻿", " \t", "\n\n﻿"):
        out.append(Scenario("A B\n0 $" + post, [], mode="parse", render=True, note="text ending with %r" % post))
    return out


@obligation("C09/attached-source-is-the-stored-text", profiles=("dev",),
            desc="dig::TestCaseDescription::named_source: the source attached to a load error is the stored source text itself "
                 "(string identity) - the text load_test parses and whose offsets the error's locations are")
def attached_source(O):
    from ..itermodels import str_id, _str_node
    from .common import initial
    from . import batteries as B_
    m = O.mir
    fn = O.find("::named_source")
    eng = O.engine()
    eng.keep_events(r"NamedSource")
    paths = O.explore(eng, fn)
    n = 0
    bat = [s_ for s_ in B_.dig_battery() if s_.expect.get("load") == "err"]
    for p in paths:
        eng.focus(p)
        if p.outcome != "return":
            continue
        ns = p.calls(r"NamedSource.*::new$")
        facts = {"site": "named_source", "what": "attached source"}
        if len(ns) != 1:
            O.fail_path(p, "named_source builds %d sources" % len(ns), facts, bat, B_.dig_judge)
            continue
        n += 1
        me = eng.deref(p.args.fields[1])
        want = str_id(eng, _str_node(eng, eng.field(me, m.fidx("TestCaseDescription", "source"))))
        # the argument is a clone of the field: clones keep the identity of the contents
        try:
            got = str_id(eng, _str_node(eng, ns[0].args[1]))
        except Exception:
            got = None
        if got is None:
            O.fail_path(p, "named_source attaches something that is not the stored string", facts, bat, B_.dig_judge)
            continue
        O.prove(p, got == want, "the attached source is the stored source text", facts, bat, B_.dig_judge)
    if n == 0:
        O.inconclusive("vacuous: named_source never builds a source")
