"""C12 - malformed programs are rejected, never silently accepted.

Bounded model checking of the real parser over symbolic token sequences (parsing.py): acceptance of a block
implies its terminator was consumed; acceptance of a row implies the right number of entries; bits widths,
function arity, literals and header duplicates. Counterexamples are rendered as text and parsed natively.
"""
import time

import z3

from ..oblig import obligation
from ..sym import bv64, Node, fresh_root
from ..models import vec_slice
from .. import build
from .common import mval, initial, T
from ..replay import Scenario
from . import batteries as B
from . import dri
from .parsing import TokenStream, kind_name
from . import C09


def rep():
    return dri.Rep({"family": "malformed"}, B.malformed_battery(), B.malformed_judge)


def _reg_term(kind, N, fixed, tier):
    tag = "%s,N=%d%s" % (kind, N, (",after " + " ".join(fixed)) if fixed else "")

    @obligation("C12/terminator[%s]" % tag, profiles=("dev",), tier=tier,
                desc="parse_stmt_block(Some(%s)) over every sequence of %d token kinds%s then Eof: whenever the block is "
                     "accepted, the last two tokens consumed are `end %s`" % (kind, N, (" after `%s`" % " ".join(fixed)) if fixed else "",
                                                                         kind.lower()))
    def _ob(O, kind=kind, N=N, fixed=fixed):
        R = rep()
        fc4 = None
        if N >= 4:
            # (as in C09 / C20: `(` + three arbitrary tokens does not fit the memory cap of the thorough tier)
            fc4 = lambda k: k != bv64(O.mir.vidx("TokenKind", "LParen"))
        m, eng, ts, paths = C09.explore_block(O, N, kind, fc4, 1, fixed=fixed, keep_outcomes=lambda oc: oc != "infeasible")
        END, K = bv64(m.vidx("TokenKind", "End")), bv64(m.vidx("TokenKind", kind))
        nok = 0
        for p in paths:
            if p.outcome == "cut":
                O.inconclusive("loop bound too small: %s" % p.detail)
                continue
            if p.outcome != "return":
                continue
            rt = eng.tag_of(p.ret, None)
            r, _ = O.solve(list(p.pc) + [rt == bv64(0)], want_model=False)
            if r != "sat":
                continue
            nok += 1
            cons = p.state.extra.get("consumed", [])
            kinds = ts.kinds + [bv64(ts.EOF)]
            if len(cons) < 2:
                claim = z3.BoolVal(False)
            else:
                claim = z3.And(kinds[cons[-2]] == END, kinds[cons[-1]] == K)

            def facts(mod):
                return {"family": "malformed", "what": "block accepted without its terminator", "block": kind,
                        "ntokens": len(ts.kinds)}

            def scen(mod, kind=kind):
                # the model's own token sequence as the body of a block (and of a nested block), cut off where it ends
                kinds_, sids = C09.token_facts(m, ts, mod)
                body = C09.render(m, kinds_, sids, "A").split("\n", 1)[1]
                hdr = {"Loop": "loop(i,2)\n", "While": "while(1)\n"}[kind]
                own = []
                for src in ("A\n" + hdr + body, "A\n" + hdr + body + "\n", "A\nloop(o,2)\n" + hdr + body):
                    own.append(Scenario(src, [], mode="parse", expect={"parse": "err"},
                                        note="block body %r without its terminator" % body))
                return own + R.battery
            O.prove(p, claim, "an accepted %s block ends with `end %s`" % (kind.lower(), kind.lower()), facts,
                    scen, R.judge, extra=[rt == bv64(0)])
        if nok == 0 and N >= 2:
            O.inconclusive("vacuous: no accepted block with %d tokens" % N)
        O.note("%d paths, %d accepting" % (eng.npaths, nok))
    return _ob


for _k in ("Loop", "While"):
    for _n in (0, 1, 2, 3):
        _reg_term(_k, _n, (), "quick")
    _reg_term(_k, 2, ("DecInt", "Eol"), "quick")
    _reg_term(_k, 4, (), "thorough")


def _explore_fn(O, suffix, N, fixed=(), nsig=2, keep=(), file=None):
    m = O.mir
    fn = O.find(suffix, **({"file": file} if file else {}))
    eng = O.engine()
    eng.inline_cyclic = True
    eng.iter_bound = 4
    eng.auto_inline_depth = 40
    eng.auto_inline_max_blocks = 600
    eng.max_paths = 200000
    eng.record_inlined = False
    eng.deadline = time.time() + 600
    eng.keep_events(r"from_str_radix", r"HashMap::", r"Entry::", r"FramedSet::", r"FuncTable::get", r"BinOpTree::add",
                    r"<Expr as From>::from", r"to_string", *keep)
    ts = TokenStream(m, N, fixed=fixed)
    ts.install(eng)
    eng.max_visits = ts.n + 4
    eng.max_recursion = ts.n + 2

    def setup(eng_, st, fr):
        for c in ts.constraints():
            st.pc.append(c)
        me = eng_.deref(fr.locals[1])
        sigs = [Node("hdr%d" % i, ty="String") for i in range(nsig)]
        eng_.field(me, m.fidx("Parser", "signals")).target = build.slice_of_items(sigs, "[String]")
        line = eng_.scalar(eng_.field(me, m.fidx("Parser", "line"), "usize"))
        st.pc.append(z3.ULT(line, bv64(1 << 40)))
    paths = O.explore(eng, fn, setup=setup)
    return m, fn, eng, ts, paths


def _reg_row(N, nsig, fixed=()):
    @obligation("C12/row-length[N=%d,columns=%d%s]" % (N, nsig, (",after " + " ".join(fixed)) if fixed else ""), profiles=("dev",),
                desc="parse_data_row over every sequence of %d token kinds%s with a header of %d columns: a row is accepted only "
                     "if its entries (bits(k,..) counting k) fill exactly the header" % (N, (" after `%s`" % " ".join(fixed)) if fixed else "", nsig))
    def _ob(O, N=N, nsig=nsig, fixed=fixed):
        R = rep()
        m, fn, eng, ts, paths = _explore_fn(O, "::parse_data_row", N, fixed, nsig)
        nok = 0
        for p in paths:
            eng.focus(p)
            if p.outcome == "cut":
                O.inconclusive("loop bound too small: %s" % p.detail)
                continue
            if p.outcome != "return":
                continue
            rt = eng.tag_of(p.ret, None)
            r, _ = O.solve(list(p.pc) + [rt == bv64(0)], want_model=False)
            if r != "sat":
                continue
            nok += 1
            data = vec_slice(eng, eng.field(eng.downcast(p.ret, "Ok"), 0))
            total = bv64(0)
            for ix, e in (data.elems or []):
                et = eng.tag_of(e, None)
                k = eng.scalar(eng.field(eng.downcast(e, "Bits"), 0, "u8"))
                total = total + z3.If(et == bv64(m.vidx("DataEntry", "Bits")), z3.ZeroExt(56, k), bv64(1))
            O.prove(p, total == bv64(nsig), "an accepted row has exactly one entry per header column",
                    lambda mod: {"family": "malformed", "what": "row length", "ntokens": len(ts.kinds)},
                    R.battery, R.judge, extra=[rt == bv64(0)])
            # what was consumed against what was accepted: a row stops only at a line break / the end of the source, and
            # when every token it consumed is a one-token entry (number, X / Z / C) there are exactly as many tokens as
            # header columns - an entry that is consumed but not counted must not slip through
            cons = p.state.extra.get("consumed", [])
            allk = ts.kinds + [bv64(ts.EOF)]
            SIMPLE = [bv64(m.vidx("TokenKind", k)) for k in ("DecInt", "HexInt", "OctInt", "BinInt", "Ident")]
            pos = p.state.extra.get("tokpos")
            nxt = z3.simplify(pos.term).as_long() if pos is not None else 0

            def row_scen(mod, nsig=nsig):
                kinds_, sids = C09.token_facts(m, ts, mod)
                hdr = " ".join("H%d" % i for i in range(nsig))
                own = []
                for cut in (len(kinds_), max(nxt, 1)):
                    for nl in (False, True):
                        own.append(Scenario(C09.render(m, kinds_[:cut], sids, hdr, nl), [], mode="parse", expect={"parse": "err"},
                                            note="row of %d tokens under a header of %d columns" % (cut, nsig)))
                        own.append(Scenario(hdr + "\nloop(i,2)\n" + C09.render(m, kinds_[:cut], sids, hdr, True).split("\n", 1)[1] + "end loop\n",
                                            [], mode="parse", expect={"parse": "err"}, note="the same row inside a loop"))
                return own + R.battery
            if nxt <= ts.n:
                O.prove(p, z3.Or(allk[nxt] == bv64(m.vidx("TokenKind", "Eol")), allk[nxt] == bv64(ts.EOF)),
                        "an accepted row ends at a line break or at the end of the source",
                        lambda mod: {"family": "malformed", "what": "row end", "ntokens": len(ts.kinds)}, row_scen, R.judge,
                        extra=[rt == bv64(0)])
            simple = [z3.Or([allk[i] == k_ for k_ in SIMPLE]) for i in cons if i < len(allk)]
            if len(cons) != nsig:
                O.prove(p, z3.Not(z3.And(simple)) if simple else z3.BoolVal(False),
                        "a row of one-token entries is accepted only with exactly one token per header column "
                        "(%d consumed, %d columns)" % (len(cons), nsig),
                        lambda mod: {"family": "malformed", "what": "row length (tokens consumed)", "ntokens": len(cons)},
                        row_scen, R.judge, extra=[rt == bv64(0)])
            # bits widths: the width used is the literal's value and at most 64
            fr_ = p.calls(r"from_str_radix$")
            for ix, e in (data.elems or []):
                et = eng.tag_of(e, None)
                r2, _ = O.solve(list(p.pc) + [rt == bv64(0), et == bv64(m.vidx("DataEntry", "Bits"))], want_model=False)
                if r2 != "sat":
                    continue
                k = eng.scalar(eng.field(eng.downcast(e, "Bits"), 0, "u8"))
                if not fr_:
                    R.fail(O, p, "a bits entry without a parsed width")
                    continue
                n = eng.scalar(eng.field(eng.downcast(fr_[0].ret, "Ok"), 0, "i64"))
                O.prove(p, z3.And(n >= bv64(0), n <= bv64(64), z3.ZeroExt(56, k) == n),
                        "bits(k, ..) is accepted only for 0 <= k <= 64 and expands to exactly k columns",
                        lambda mod, n=n: {"family": "malformed", "what": "bits width", "width": mval(mod, n)},
                        lambda mod, n=n: [Scenario("A B\nbits(%d,3)\n" % max(0, mval(mod, n)), [], mode="parse",
                                                   expect={"parse": "err" if not (mval(mod, n) == 2) else "ok"},
                                                   note="bits width %d" % mval(mod, n))] + R.battery,
                        R.judge, extra=[rt == bv64(0), et == bv64(m.vidx("DataEntry", "Bits")), n >= bv64(0)])
                _c = "i64::from_str_radix on an unsigned digit string (integer tokens carry no sign) returns a non-negative value"
                if _c not in O.rec.setdefault("contracts", []):
                    O.rec["contracts"].append(_c)
        O.note("%d paths, %d accepting" % (eng.npaths, nok))
    return _ob


for _n in (1, 2, 3):
    for _c in (1, 2):
        _reg_row(_n, _c)
_reg_row(1, 2, ("Bits", "LParen", "DecInt", "Comma", "DecInt", "RParen"))
_reg_row(1, 1, ("Bits", "LParen", "DecInt", "Comma", "DecInt", "RParen"))


@obligation("C12/function-call", profiles=("dev",),
            desc="parse_factor on `ident ( ...`: accepted only if the function table knows the name and the number of "
                 "arguments parsed equals the table entry's arity")
def function_call(O):
    R = rep()
    for M in (1, 2):
        m, fn, eng, ts, paths = _explore_fn(O, "::parse_factor", M, ("Ident", "LParen"), 2,
                                            keep=(r"Parser::parse_expr$",))
        for p in paths:
            eng.focus(p)
            if p.outcome != "return":
                continue
            rt = eng.tag_of(p.ret, None)
            ex = eng.field(eng.downcast(p.ret, "Ok"), 0)
            cond = [rt == bv64(0), eng.tag_of(ex, None) == bv64(m.vidx("Expr", "Func"))]
            r, _ = O.solve(list(p.pc) + cond, want_model=False)
            if r != "sat":
                continue
            g = p.calls(r"FuncTable::get$")
            if len(g) != 1:
                R.fail(O, p, "a call is accepted without consulting the function table", extra=cond)
                continue
            ent = eng.field(eng.downcast(g[0].ret, "Some"), 0)
            arity = eng.scalar(eng.field(T(eng, ent), m.fidx("FuncTableEntry", "number_of_args"), "usize"))
            args = vec_slice(eng, eng.field(eng.downcast(ex, "Func"), 1))
            R.prove(O, p, z3.And(eng.tag_of(g[0].ret, None) == bv64(1), eng.length(args) == arity),
                    "a call is accepted only for a known function with the right number of arguments", extra=cond)


@obligation("C12/literal", profiles=("dev",),
            desc="parse_number: the literal is accepted only if i64::from_str_radix accepted it, with radix 10/16/8/2 chosen "
                 "by the token kind; any other token kind is an error")
def literal(O):
    R = rep()
    m, fn, eng, ts, paths = _explore_fn(O, "::parse_number", 1, (), 2)
    RADIX = {"DecInt": 10, "HexInt": 16, "OctInt": 8, "BinInt": 2}
    nok = 0
    for p in paths:
        eng.focus(p)
        if p.outcome == "panic":
            R.fail(O, p, "parse_number panics: %s" % p.detail)
            continue
        if p.outcome != "return":
            continue
        rt = eng.tag_of(p.ret, None)
        r, _ = O.solve(list(p.pc) + [rt == bv64(0)], want_model=False)
        if r != "sat":
            continue
        nok += 1
        fr_ = p.calls(r"from_str_radix$")
        if len(fr_) != 1:
            R.fail(O, p, "a number is accepted without being converted", extra=[rt == bv64(0)])
            continue
        got = eng.scalar(eng.field(eng.downcast(p.ret, "Ok"), 0, "i64"))
        val = eng.scalar(eng.field(eng.downcast(fr_[0].ret, "Ok"), 0, "i64"))
        radix = eng.scalar(fr_[0].args[1], "u32")
        k = ts.kinds[0]
        want_radix = z3.BitVecVal(0, 32)
        for nm, rx in RADIX.items():
            want_radix = z3.If(k == bv64(m.vidx("TokenKind", nm)), z3.BitVecVal(rx, 32), want_radix)
        R.prove(O, p, z3.And(eng.tag_of(fr_[0].ret, None) == bv64(0), got == val, radix == want_radix, want_radix != z3.BitVecVal(0, 32)),
                "a literal is accepted only if it fits, with the radix of its token kind", extra=[rt == bv64(0)])
    if nok == 0:
        O.inconclusive("vacuous: no accepted literal")


@obligation("C12/expect", profiles=("dev",), desc="Parser::expect: Ok only if the token consumed has the expected kind")
def expect(O):
    R = rep()
    m, fn, eng, ts, paths = _explore_fn(O, "::expect", 1, (), 2)
    want = eng.tag_of(initial(fn, 2), None)
    for p in paths:
        eng.focus(p)
        if p.outcome == "panic":
            R.fail(O, p, "expect panics: %s" % p.detail)
            continue
        if p.outcome != "return":
            continue
        rt = eng.tag_of(p.ret, None)
        cons = p.state.extra.get("consumed", [])
        kinds = ts.kinds + [bv64(ts.EOF)]
        if len(cons) != 1:
            r, _ = O.solve(list(p.pc) + [rt == bv64(0)], want_model=False)
            if r == "sat":
                R.fail(O, p, "expect succeeds after consuming %d tokens" % len(cons))
            continue
        R.prove(O, p, z3.Implies(rt == bv64(0), kinds[cons[0]] == want), "expect succeeds only on the expected kind")


class HeaderStream:
    """Lexer<HeaderTokenKind> as an environment: N tokens of kind SignalName or Eol, then None.  (WS is skipped by the
    lexer; lexing errors cannot occur because the three header rules cover every character - a lexer fact, assumed.)"""

    def __init__(self, m, n):
        self.m = m
        self.n = n
        self.kinds = [z3.BitVec("h%d.kind" % i, 64) for i in range(n)]
        self.names = [z3.BitVec("h%d.name" % i, 64) for i in range(n)]
        self.SIG = m.vidx("HeaderTokenKind", "SignalName")
        self.EOL = m.vidx("HeaderTokenKind", "Eol")

    def constraints(self):
        return [z3.Or(k == bv64(self.SIG), k == bv64(self.EOL)) for k in self.kinds]

    def install(self, eng):
        hs = self
        from ..sym import mk_usize, mk_ref, mk_scalar
        from .. import models

        def pos_of(st):
            p = st.extra.get("hpos")
            if p is None:
                p = mk_usize(bv64(0))
                st.extra["hpos"] = p
            return p

        def m_next(ctx):
            p = pos_of(ctx.st)
            i = z3.simplify(p.term).as_long()
            if i >= hs.n:
                none = Node(fresh_root("e"), ty=ctx.dest_ty or "Option")
                none.tag = bv64(0)
                none.variants = {}
                p.term = bv64(i + 1)
                return ctx.ret(none)
            p.term = bv64(i + 1)
            kind = Node(fresh_root("hk"), ty="HeaderTokenKind")
            kind.tag = hs.kinds[i]
            kind.variants = {}
            res = models.mk_enum(ctx.eng, "Result", "Ok", [kind])
            return ctx.ret(models.mk_enum(ctx.eng, "Option", "Some", [res], ty=ctx.dest_ty))

        def m_slice(ctx):
            i = z3.simplify(pos_of(ctx.st).term).as_long() - 1
            sn = Node(fresh_root("str"), ty="str")
            sn.fields = {"sid": mk_scalar(hs.names[min(max(i, 0), hs.n - 1)] if hs.n else bv64(0), "u64")}
            return ctx.ret(mk_ref(sn, "&str"))

        def m_span(ctx):
            i = z3.simplify(pos_of(ctx.st).term).as_long() - 1
            return ctx.ret(build.struct([mk_usize(z3.BitVec("h%d.start" % i, 64)), mk_usize(z3.BitVec("h%d.end" % i, 64))],
                                        "std::ops::Range<usize>"))

        def m_from_str(ctx):
            """<String as From<&str>>::from / Into: keeps the identity"""
            from ..itermodels import m_string_clone
            return m_string_clone(ctx)
        eng.models["<Lexer as Iterator>::next"] = m_next
        eng.models["logos::Lexer::slice"] = m_slice
        eng.models["logos::Lexer::span"] = m_span
        eng.models["<&str as Into>::into"] = m_from_str
        eng.models["<String as From>::from"] = m_from_str


def _reg_header(N):
    @obligation("C12/header[N=%d]" % N, profiles=("dev",),
                desc="HeaderParser::parse over every sequence of %d header tokens (signal names with symbolic identities, line "
                     "breaks) followed by end of input: accepted only if it ends with a line break after at least one name, the "
                     "names are pairwise different and are returned in order; end of input before that is an error; no panic "
                     "(lexing errors excluded: lexer fact)" % N)
    def _ob(O, N=N):
        m = O.mir
        R = rep()
        fn = O.find("::parse", file="parser/mod.rs", param0="&mut HeaderParser")
        eng = O.engine()
        eng.inline_cyclic = True
        eng.max_visits = N + 3
        eng.iter_bound = N + 2
        eng.record_inlined = False
        hs = HeaderStream(m, N)
        hs.install(eng)

        def setup(eng_, st, fr):
            for c in hs.constraints():
                st.pc.append(c)
            me = eng_.deref(fr.locals[1])
            st.pc.append(z3.ULT(eng_.scalar(eng_.field(me, m.fidx("HeaderParser", "line"), "usize")), bv64(1 << 40)))
        paths = O.explore(eng, fn, setup=setup)
        from ..itermodels import str_id
        nok = 0
        for p in paths:
            eng.focus(p)
            if p.outcome == "panic":
                if "unreachable" in (p.detail or ""):
                    O.assumed_unreachable("HeaderParser::parse: %s" % p.detail, "the header lexer's three rules cover every character")
                    continue
                R.fail(O, p, "header parser panics: %s" % p.detail)
                continue
            if p.outcome == "cut":
                O.inconclusive("loop bound too small in the header parser")
                continue
            if p.outcome != "return":
                continue
            rt = eng.tag_of(p.ret, None)
            r, mod = O.solve(list(p.pc) + [rt == bv64(0)])
            if r != "sat":
                continue
            nok += 1
            cond = [rt == bv64(0)]
            pos = z3.simplify(p.state.extra["hpos"].term).as_long()
            consumed = min(pos, N)
            kinds = [mval(mod, k, False) for k in hs.kinds[:consumed]]
            names_idx = [i for i in range(consumed) if kinds[i] == hs.SIG]
            if pos > N or consumed == 0 or kinds[-1] != hs.EOL or not names_idx:
                R.fail(O, p, "a header is accepted although it does not end with a line break after a signal name", extra=cond)
                continue
            tup = eng.field(eng.downcast(p.ret, "Ok"), 0)
            sigs = vec_slice(eng, eng.field(tup, 0))
            if not R.prove(O, p, eng.length(sigs) == bv64(len(names_idx)), "every header name becomes a signal name", extra=cond):
                continue
            claims = []
            for j, i in enumerate(names_idx):
                claims.append(str_id(eng, eng.elem(sigs, bv64(j))) == hs.names[i])
            for a in range(len(names_idx)):
                for b in range(a + 1, len(names_idx)):
                    claims.append(hs.names[names_idx[a]] != hs.names[names_idx[b]])
            R.prove(O, p, z3.And(claims), "accepted header names are returned in order and are pairwise different", extra=cond)
        if nok == 0 and N >= 2:
            O.inconclusive("vacuous: no accepted header with %d tokens" % N)
        O.note("%d paths, %d accepting" % (eng.npaths, nok))
    return _ob


HEADER_OBS = {}
for _n in (0, 1, 2, 3, 4):
    HEADER_OBS[_n] = _reg_header(_n)


@obligation("C12/duplicate-declare", profiles=("dev",),
            desc="parser arm for `declare`: the statement is accepted only if inserting the name into the virtual-signal map "
                 "found no earlier entry - a second declaration of a name is rejected whatever its expression")
def duplicate_declare(O):
    R = rep()
    m, eng, ts, paths = C09.explore_block(O, 0, None, None, 1, keep=(r"parse_expr$", r"FramedSet::"),
                                          fixed=("Declare", "Ident", "Equal", "Semi"),
                                          keep_outcomes=lambda oc: oc in ("return", "cut", "panic"))
    nok = 0
    for p in paths:
        eng.focus(p)
        if p.outcome != "return":
            continue
        rt = eng.tag_of(p.ret, None)
        r, _ = O.solve(list(p.pc) + [rt == bv64(0)], want_model=False)
        if r != "sat":
            continue
        nok += 1
        ins = p.calls(r"HashMap::insert$")
        if len(ins) != 1:
            R.fail(O, p, "an accepted declare goes through %d plain insertions into the virtual-signal map (other calls: %s)" % (
                len(ins), [e.norm.split("::")[-1] for e in p.calls(r"HashMap::|Entry::")][:4]), extra=[rt == bv64(0)])
            continue
        R.prove(O, p, eng.tag_of(ins[0].ret, None) == bv64(0), "a declare is accepted only if the name was not declared before",
                extra=[rt == bv64(0)])
    if nok == 0:
        O.inconclusive("vacuous: declare is never accepted")


def _reg_literal_token(kind):
    @obligation("C12/literal-is-one-token[%s]" % kind, profiles=("dev",),
                desc="the generated lexer, executed from MIR over symbolic bytes: a source consisting of one %s literal of any "
                     "length up to well beyond 64 bits is exactly one token - an over-long literal reaches the overflow check of "
                     "parse_number whole instead of being split into acceptable pieces" % kind)
    def _ob(O, kind=kind):
        from . import lexing
        lexing.literal_is_one_token(O, kind, rep())
    return _ob


for _k in ("DecInt", "HexInt", "OctInt", "BinInt"):
    _reg_literal_token(_k)


def _reg_literal_token_long(kind, L):
    @obligation("C12/literal-is-one-token[%s, up to %d bytes]" % (kind, L), profiles=("dev",), tier="thorough",
                desc="as C12/literal-is-one-token[%s], for sources of up to %d bytes" % (kind, L))
    def _ob(O, kind=kind, L=L):
        from . import lexing
        lexing.literal_is_one_token(O, kind, rep(), longest=L)
    return _ob


for _k, _l in (("DecInt", 80), ("HexInt", 80), ("OctInt", 80), ("BinInt", 160)):
    _reg_literal_token_long(_k, _l)


@obligation("C12/no-parse-cache", profiles=("dev",),
            desc="the crate keeps no mutable global state (no statics with interior mutability, no thread-locals, locks or "
                 "once-cells in any body outside dig.rs / errors.rs): whether a text is accepted is decided by parsing that text, "
                 "not by what was parsed before (type-level facts read from the MIR)")
def no_parse_cache(O):
    from . import C15
    C15.no_shared_state_core(O, dri.Rep({"family": "malformed"}, B.dig_battery() + B.malformed_battery(), B.dig_or_malformed_judge))


@obligation("C12/function-names-are-exact", profiles=("dev",),
            desc="FuncTable::get (the lookup both the parser's unknown-function check and Expr::eval use): the entry returned is one "
                 "whose name IS the name asked for (string identity) - no folding of case or other normalisation")
def function_names_exact(O):
    from ..itermodels import str_id, _str_node
    from .common import initial
    m = O.mir
    R = rep()
    fn = O.find("::get", file="expr.rs", param0="&FuncTable")
    eng = O.engine()
    eng.iter_bound = 4
    eng.max_visits = 8

    def setup(eng_, st, fr):
        me = eng_.deref(fr.locals[1])
        ents = [build.struct([Node("fname%d" % i, ty="&str"), Node("fargs%d" % i, ty="usize"), Node("ffn%d" % i, ty="fn")], "FuncTableEntry") for i in range(3)]
        eng_.field(me, m.fidx("FuncTable", "entries")).target = build.slice_of_items(ents, "[FuncTableEntry]")
    paths = O.explore(eng, fn, setup=setup)
    want = str_id(eng, _str_node(eng, initial(fn, 2)))
    n = 0
    for p in paths:
        eng.focus(p)
        if p.outcome == "cut":
            raise LookupError("FuncTable::get runs more loop iterations than one pass over three entries")
        if p.outcome != "return":
            R.fail(O, p, "FuncTable::get: %s %s" % (p.outcome, p.detail))
            continue
        other = [e.norm for e in p.trace if e.kind == "call"]
        if other:
            R.fail(O, p, "FuncTable::get compares names through %s" % other[0].split("::")[-1][:40])
            continue
        tg = eng.tag_of(p.ret, None)
        r, _ = O.solve(list(p.pc) + [tg == bv64(1)], want_model=False)
        if r != "sat":
            continue
        n += 1
        ent = T(eng, eng.field(eng.downcast(p.ret, "Some"), 0))
        if ent is None:
            R.fail(O, p, "FuncTable::get returns something that is not a table entry", extra=[tg == bv64(1)])
            continue
        got = str_id(eng, _str_node(eng, eng.field(ent, m.fidx("FuncTableEntry", "name"))))
        R.prove(O, p, got == want, "a function is found only under exactly its name", extra=[tg == bv64(1)])
    if n == 0:
        O.inconclusive("vacuous: FuncTable::get never finds an entry")


BINOP_TOKENS = ("Plus", "Minus", "Times", "Divide", "Reminder", "And", "Or", "Xor", "ShiftLeft", "ShiftRight", "Equal", "NotEqual",
                "LessThan", "GreaterThan", "LessThanOrEqual", "GreaterThanOrEqual")


def row_entries_separate(O, R, nsig=2):
    """after a closed parenthesised entry `( n )` the row parser never consumes a binary operator: an operator between two
    entries does not join them"""
    m, fn, eng, ts, paths = _explore_fn(O, "::parse_data_row", 2, ("LParen", "DecInt", "RParen"), nsig)
    ops = [bv64(m.vidx("TokenKind", k)) for k in BINOP_TOKENS if k in m.enums["TokenKind"]]
    nok = 0
    for p in paths:
        eng.focus(p)
        if p.outcome != "return":
            continue
        rt = eng.tag_of(p.ret, None)
        r, _ = O.solve(list(p.pc) + [rt == bv64(0)], want_model=False)
        if r != "sat":
            continue
        nok += 1
        cons = p.state.extra.get("consumed", [])
        if 3 in cons:
            R.prove(O, p, z3.Not(z3.Or([ts.kinds[3] == o for o in ops])), "an accepted row does not consume a binary operator after a "
                    "closed parenthesised entry", extra=[rt == bv64(0)])
    if nok == 0:
        O.inconclusive("vacuous: no accepted row starts with a parenthesised entry")


@obligation("C12/row-entries-are-separate", profiles=("dev",),
            desc="parse_data_row over `( n )` + every 2 token kinds, 2 columns: whenever the row is accepted, the token after the closing "
                 "parenthesis - if consumed - is no binary operator (two entries are never merged by an operator written between them)")
def o_row_entries_separate(O):
    row_entries_separate(O, rep())


def bits_entry_kept(O, R):
    """`bits(k, e)` is stored as a Bits entry with that k (never simplified into a plain expression entry, also for k = 1)"""
    m, fn, eng, ts, paths = _explore_fn(O, "::parse_data_row", 0, ("Bits", "LParen", "DecInt", "Comma", "DecInt", "RParen"), 1)
    nok = 0
    for p in paths:
        eng.focus(p)
        if p.outcome != "return":
            continue
        rt = eng.tag_of(p.ret, None)
        r, _ = O.solve(list(p.pc) + [rt == bv64(0)], want_model=False)
        if r != "sat":
            continue
        nok += 1
        data = vec_slice(eng, eng.field(eng.downcast(p.ret, "Ok"), 0))
        elems = data.elems or []
        if len(elems) != 1:
            R.fail(O, p, "bits(k, e) under one column is stored as %d entries" % len(elems), extra=[rt == bv64(0)])
            continue
        R.prove(O, p, eng.tag_of(elems[0][1], None) == bv64(m.vidx("DataEntry", "Bits")), "bits(k, e) is stored as a Bits entry (k = 1 included)",
                extra=[rt == bv64(0)])
    if nok == 0:
        O.inconclusive("vacuous: bits(1, e) under one column is never accepted")
