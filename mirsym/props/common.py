"""Helpers shared by the property modules."""
import z3

from ..sym import Node, bv64, BV64
from ..replay import Scenario, lit


def s64(v):
    """python int -> signed 64-bit"""
    v &= (1 << 64) - 1
    return v - (1 << 64) if v >= 1 << 63 else v


def mval(model, term, signed=True):
    v = model.eval(term, model_completion=True)
    if z3.is_bv_value(v):
        return v.as_signed_long() if signed else v.as_long()
    if z3.is_true(v):
        return True
    if z3.is_false(v):
        return False
    return str(v)


def initial(fn, n):
    """Initial-state view of parameter _n (names are a function of the parameter, so terms coincide with
    what any path read before writing)."""
    ty = dict(fn.params)[n]
    return Node("arg%d" % n, ty=ty)


def mask_ref(n, bits):
    """Reference semantics of the width reduction: n mod 2^bits as a 64-bit pattern (bits in 1..=64)."""
    one = z3.BitVecVal(1, 64)
    return z3.If(z3.UGE(bits, bv64(64)), n, n & ((one << bits) - one))


def no_panic_judge(expect_fn):
    """judge factory: deviation if any profile panics or expect_fn(obs, scenario) returns text."""
    def judge(obs, sc):
        for p, o in obs.items():
            if o.panics:
                return "%s build panics: %s" % (p, o.panics[0][1][:200])
            w = expect_fn(o, sc)
            if w:
                return "%s build: %s" % (p, w)
        return None
    return judge


def T(eng, n):
    """Pointee of a reference node, through the engine's interning (use with eng.focus(path))."""
    if n is None:
        return None
    if n.target is not None:
        return n.target
    try:
        return eng.deref(n)
    except Exception:
        return None
