"""C20 - layout is irrelevant: whitespace, comments and literal radix do not change rows.

The relational statement is decomposed along the pipeline source -> tokens -> parsed test -> rows, and each link is
decided on the real code:

 lexer (the logos-generated DFA, executed from the crate's MIR over symbolic source bytes, lexing.py / lexmodel.py)
   lexer-blank      a run of blank bytes at a token start is consumed as trivia: nothing is set, and `lex` is
                    re-entered with token_start = token_end = first non-consumed offset (so what follows is lexed
                    exactly as if the blanks were not there - `lex` reads the source only relative to token_end)
   lexer-comment    `#` consumes up to, and not including, the next line break (or the end), then re-enters alike
   lexer-eol        a line break is exactly one Eol token of one byte
   lexer-tokens     from a token start: literal tokens have the shape parse_number relies on (prefix, digits of the
                    radix); a token that ends at a delimiter (blank, line break, `#`, end of input) is the same token
                    whatever follows the delimiter
 parser (over symbolic token streams with symbolic spans, parsing.py)
   parser-spans     no branch of the parser, and no value in an accepted result, depends on token positions or the
                    source length - only on token kinds and token texts
   number-radix     parse_number hands from_str_radix the whole text (radix 10 / 8) or the text after its two-byte
                    prefix (radix 16 / 2)
 Line numbers follow line-break tokens (C19); spans stored in a parsed test are only used to locate errors (read fact).
Every counterexample is confirmed natively with the relational layout battery (batteries.layout_battery): a program
and a re-laid-out variant run through the public API must give the same verdicts and rows (lines shifted).
"""
import re
import time

import z3

from ..oblig import obligation
from ..sym import bv64, Node
from .. import lexmodel
from .common import mval, initial
from . import batteries as B
from . import dri
from . import lexing
from .lexing import BLANK_BYTES, WS_RULE_BYTES, in_set
from . import C09, C12
from ..replay import Scenario


def rep(*words, **facts):
    bat = [s for s in B.layout_battery() if not words or any(w in s.note for w in words)]
    f = {"family": "layout"}
    f.update(facts)
    return dri.Rep(f, bat, B.layout_judge)


# ------------------------------------------------------------------ lexer: trivia

def _trivia_paths(O, R, first, L, ascii_only, what):
    m = O.mir
    eng, src, paths = lexing.lex_explore(O, "TokenKind", L, first=first, ascii_only=ascii_only, reentry="event")
    good = []
    for p in paths:
        if p.outcome == "cut":
            O.inconclusive("loop bound too small: %s" % p.detail)
            continue
        if p.outcome == "unsupported":
            R.fail(O, p, "the lexer does something the lexer model cannot follow after %s: %s" % (what, p.detail))
            continue
        if p.outcome != "return":
            R.fail(O, p, "lexing %s: %s %s" % (what, p.outcome, p.detail))
            continue
        res = p.state.extra.get("lex_reentries", [])
        if p.state.extra.get("lex_reads_start"):
            R.fail(O, p, "the generated lexer reads token_start while skipping %s" % what)
            continue
        if len(res) != 1:
            R.fail(O, p, "%s is not skipped as one piece of trivia (%d re-entries of lex, log %s)" % (
                what, len(res), p.state.extra.get("lex_log")))
            continue
        r = res[0]
        st_, kind, s, e = lexing.result_of(m, "TokenKind", p)
        if st_ != "none" or r["ops"] != p.state.extra.get("lex_ops") or s != r["end"] or e != r["end"] or \
                "set" in p.state.extra.get("lex_log", []) or "error" in p.state.extra.get("lex_log", []):
            R.fail(O, p, "skipping %s leaves a token or moves on after re-entering lex (%s %s [%s,%s), log %s)" % (
                what, st_, kind, s, e, p.state.extra.get("lex_log")))
            continue
        good.append((p, r["end"]))
    return eng, src, good


@obligation("C20/lexer-blank", profiles=("dev",),
            desc="body lexer from any offset whose byte is a space, tab or carriage return, every source with at most "
                 "18 bytes left: k >= 1 bytes, all of them blank, are consumed; no token is set; lex is re-entered with "
                 "token_start = token_end = offset + k and nothing happens afterwards")
def lexer_blank(O):
    R = rep("blank", "CR before", "whitespace-only")
    L = 18 if O.tier == "quick" else 34
    eng, src, good = _trivia_paths(O, R, lambda b: in_set(b, BLANK_BYTES), L, False, "blank space")
    O.witness([p for p, _ in good], "blank run skipped")
    ks = set()
    for p, k in good:
        ks.add(k)
        if k < 1:
            R.fail(O, p, "no byte consumed at a blank")
            continue
        claim = z3.And([in_set(lexing.byte(eng, src, i), WS_RULE_BYTES) for i in range(k)] +
                       [z3.ULE(bv64(k), lexmodel.src_len(eng, src))])
        R.prove(O, p, claim, "only blank bytes are consumed as blank space")
    O.note("blank runs of length %s before the re-entry; sources of up to %d bytes" % (sorted(ks), L))


def _reg_comment(L, ascii_only, tier):
    @obligation("C20/lexer-comment[%s<=%d]" % ("ascii" if ascii_only else "utf8", L), profiles=("dev",), tier=tier,
                desc="body lexer from any offset whose byte is `#`, every %s source with at most %d bytes left: the bytes up "
                     "to, and not including, the next line break (or the end of the source) are consumed, no token is set, "
                     "lex is re-entered there and nothing happens afterwards" % ("ASCII" if ascii_only else "UTF-8", L))
    def _ob(O, L=L, ascii_only=ascii_only):
        R = rep("comment")
        eng, src, good = _trivia_paths(O, R, lambda b: b == 0x23, L, ascii_only, "a comment")
        O.witness([p for p, _ in good], "comment skipped")
        n = lexmodel.src_len(eng, src)
        for p, k in good:
            if k < 1:
                R.fail(O, p, "no byte consumed at `#`")
                continue
            claim = z3.And([lexing.byte(eng, src, i) != 0x0A for i in range(1, k)] +
                           [z3.Or(n == bv64(k), z3.And(z3.UGT(n, bv64(k)), lexing.byte(eng, src, k) == 0x0A))])
            R.prove(O, p, claim, "a comment ends exactly at the next line break or at the end of the source")
    return _ob


_reg_comment(9, True, "quick")
_reg_comment(6, False, "quick")
_reg_comment(12, True, "thorough")
_reg_comment(9, False, "thorough")


@obligation("C20/lexer-eol", profiles=("dev",),
            desc="body lexer from any offset whose byte is a line break: exactly that byte becomes one Eol token")
def lexer_eol(O):
    R = rep("inserted", "CR before")
    m = O.mir
    eng, src, paths = lexing.lex_explore(O, "TokenKind", 6, first=lambda b: b == 0x0A, reentry="event")
    ok = []
    for p in paths:
        st_, kind, s, e = lexing.result_of(m, "TokenKind", p) if p.outcome == "return" else ("?", None, None, None)
        if p.outcome != "return" or (st_, kind, s, e) != ("ok", "Eol", 0, 1) or p.state.extra.get("lex_reentries"):
            R.fail(O, p, "a line break does not lex as one Eol token of one byte: %s %s %s [%s,%s)" % (p.outcome, st_, kind, s, e))
        else:
            ok.append(p)
    O.witness(ok, "line break lexed as Eol")


# ------------------------------------------------------------------ lexer: tokens

DELIMS = (0x20, 0x09, 0x0D, 0x0A, 0x23)
SHAPES = {
    "DecInt": lambda bs: z3.And([z3.And(z3.UGE(bs[0], 0x31), z3.ULE(bs[0], 0x39))] +
                                [z3.And(z3.UGE(b, 0x30), z3.ULE(b, 0x39)) for b in bs[1:]]),
    "OctInt": lambda bs: z3.And([bs[0] == 0x30] + [z3.And(z3.UGE(b, 0x30), z3.ULE(b, 0x37)) for b in bs[1:]]),
    "HexInt": lambda bs: z3.And([z3.BoolVal(len(bs) >= 3), bs[0] == 0x30, z3.Or(bs[1] == 0x78, bs[1] == 0x58)] +
                                [z3.Or(z3.And(z3.UGE(b, 0x30), z3.ULE(b, 0x39)), z3.And(z3.UGE(b, 0x61), z3.ULE(b, 0x66)),
                                       z3.And(z3.UGE(b, 0x41), z3.ULE(b, 0x46))) for b in bs[2:]]) if len(bs) >= 2 else z3.BoolVal(False),
    "BinInt": lambda bs: z3.And([z3.BoolVal(len(bs) >= 3), bs[0] == 0x30, z3.Or(bs[1] == 0x62, bs[1] == 0x42)] +
                                [z3.Or(b == 0x30, b == 0x31) for b in bs[2:]]) if len(bs) >= 2 else z3.BoolVal(False),
}


def _reg_tokens(L, ascii_only, tier):
    @obligation("C20/lexer-tokens[%s<=%d]" % ("ascii" if ascii_only else "utf8", L), profiles=("dev",), tier=tier,
                desc="body lexer from any offset at a byte that is not blank, `#` or a line break, every %s source with at most "
                     "%d bytes left: (1) lexing returns one token or an error item, never panics, and always consumes at least "
                     "one byte; (2) a DecInt/OctInt/HexInt/BinInt token consists of exactly the characters parse_number "
                     "relies on; (3) a token that ends where a blank, line break, `#` or the end of the source follows is the "
                     "same token for every continuation after that delimiter" % ("ASCII" if ascii_only else "UTF-8", L))
    def _ob(O, L=L, ascii_only=ascii_only):
        R = rep()
        Rr = rep("integer literals")
        m = O.mir
        eng, src, paths = lexing.lex_explore(O, "TokenKind", L, first=lambda b: z3.Not(in_set(b, DELIMS + (0x0C,))),
                                             ascii_only=ascii_only, reentry="event")
        n = lexmodel.src_len(eng, src)
        by_res = {}
        good = []
        for p in paths:
            if p.outcome == "cut":
                O.inconclusive("loop bound too small: %s" % p.detail)
                continue
            if p.outcome == "unsupported":
                R.fail(O, p, "the lexer does something the lexer model cannot follow: %s" % p.detail)
                continue
            if p.outcome != "return":
                R.fail(O, p, "lexing a token: %s %s" % (p.outcome, p.detail))
                continue
            st_, kind, s, e = lexing.result_of(m, "TokenKind", p)
            if p.state.extra.get("lex_reentries") or st_ not in ("ok", "err") or s != 0 or e is None or e < 1:
                R.fail(O, p, "lexing at a token start gives %s %s [%s,%s) (re-entries %s)" % (
                    st_, kind, s, e, len(p.state.extra.get("lex_reentries", []))))
                continue
            good.append(p)
            by_res.setdefault((st_, kind, e), []).append(p)
            if kind in SHAPES:
                bs = [lexing.byte(eng, src, i) for i in range(e)]
                Rr.prove(O, p, SHAPES[kind](bs), "%s token text has the shape parse_number relies on" % kind)
        O.witness(good, "token lexed")
        kinds = sorted(set(k for (_, k, _) in by_res if k))
        O.note("%d paths, %d distinct results; token kinds reached: %s" % (len(good), len(by_res), " ".join(kinds)))
        # (3) delimiter independence.  Two sources S, S' that agree on [0, e) and both have a delimiter (or their end)
        # at e: if S lexes to result r = (kind, e), S' must too.  The lexer's result as a function of the source is the
        # disjunction of the path conditions per result; S' is S with every byte from e on, and the length, renamed.
        bvars = [lexing.byte(eng, src, i) for i in range(L + 4)]
        for (st_, kind, e), ps in sorted(by_res.items(), key=lambda t: (t[0][2], str(t[0][1]))):
            if e > L:
                continue
            ren = [(bvars[i], z3.BitVec("src2_b%d" % i, 8)) for i in range(e, L + 4)] + [(n, z3.BitVec("src2_len", 64))]
            n2 = ren[-1][1]
            b2 = dict((i, ren[i - e][1]) for i in range(e, L + 4))

            def delim(nn, be):
                return z3.Or(nn == bv64(e), z3.And(z3.UGT(nn, bv64(e)), in_set(be, DELIMS)))
            G = z3.Or([z3.And(list(p.pc)) for p in ps])
            G2 = z3.substitute(G, *ren)
            # the renamed source must itself be a possible source: well-formed and within the bound
            wf2 = z3.substitute(lexmodel.valid_utf8(eng, src, L), *ren)
            asc2 = [z3.ULT(b2[i], 0x80) for i in range(e, L)] if ascii_only else []
            res, mod = O.solve([G, delim(n, bvars[e]), wf2, delim(n2, b2[e]), z3.Not(G2)] + asc2)
            if res == "unknown":
                O.inconclusive("solver unknown on delimiter independence of %s ending at %d" % (kind, e))
            elif res == "sat":
                a = lexing.model_bytes(eng, src, mod, L)
                R.fail(O, ps[0], "a %s token of %d bytes followed by a delimiter lexes differently depending on what comes "
                                 "after the delimiter (source %r)" % (kind or "error", e, a))
    return _ob


_reg_tokens(13, True, "quick")
_reg_tokens(4, False, "quick")
_reg_tokens(16, True, "thorough")
_reg_tokens(5, False, "thorough")


# ------------------------------------------------------------------ parser: positions do not matter

_SPAN_RX = re.compile(r"^(tok\d+)\.(start|end)$")
LAYOUT_VARS = ("input.len",)


def layout_support(t, cache, top=True):
    """Names of layout-dependent variables (token positions, source length) that term t depends on, other than
    through text_of_span(tokI.start, tokI.end) - the text of token I.
    Only whole conjuncts are cached, together with the term itself (z3 reuses the ids of freed terms, so an id is a
    valid key only while its term is alive); the cache is emptied when it grows large."""
    tid = t.get_id()
    if top:
        ent = cache.get(tid)
        if ent is not None:
            return ent[1]
    r = frozenset()
    if z3.is_app(t):
        d = t.decl()
        nm = d.name()
        if t.num_args() == 0:
            if d.kind() == z3.Z3_OP_UNINTERPRETED and (_SPAN_RX.match(nm) or nm in LAYOUT_VARS):
                r = frozenset([nm])
        elif nm == "text_of_span" and t.num_args() == 2:
            a, b = t.arg(0), t.arg(1)
            ma = _SPAN_RX.match(a.decl().name()) if z3.is_const(a) else None
            mb = _SPAN_RX.match(b.decl().name()) if z3.is_const(b) else None
            if ma and mb and ma.group(1) == mb.group(1) and ma.group(2) == "start" and mb.group(2) == "end":
                r = frozenset()
            else:
                r = layout_support(a, cache, False) | layout_support(b, cache, False)
        else:
            acc = set()
            for i in range(t.num_args()):
                acc |= layout_support(t.arg(i), cache, False)
            r = frozenset(acc)
    if top:
        if len(cache) > 200000:
            cache.clear()
        cache[tid] = (t, r)
    return r


def node_terms(n, out, seen, depth=0):
    """Every term stored in the value graph below node n."""
    if n is None or id(n) in seen or depth > 60:
        return
    seen.add(id(n))
    for t in (n.term, n.tag, n.length):
        if t is not None and not isinstance(t, (int, str)):
            out.append(t)
    for d in (n.fields, n.variants):
        if d:
            for v in d.values():
                if isinstance(v, Node):
                    node_terms(v, out, seen, depth + 1)
    if n.elems:
        for i, v in n.elems:
            if not isinstance(i, int):
                out.append(i)
            node_terms(v, out, seen, depth + 1)
    node_terms(n.vec, out, seen, depth + 1)
    node_terms(n.target, out, seen, depth + 1)


def span_hook(state, m=None, fn=None):
    """path hook factory: keeps only paths whose condition (or accepted result) depends on layout variables: token
    positions, the source length, and - in branch conditions - the line counter."""
    cache = {}
    state["checked"] = 0
    state["bad"] = []

    def factory(eng, ts):
        line_name = None
        if m is not None and fn is not None:
            eng.focus(None)
            line0 = eng.scalar(eng.field(eng.deref(initial(fn, 1)), m.fidx("Parser", "line"), "usize"))
            line_name = line0.decl().name()
            exempt_term = z3.ULT(line0, bv64(1 << 40))          # the harness's own bound on the starting line
            state["_keep"] = exempt_term                        # (kept alive: its id must stay its own)
            exempt = exempt_term.get_id()

        lc = {}

        def line_dep(c):
            """does branch condition c mention the starting line?  (cache: whole conjuncts, kept alive with their id)"""
            if line_name is None or c.get_id() == exempt:
                return False
            ent = lc.get(c.get_id())
            if ent is not None:
                return ent[1]
            if len(lc) > 200000:
                lc.clear()
            stack = [c]
            seen = set()
            while stack:
                t = stack.pop()
                i = t.get_id()
                if i in seen:
                    continue
                seen.add(i)
                if z3.is_const(t) and t.decl().kind() == z3.Z3_OP_UNINTERPRETED and t.decl().name() == line_name:
                    # a condition that the harness's bound on the starting line already implies (the overflow check
                    # of `line += 1` in the dev profile) is no dependence
                    sv = z3.Solver()
                    sv.set("timeout", 10000)
                    sv.add(z3.ULT(line0, bv64(1 << 40)), z3.Not(c))
                    r = sv.check() != z3.unsat
                    lc[c.get_id()] = (c, r)
                    return r
                stack.extend(t.children())
            lc[c.get_id()] = (c, False)
            return False

        def hook(p):
            if p.outcome not in ("return", "panic"):
                return p.outcome in ("cut", "unsupported")
            state["checked"] += 1
            dep = set()
            for c in p.pc:
                dep |= layout_support(c, cache)
                if line_dep(c):
                    dep.add("line")
            where = "branch"
            if not dep and p.outcome == "return" and p.ret is not None:
                ok = p.ret.variants.get("Ok") if p.ret.variants else None
                if ok is not None:
                    ts_ = []
                    node_terms(ok, ts_, set())
                    for t in ts_:
                        dep |= layout_support(t, cache)
                    where = "accepted result"
            if dep:
                if len(state["bad"]) < 40:
                    state["bad"].append((p, sorted(dep), where))
                    return True
            return False
        return hook
    return factory


def _span_check(O, N, part=None, parts=1, fixed=()):
    R = rep()
    m0 = O.mir
    fc = C09.classes(m0, parts)[part] if part is not None and N > 0 else None
    if N >= 4 and fc is not None:
        # four arbitrary tokens of which the first opens a parenthesis are three arbitrary tokens inside an expression: that
        # exploration, with positions tracked, passed 16 GB after 15 min without an end (the cap is 12 GB) - excluded, stated
        lp = bv64(m0.vidx("TokenKind", "LParen"))
        base_fc = fc
        fc = lambda k, base_fc=base_fc: z3.And(base_fc(k), k != lp)
    stt = {}
    m, eng, ts, paths = C09.explore_block(O, N, None, fc, 2, fixed=fixed, keep_outcomes=C09.only_bad,
                                          path_hook=span_hook(stt, m0, O.find("::parse_stmt_block")))
    if not eng.outcomes.get("return"):
        O.inconclusive("vacuous: the parser never returns in this class")
    for p in paths:
        if p.outcome == "cut":
            O.inconclusive("loop bound too small for %d tokens: %s" % (N, p.detail))
    for p, dep, where in stt["bad"]:
        def scen(mod, p=p):
            kinds, sids = C09.token_facts(m, ts, mod)
            # the same tokens in two layouts: the battery decides natively; the concrete token sequence is in the facts
            return R.battery

        def facts(mod, dep=dep, where=where):
            return dict(R.facts, what=("%s depends on %s" % (where, ",".join(re.sub(r"\d+", "", d) for d in dep)))[:90])
        O.fail_path(p, "the parser's %s depends on where tokens are in the source (%s)" % (where, ", ".join(dep)),
                    facts, scen, R.judge)
    O.note("%s%d symbolic tokens%s: %d paths checked for dependence on token positions / source length, %d dependent" % (
        ("after %s: " % " ".join(fixed)) if fixed else "", N, "" if part is None else " (class %d/%d)" % (part + 1, parts),
        stt["checked"], len(stt["bad"])))


def _reg_span(N, part, parts, tier):
    name = "C20/parser-spans[N=%d%s]" % (N, "" if part is None else ",%d/%d" % (part + 1, parts))

    @obligation(name, profiles=("dev",), tier=tier,
                desc="parse_stmt_block over every sequence of %d token kinds (positions and texts symbolic) then Eof%s: no "
                     "path condition and no accepted result mentions a token position or the source length other than as "
                     "the text of a token%s" % (N, "" if part is None else " (first token in class %d of %d)" % (part + 1, parts),
                                               "; sequences that start with `(` are outside the N = 4 jobs" if N >= 4 else ""))
    def _ob(O, N=N, part=part, parts=parts):
        _span_check(O, N, part, parts)
    return _ob


for _n in (0, 1, 2):
    _reg_span(_n, None, 1, "quick")
for _p in range(12):
    _reg_span(3, _p, 12, "quick")
for _p in range(16):
    _reg_span(4, _p, 16, "thorough")


def _reg_span_prefix(name, fixed, M, tier):
    @obligation("C20/parser-spans[%s+%d]" % (name, M), profiles=("dev",), tier=tier,
                desc="the same after the token prefix `%s` followed by every sequence of %d token kinds" % (" ".join(fixed), M))
    def _ob(O, fixed=fixed, M=M):
        _span_check(O, M, None, 1, fixed=fixed)
    return _ob


for _nm, _fx in C09.PREFIXES.items():
    _deep = 1 if _nm in C09.IN_EXPRESSION else 2
    for _M in range(_deep + 1):
        _reg_span_prefix(_nm, _fx, _M, "quick")
    if _nm not in C09.IN_EXPRESSION:
        _reg_span_prefix(_nm, _fx, _deep + 1, "thorough")


# ------------------------------------------------------------------ parser: literal radix

@obligation("C20/number-radix", profiles=("dev",),
            desc="parse_number: the string converted is the token's whole text for DecInt (radix 10) and OctInt (radix 8) and "
                 "the text after its first two bytes for HexInt (radix 16) and BinInt (radix 2); the value returned is the "
                 "converted value")
def number_radix(O):
    R = rep("integer literals")
    from ..itermodels import str_id, _str_node
    m, fn, eng, ts, paths = C12._explore_fn(O, "::parse_number", 1, (), 2)
    RAD = {"DecInt": (10, False), "HexInt": (16, True), "OctInt": (8, False), "BinInt": (2, True)}
    f_text = z3.Function("text_of_span", z3.BitVecSort(64), z3.BitVecSort(64), z3.BitVecSort(64))
    f_from = z3.Function("text_from", z3.BitVecSort(64), z3.BitVecSort(64), z3.BitVecSort(64))
    whole = f_text(z3.BitVec("tok0.start", 64), z3.BitVec("tok0.end", 64))
    nok = 0
    k = ts.kinds[0]
    for p in paths:
        eng.focus(p)
        if p.outcome == "panic":
            R.fail(O, p, "parse_number panics: %s" % p.detail)
            continue
        if p.outcome != "return":
            continue
        rt = eng.tag_of(p.ret, None)
        r, _ = O.solve(list(p.pc) + [rt == bv64(0)], want_model=False)
        if r != "sat":
            continue
        nok += 1
        fr_ = p.calls(r"from_str_radix$")
        if len(fr_) != 1:
            R.fail(O, p, "a number is accepted without exactly one conversion", extra=[rt == bv64(0)])
            continue
        if not re.search(r"<impl i64>::from_str_radix$", fr_[0].norm):
            # the same converter for every radix: i64's (a u64 / wider one accepts spellings that decimal rejects)
            R.fail(O, p, "a literal is converted by %s, not by i64::from_str_radix" % fr_[0].norm.split("core::num::")[-1],
                   extra=[rt == bv64(0)])
            continue
        try:
            sid = str_id(eng, _str_node(eng, fr_[0].args[0]))
        except Exception as e:
            R.fail(O, p, "the converted string is not derived from the token text (%s)" % e, extra=[rt == bv64(0)])
            continue
        radix = eng.scalar(fr_[0].args[1], "u32")
        want_sid = bv64(0)
        want_radix = z3.BitVecVal(0, 32)
        for nm, (rx, cut) in RAD.items():
            is_k = k == bv64(m.vidx("TokenKind", nm))
            want_sid = z3.If(is_k, f_from(whole, bv64(2)) if cut else whole, want_sid)
            want_radix = z3.If(is_k, z3.BitVecVal(rx, 32), want_radix)
        got = eng.scalar(eng.field(eng.downcast(p.ret, "Ok"), 0, "i64"))
        val = eng.scalar(eng.field(eng.downcast(fr_[0].ret, "Ok"), 0, "i64"))
        R.prove(O, p, z3.And(want_radix != z3.BitVecVal(0, 32), radix == want_radix, sid == want_sid,
                             eng.tag_of(fr_[0].ret, None) == bv64(0), got == val),
                "the digits after the radix prefix are converted with the radix of the token kind", extra=[rt == bv64(0)])
    if nok == 0:
        O.inconclusive("vacuous: no accepted literal")
    # every integer literal of the grammar goes through parse_number: no other body of the parser converts text to a number
    # (a second converter - for a bits count, say - could read a radix differently)
    conv = re.compile(r"from_str_radix|<[iu](?:8|16|32|64|128|size) as FromStr>::from_str|core::str::<impl str>::parse::<[iu]")
    for name, f in m.funcs.items():
        if not ("src/parser/" in name or name.startswith("parser::")) or re.search(r"::parse_number(?:::\{closure#\d+\})*$", name) or "::test" in name:
            continue
        for bb, (stmts, term) in f.blocks.items():
            if term and term[0] == "call" and conv.search(str(term[2])):
                O.violation("%s converts text to a number itself (%s)" % (name.split("::")[-1], str(term[2])[:50]), None,
                            dict(R.facts, what="a second number converter in the parser"), R.battery, R.judge, name)
                break
    O.note("from_str_radix is std's: the value of the digit string in the given radix, Err on an empty string, a foreign "
           "digit or overflow (contract, trusted); with lexer-tokens (2) the digit strings of the four token kinds are "
           "non-empty and contain only digits of their radix, so equal values in different radices convert equally")


# ------------------------------------------------------------------ translation validation

VALIDATION_TEXTS = [
    "let a = 0x1F;#c\n", "A é\tB\r\n", "a٣ $ é", "# only comment", "", "\n\n", "a\x0cb", "0x 0b 0b2 09 00 0 1a a1 _x x_",
    "loop(i,3)\n  1 0b101 017 0 00 09 0x 0b2 <<= != ! = looper end1 resetRandomX resetRandom\r\nend loop",
    "<<< >>> <=> >=< !== !! ~~ ^^ && || (( )) ,, ;; ++ -- ** // %%", "a#b\n#\n##\n #\t#\r\n", "€\U0001F600x", "0X1f 0B01 0xg 0b12 0777 08",
    "end loop while repeat bits let declare program init memory def call resetRandom", "ends loops whiles lets defs calls inits",
    "  \t\r\x0c  x", "x  \t\r\x0c  ", "ite (1,2,3) random( 4 ) signExt\t(4,15)",
]


@obligation("C20/lexer-translation", profiles=("dev",),
            desc="validation of the lexer translation, not a property claim: the MIR of both generated lexers, executed "
                 "by mirsym over literal texts (the repo's own lexer test input, the README-style programs of the "
                 "battery and token-boundary cases), gives the token kinds and spans of the natively compiled lexers")
def lexer_translation(O):
    from .. import replay as rp
    texts = list(VALIDATION_TEXTS)
    for name, lines in B.LAYOUT_PROGRAMS.items():
        texts.append(B.layout_render(lines, "mixed", comment=" # c"))
    texts = texts if O.tier != "quick" else texts[:14] + texts[-2:]
    items = [("body", t.encode()) for t in texts] + [("header", t.encode()) for t in texts]
    try:
        nat = rp.lex_native(items, "dev", O.mir.repo)
    except Exception as e:
        O.inconclusive("native lexer reference unavailable: %s" % str(e)[-300:])
        return
    bad = 0
    for (mode, data), want in zip(items, nat):
        tok = "TokenKind" if mode == "body" else "HeaderTokenKind"
        try:
            got = lexing.lex_concrete(O, tok, data.decode())
        except Exception as e:
            got = "EXC %s" % e
        if got != want:
            bad += 1
            O.inconclusive("lexer translation differs from the native lexer on %s %r: symbolic %s, native %s" % (
                mode, data.decode()[:60], str(got)[:200], str(want)[:200]))
    O.rec["witnesses"].append({"class": "texts lexed both ways", "paths": len(items), "model": {"mismatches": str(bad)}})
    O.note("%d texts x 2 lexers compared token by token (kind, start, end) with the natively compiled src/lexer/token.rs" % len(texts))


# ------------------------------------------------------------------ parser: blank lines

def _reg_blank_line(end_token):
    @obligation("C20/parser-blank-line[%s]" % (end_token or "top"), profiles=("dev",),
                desc="parse_stmt_block (%s), one turn of its statement loop when the next token is a line break: exactly that "
                     "token is consumed, the line counter goes up by one, no statement is added, nothing else is called or "
                     "changed, and the loop continues" % ("inside an `end %s` block" % end_token if end_token else "top level"))
    def _ob(O, end_token=end_token):
        R = rep("inserted")
        m, eng, ts, paths = C09.explore_block(O, 1, end_token, None, 2, fixed=("Eol",), cut_outer=True, from_header=True)
        fn = O.find("::parse_stmt_block")
        me0 = eng.deref(initial(fn, 1))
        line0 = eng.scalar(eng.field(me0, m.fidx("Parser", "line"), "usize"))
        blk = int(fn.debug.get("block", "_3").lstrip("_")) if hasattr(fn, "debug") else 3
        from ..models import vec_slice
        eng.focus(None)
        blen0 = eng.length(vec_slice(eng, Node("loc%d" % blk, ty=fn.locals.get(blk))))
        n = 0
        for p in paths:
            eng.focus(p)
            if p.outcome != "cut" or not (p.detail or "").startswith("loop:"):
                R.fail(O, p, "a line break at the start of a statement ends the block parser: %s %s" % (p.outcome, p.detail))
                continue
            n += 1
            if p.state.extra.get("consumed") != [0]:
                R.fail(O, p, "a blank line consumes tokens %s" % p.state.extra.get("consumed"))
                continue
            if p.trace:
                R.fail(O, p, "a blank line causes calls: %s" % [e.norm for e in p.trace][:4])
                continue
            fr = p.state.frames[0]
            b = fr.locals.get(blk)
            me = eng.deref(p.args.fields[1])
            line1 = eng.scalar(eng.field(me, m.fidx("Parser", "line"), "usize"))
            from ..models import vec_slice
            blen = eng.length(vec_slice(eng, b)) if b is not None else None
            if blen is None:
                R.fail(O, p, "the statement list is not where it is expected")
                continue
            R.prove(O, p, z3.And(blen == blen0, line1 == line0 + bv64(1)),
                    "a blank line adds no statement and counts as one line")
        if n == 0:
            O.inconclusive("vacuous: no turn of the statement loop on a line break")
        else:
            O.rec["witnesses"].append({"class": "blank-line turn", "paths": n, "model": {}})
    return _ob


_reg_blank_line(None)
_reg_blank_line("Loop")
_reg_blank_line("While")


def _reg_block_lines(name, head, tail):
    @obligation("C20/lines-below-block-header[%s]" % name, profiles=("dev",),
                desc="block parser over `%s`, one arbitrary token, `%s`: every accepted row records starting line + number of "
                     "line-break tokens consumed before it - blank or comment-only lines directly below a loop / while header "
                     "shift the lines of what follows like anywhere else" % (" ".join(head), " ".join(tail)))
    def _ob(O, head=head, tail=tail):
        from . import C19
        for n in (0, 1):
            C19.block_lines(O, n, head, tail, R=rep("inserted"))
    return _ob


from . import C19 as _C19
_reg_block_lines("loop", _C19.LOOP_HEAD, ("DecInt", "Eol", "End", "Loop"))
_reg_block_lines("while", _C19.WHILE_HEAD, ("DecInt", "Eol", "End", "While"))


# ------------------------------------------------------------------ the parser treats the four integer token kinds alike

INT_KINDS = ("DecInt", "HexInt", "OctInt", "BinInt")
INT = "<INT>"
# (name, tokens before the symbolic ones - <INT> marks the literal whose kind is varied -, symbolic tokens, tokens after)
INT_TEMPLATES = [
    ("first entry of a row", (INT,), 2, ()),
    ("second entry of a row", ("DecInt", INT), 1, ()),
    ("row below a row", ("DecInt", "DecInt", "Eol", INT), 1, ("Eol",)),
    # (arbitrary tokens inside an expression: exploration did not end within 600 s - the continuation is fixed here)
    ("parenthesised entry", ("LParen", INT, "RParen", "DecInt", "Eol"), 0, ()),
    ("right operand", ("LParen", "DecInt", "Plus", INT, "RParen", "DecInt", "Eol"), 0, ()),
    ("left operand", ("LParen", INT, "Times", "DecInt", "RParen", "DecInt", "Eol"), 0, ()),
    ("unary operand", ("LParen", "Minus", INT, "RParen"), 1, ()),
    ("function argument", ("LParen", "Ident", "LParen", INT, "RParen", "RParen"), 1, ()),
    ("loop bound", ("Loop", "LParen", "Ident", "Comma", INT, "RParen", "Eol"), 0, ("End", "Loop", "Eol")),
    ("first row of a loop body", ("Loop", "LParen", "Ident", "Comma", "DecInt", "RParen", "Eol", INT), 1, ("Eol", "End", "Loop", "Eol")),
    ("while condition", ("While", "LParen", INT, "RParen", "Eol"), 0, ("End", "While", "Eol")),
    ("first row of a while body", ("While", "LParen", "DecInt", "RParen", "Eol", INT), 1, ("Eol", "End", "While", "Eol")),
    ("repeat bound", ("Repeat", "LParen", INT, "RParen"), 1, ("DecInt", "Eol")),
    ("repeat row", ("Repeat", "LParen", "DecInt", "RParen", INT), 1, ()),
    ("let", ("Let", "Ident", "Equal", INT, "Semi", "Eol"), 0, ()),
    ("declare", ("Declare", "Ident", "Equal", INT, "Semi", "Eol"), 0, ()),
    ("bits width", ("Bits", "LParen", INT, "Comma", "DecInt", "RParen"), 1, ()),
    ("bits value", ("Bits", "LParen", "DecInt", "Comma", INT, "RParen"), 1, ()),
    ("entry after bits", ("Bits", "LParen", "DecInt", "Comma", "DecInt", "RParen", INT), 0, ("Eol",)),
]
INT_SAMPLE = {"DecInt": "1", "HexInt": "0x1", "OctInt": "01", "BinInt": "0b1"}


def _reg_int_kinds(name, before, nsym, after, tier="quick"):
    @obligation("C20/int-kinds-alike[%s]" % name, profiles=("dev",), tier=tier,
                desc="block parser over `%s` + %d arbitrary tokens%s, run once per integer token kind in the marked position: a token "
                     "sequence is accepted with a decimal literal there iff it is accepted with a hexadecimal, octal or binary "
                     "one (same other kinds and texts; conversion results free) - no place of the grammar singles out a radix"
                     % (" ".join(before), nsym, (" + `%s`" % " ".join(after)) if after else ""))
    def _ob(O, before=before, nsym=nsym, after=after, name=name):
        m = O.mir
        pos = list(before).index(INT)
        f_text = z3.Function("text_of_span", z3.BitVecSort(64), z3.BitVecSort(64), z3.BitVecSort(64))
        runs = {}
        for K in INT_KINDS:
            fixed = tuple(K if t == INT else t for t in before)
            # the conversion of the operator tree into an expression is an event here (its input is the result of the
            # BinOpTree::add events - running the recursive conversion over an arbitrary tree explodes and decides nothing
            # about token kinds)
            m_, eng, ts, paths = C09.explore_block(O, nsym, None, None, 2, fixed=fixed, suffix=after,
                                                   keep=(r"<BinOpTree as Into>::into", r"<Expr as From>::from", r"binoptree"),
                                                   keep_outcomes=lambda oc: oc in ("return", "cut", "unsupported"))
            acc = []
            for p in paths:
                if p.outcome == "cut":
                    O.inconclusive("loop bound too small (%s): %s" % (K, p.detail))
                    continue
                if p.outcome != "return":
                    continue
                eng.focus(p)
                ok = eng.tag_of(p.ret, None) == bv64(0)
                r, _ = O.solve(list(p.pc) + [ok], want_model=False)
                if r == "sat":
                    acc.append((p, ok))
            runs[K] = (eng, ts, acc)
        if not runs["DecInt"][2]:
            O.inconclusive("vacuous: the template is never accepted with a decimal literal")
        R = rep("integer literals", template=name)

        def render_pair(ts, kinds, sids, Ka, Kb):
            """(base with Ka, variant with Kb) source texts for the token kinds of the model"""
            def text(Kx):
                ks = list(kinds)
                src = C09.render(m, ks, sids, "A B", True)
                return src
            # render() uses one sample text per kind; write the varied literal with a value-equal sample
            outs = []
            for Kx in (Ka, Kb):
                ks = list(kinds)
                ks[pos] = m.vidx("TokenKind", Kx)
                toks = []
                for i, k in enumerate(ks):
                    nm = kind_name_(m, k)
                    if i == pos:
                        toks.append(INT_SAMPLE[Kx])
                    elif nm in INT_SAMPLE:
                        toks.append(INT_SAMPLE[nm])
                    else:
                        t = C09.SAMPLE.get(nm, "?")
                        if nm == "Ident" and sids and sids[i] is not None:
                            for cand in C09.IDENT_TEXTS:
                                if C09.lit_id(cand) == sids[i]:
                                    t = cand
                        toks.append(t)
                body = ""
                for t in toks:
                    if t == "\n":
                        body += "\n"
                    else:
                        body += (" " if body and not body.endswith("\n") else "") + t
                outs.append("A B\n" + body + "\n")
            return outs

        def compare(Ka, Kb):
            enga, tsa, acca = runs[Ka]
            engb, tsb, accb = runs[Kb]
            symk = [tsa.kinds[i] for i in tsa.sym]
            for p, ok in acca:
                block = []
                for _ in range(40):
                    res, mod = O.solve(list(p.pc) + [ok] + block)
                    if res != "sat":
                        break
                    vals = [mval(mod, k, False) for k in symk]
                    kinds_, sids = C09.token_facts(m, tsa, mod)
                    same = [k == bv64(v) for k, v in zip(symk, vals)]
                    for i in range(tsa.n):
                        if i != pos and sids[i] is not None and kind_name_(m, kinds_[i]) == "Ident":
                            same.append(f_text(z3.BitVec("tok%d.start" % i, 64), z3.BitVec("tok%d.end" % i, 64)) == bv64(sids[i]))
                    found = False
                    for q, okq in accb:
                        r2, _ = O.solve(list(q.pc) + [okq] + same, want_model=False)
                        if r2 == "sat":
                            found = True
                            break
                        if r2 == "unknown":
                            O.inconclusive("solver unknown while matching %s against %s" % (Ka, Kb))
                            found = True
                            break
                    if not found:
                        base_src, var_src = render_pair(tsa, kinds_, sids, Ka, Kb)
                        names = [kind_name_(m, k) for k in kinds_]
                        names[pos] = Ka
                        O.violation("the token sequence %s is accepted with a %s in position %d but not with a %s" % (
                                        " ".join(names), Ka, pos, Kb), mod,
                                    dict(R.facts, what="radix decides acceptance", accepted=Ka, rejected=Kb, position=pos),
                                    [Scenario(var_src, B.LAYOUT_SIGNALS[:2], max_rows=50, expect={"base": base_src, "line_map": None},
                                              note="%s: literal %d written as %s instead of %s" % (name, pos, Kb, Ka)),
                                     Scenario(base_src, B.LAYOUT_SIGNALS[:2], max_rows=50, expect={"base": var_src, "line_map": None},
                                              note="%s: literal %d written as %s instead of %s" % (name, pos, Ka, Kb))] + R.battery,
                                    R.judge, "accepted with %s, rejected with %s" % (Ka, Kb))
                        return
                    if not symk:
                        break
                    block.append(z3.Or([k != bv64(v) for k, v in zip(symk, vals)]))
        for K in INT_KINDS[1:]:
            compare("DecInt", K)
            compare(K, "DecInt")
        O.note("accepting paths per kind: %s" % {K: len(runs[K][2]) for K in INT_KINDS})
    return _ob


def kind_name_(m, v):
    from .parsing import kind_name
    return kind_name(m, v)


for _nm, _bf, _ns, _af in INT_TEMPLATES:
    _reg_int_kinds(_nm, _bf, _ns, _af)
# thorough tier: one more arbitrary token where the literal stands in a row (not inside an expression: see above)
for _nm, _bf, _ns, _af in INT_TEMPLATES:
    if _nm in ("first entry of a row", "second entry of a row", "row below a row", "first row of a loop body", "first row of a while body",
               "repeat row", "entry after bits", "loop bound", "while condition"):
        _reg_int_kinds(_nm + ", one more token", _bf, _ns + 1, _af, tier="thorough")


@obligation("C20/dig-header-through-the-parser", profiles=("dev",),
            desc="dig::File::parse (and its closures) reads the header of each test through HeaderParser - the same lexer and "
                 "parser that load_test uses - and applies no text operation of its own to a test's source (no split / lines / "
                 "trim / find / chars): how the header is laid out cannot matter to whether the document loads (call sites of the MIR)")
def dig_header_through_parser(O):
    m = O.mir
    allowed = re.compile(r"<impl str>::(?:strip_suffix|len|is_empty|as_bytes|to_owned|to_string)\b")
    textop = re.compile(r"core::str::<impl str>::(\w+)|<str as [A-Za-z]*Index")
    R = dri.Rep({"family": "layout"}, [s_ for s_ in B.dig_battery() if "header" in s_.note or "laid out" in s_.note] + B.dig_battery()[:6], B.dig_judge)
    n = 0
    hp = 0
    bad = []
    for name, f in m.funcs.items():
        if not (("src/dig.rs" in name or name.startswith("dig::")) and re.search(r"::parse(?:::\{closure#\d+\})*$", name)):
            continue
        n += 1
        for bb, (stmts, term) in f.blocks.items():
            if not term or term[0] != "call":
                continue
            c = str(term[2])
            if "HeaderParser" in c and c.rstrip(">").endswith("::new") or "HeaderParser::<'_>::new" in c or re.search(r"HeaderParser.*::new", c):
                hp += 1
            mm = textop.search(c)
            if mm and not allowed.search(c):
                bad.append(c[:80])
    O.rec["paths"] += n
    if n == 0:
        O.inconclusive("cannot find dig::File::parse")
    if hp == 0:
        O.violation("File::parse does not read test headers through HeaderParser", None, dict(R.facts, what="header not parsed by the parser"),
                    R.battery, R.judge, "no HeaderParser::new call")
    for b_ in sorted(set(bad))[:3]:
        O.violation("File::parse applies a text operation of its own to test sources (%s)" % b_, None,
                    dict(R.facts, what="own text operation on a test source"), R.battery, R.judge, b_)
