"""C18 - vars() reports the variables in scope at the row just yielded.

Kernel obligations: vars() hands out FramedMap::flatten of the visible variable map unchanged; flatten scans the
bindings innermost-first and keeps the first occurrence of each name (bounded); the variable maps are swapped back
after every extraction (so the real map is the one reported); loop exit always pops exactly the loop's frame.
The frame discipline over whole runs is argued from these in DESIGN.md, not mechanised.
"""
import z3

from ..oblig import obligation
from ..sym import bv64, Node
from ..models import vec_slice
from .. import build
from .common import initial, mval, T
from . import batteries as B
from . import dri


def rep():
    from .refmodel import with_reference
    return with_reference(dri.Rep({"family": "vars"}, B.vars_battery(), B.vars_judge), ("control",), show_vars=True)


@obligation("C18/vars-is-flatten", desc="DataRowIterator::vars -> EvalContext::vars -> FramedMap::flatten of the visible "
            "variable map, returned unchanged (no filtering, no outputs mixed in)")
def vars_is_flatten(O):
    m = O.mir
    R = rep()
    fn = O.find("::vars", file="eval_context.rs")
    eng = O.engine()
    eng.keep_events(r"flatten$")
    paths = O.explore(eng, fn)
    O.witness([p for p in paths if p.outcome == "return"], "EvalContext::vars returns")
    for p in paths:
        eng.focus(p)
        if p.outcome != "return":
            R.fail(O, p, "EvalContext::vars: %s %s" % (p.outcome, p.detail))
            continue
        fl = p.calls(r"flatten$")
        others = [e.norm for e in p.calls() if not e.norm.endswith("flatten")]
        if len(fl) != 1 or others:
            R.fail(O, p, "vars() is not just the flattened variable map (%s)" % (others[:2] or len(fl)))
            continue
        vars_f = eng.field(eng.deref(p.args.fields[1]), m.fidx("EvalContext", "vars"))
        if T(eng, fl[0].args[0]) is not vars_f:
            R.fail(O, p, "vars() flattens a different map than the visible variables")
        if p.ret.root != fl[0].ret.root:
            R.fail(O, p, "vars() does not return the flattened map unchanged")
    fn2 = O.find("::vars", file="data_row_iterator.rs")
    eng2 = O.engine()
    eng2.keep_events(r"EvalContext::vars$")
    for p in O.explore(eng2, fn2):
        eng2.focus(p)
        if p.outcome != "return":
            continue
        v = p.calls(r"EvalContext::vars$")
        ctx_f = eng2.field(eng2.deref(p.args.fields[1]), m.fidx("DataRowIterator", "ctx"))
        if len(v) != 1 or T(eng2, v[0].args[0]) is not ctx_f or p.ret.root != v[0].ret.root:
            R.fail(O, p, "DataRowIterator::vars does not return its context's variables")


@obligation("C18/flatten", desc="FramedMap::flatten (<= 3 bindings): bindings are visited innermost-first (reverse order) "
            "and a binding is inserted iff its name is not yet present - the innermost binding of a name wins; every "
            "inserted pair is the visited (name, value)")
def flatten(O):
    m = O.mir
    R = rep()
    fn = O.find("::flatten")
    eng = O.engine()
    eng.iter_bound = 4
    eng.max_visits = 6
    N = 3

    def setup(eng_, st, fr):
        me = eng_.deref(fr.locals[1])
        vals = [build.struct([Node("k%d" % i, ty="K"), Node("v%d" % i, ty="V")]) for i in range(N)]
        vv = build.vec_of(eng_, vals)
        n = z3.BitVec("nvals", 64)
        vv.vec.length = n
        st.pc.append(z3.ULE(n, bv64(N)))
        from ..sym import assign_node
        assign_node(eng_.field(me, m.fidx("FramedMap", "values")), vv)
    paths = O.explore(eng, fn, setup=setup)
    O.witness([p for p in paths if p.outcome == "return"], "flatten returns")
    n = z3.BitVec("nvals", 64)
    for p in paths:
        eng.focus(p)
        if p.outcome == "cut":
            # more loop iterations than one pass over <= 3 bindings needs: not the code this obligation is formulated
            # over - the battery decides natively (deviation = violation, silence = inconclusive)
            raise LookupError("flatten runs more loop iterations than one pass over its bindings (%s)" % (p.detail or "")[:80])
        if p.outcome != "return":
            R.fail(O, p, "flatten: %s %s" % (p.outcome, p.detail))
            continue
        res, mod = O.solve(list(p.pc))
        if res != "sat":
            continue
        nn = mval(mod, n, False)
        cks = p.calls(r"contains_key$")
        ins = p.calls(r"HashMap::insert$")
        if len(cks) != nn:
            R.fail(O, p, "flatten looks at %d of %d bindings" % (len(cks), nn))
            continue
        k_ins = 0
        for j, ck in enumerate(cks):
            want = nn - 1 - j           # reverse order
            key_chain = [r_ for t in ck.tnames for (r_, _) in [t] if t] + [r_ for t in ck.tnames for (r_, _) in getattr(t, "chain", [])]
            if "k%d" % want not in key_chain:
                R.fail(O, p, "binding %d is not visited innermost-first" % j)
                break
            present = eng.scalar(ck.ret, "bool")
            # is there an insert right after this contains_key and before the next one?
            pos = p.trace.index(ck)
            nxt = p.trace.index(cks[j + 1]) if j + 1 < len(cks) else len(p.trace)
            mine = [e for e in ins if pos < p.trace.index(e) < nxt]
            if len(mine) > 1:
                R.fail(O, p, "a binding is inserted twice")
                break
            R.prove(O, p, present if not mine else z3.Not(present),
                    "a binding is copied iff its name is not present yet (innermost wins)")
            if mine:
                e = mine[0]
                if e.args[2].root != "v%d" % want:
                    R.fail(O, p, "the copied value is not the visited binding's value")
                k_ins += 1
        if p.ret is None:
            continue
    O.note("bounded to %d bindings" % N)


@obligation("C18/swap-restored", desc="extract_output_values: variable maps swapped back on every path, so vars() reports "
            "the real variables after a failed row as well")
def swap_restored(O):
    from . import C04
    C04.swap_restored(O, rep())


@obligation("C18/loop-exit-pops", desc="statement interpreter: every way out of a loop iteration either continues (set the "
            "counter, no frame operation) or pops exactly one frame; loop entry pushes exactly one")
def loop_exit(O):
    from . import C01
    old = C01.rep
    C01.rep = rep
    try:
        C01.interpreter_arms(O)
    finally:
        C01.rep = old


@obligation("C18/frames", desc="FramedMap push_frame / pop_frame kernels (bounded)")
def frames(O):
    from . import C01
    old = C01.rep
    C01.rep = rep
    try:
        C01.frames(O)
    finally:
        C01.rep = old


@obligation("C18/set-binds", desc="EvalContext::set: every call binds the name in the visible variable map (exactly one "
            "FramedMap::set with that name and value, no condition, no look-up first) - a let or a counter always shows up in "
            "vars(), whatever the device reports for an output of that name")
def set_binds(O):
    set_binds_core(O, rep())


def set_binds_core(O, R):
    m = O.mir
    fn = O.find("::set", file="eval_context.rs")
    eng = O.engine()
    eng.auto_inline = False
    paths = O.explore(eng, fn)
    n = 0
    for p in paths:
        eng.focus(p)
        if p.outcome != "return":
            R.fail(O, p, "EvalContext::set: %s %s" % (p.outcome, p.detail))
            continue
        n += 1
        calls = [e for e in p.trace if e.kind == "call"]
        sets = [e for e in calls if e.norm.endswith("FramedMap::set")]
        others = [e.norm.split("::")[-1] for e in calls if not e.norm.endswith("FramedMap::set")]
        if len(sets) != 1 or others:
            R.fail(O, p, "EvalContext::set performs %s instead of one FramedMap::set" % ([e.norm.split("::")[-1] for e in calls]))
            continue
        R.prove(O, p, eng.scalar(sets[0].args[2], "i64") == eng.scalar(p.args.fields[3], "i64"), "the value bound is the value given")
    if n == 0:
        O.inconclusive("vacuous: EvalContext::set never returns")
