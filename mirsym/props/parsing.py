"""Symbolic token streams for the parser functions.

The lexer is replaced by its interface: `Peekable<TokenIter>` yields N tokens of arbitrary kind (any kind the
lexer can produce - never the skipped WS/Comment, never Eof/None before the end), then exactly one Eof, then
None (TokenIter's contract, src/lexer/mod.rs). peek() and next() agree on the token at the current position.
Token texts are string identities that are a function of the token (span). This makes the token *sequence*
symbolic: every path of the real parser code over every sequence of N token kinds is explored.
"""
import z3

from ..sym import Node, bv64, BV64, mk_ref, mk_usize, mk_scalar, copy_node, fresh_root
from .. import build, models


class TokenStream:
    def __init__(self, m, n, prefix="tok", fixed=(), suffix=()):
        """n symbolic tokens after the concrete token kinds named in `fixed` (and before those in `suffix`)."""
        self.m = m
        self.fixed = list(fixed)
        self.suffix = list(suffix)
        self.prefix = prefix
        self.kinds = [bv64(m.vidx("TokenKind", k)) for k in self.fixed] + \
                     [z3.BitVec("%s%d.kind" % (prefix, i + len(self.fixed)), 64) for i in range(n)] + \
                     [bv64(m.vidx("TokenKind", k)) for k in self.suffix]
        self.sym = list(range(len(self.fixed), len(self.fixed) + n))
        self.n = len(self.kinds)
        self.EOF = m.vidx("TokenKind", "Eof")
        self.never = [m.vidx("TokenKind", k) for k in ("Eof", "WS", "Comment")]
        self.nkinds = len(m.enums["TokenKind"])

    def constraints(self):
        cs = []
        for k in [self.kinds[i] for i in self.sym]:
            cs.append(z3.ULT(k, bv64(self.nkinds)))
            for nv in self.never:
                cs.append(k != bv64(nv))
        return cs

    def token(self, eng, i):
        """Token value number i (i == n: the Eof token)."""
        kind = Node(fresh_root("tk"), ty="lexer::token::TokenKind")
        kind.tag = self.kinds[i] if i < self.n else bv64(self.EOF)
        kind.variants = {}
        span = build.struct([mk_usize(z3.BitVec("%s%d.start" % (self.prefix, i), 64)),
                             mk_usize(z3.BitVec("%s%d.end" % (self.prefix, i), 64))], "std::ops::Range<usize>")
        t = build.struct([kind, span], "lexer::token::Token")
        return t

    def install(self, eng):
        ts = self

        def pos_of(st):
            p = st.extra.get("tokpos")
            if p is None:
                p = mk_usize(bv64(0))
                st.extra["tokpos"] = p
            return p

        def none(ty):
            n_ = Node(fresh_root("e"), ty=ty or "Option")
            n_.tag = bv64(0)
            n_.variants = {}
            return n_

        def m_next(ctx):
            p = pos_of(ctx.st)
            i = z3.simplify(p.term).as_long()
            if i > ts.n:
                return ctx.ret(none(ctx.dest_ty))
            p.term = bv64(i + 1)
            ctx.st.extra.setdefault("consumed", []).append(i)
            return ctx.ret(models.mk_enum(ctx.eng, "Option", "Some", [ts.token(ctx.eng, i)], ty=ctx.dest_ty))

        def m_peek(ctx):
            p = pos_of(ctx.st)
            i = z3.simplify(p.term).as_long()
            if i > ts.n:
                return ctx.ret(none(ctx.dest_ty))
            return ctx.ret(models.mk_enum(ctx.eng, "Option", "Some", [mk_ref(ts.token(ctx.eng, i))], ty=ctx.dest_ty))

        def m_text(ctx):
            """<str as Index<Range<usize>>>::index(input, range): text identity is a function of the span."""
            eng_ = ctx.eng
            r = ctx.args[1]
            if "RangeFrom" in ctx.callee:
                # text[k..]: identity is a function of the text it is cut from and of k
                from ..itermodels import str_id, _str_node
                base = str_id(eng_, _str_node(eng_, ctx.args[0]))
                k = eng_.scalar(eng_.field(r, 0, "usize"))
                g = z3.Function("text_from", BV64, BV64, BV64)
                sn = Node(fresh_root("str"), ty="str")
                sn.fields = {"sid": mk_scalar(g(base, k), "u64")}
                return ctx.ret(mk_ref(sn, "&str"))
            s = eng_.scalar(eng_.field(r, 0, "usize"))
            e = eng_.scalar(eng_.field(r, 1, "usize"))
            f = z3.Function("text_of_span", BV64, BV64, BV64)
            sn = Node(fresh_root("str"), ty="str")
            sn.fields = {"sid": mk_scalar(f(s, e), "u64")}
            return ctx.ret(mk_ref(sn, "&str"))
        def m_next_if(ctx):
            """Peekable::next_if(pred): consume and return the next token iff pred(&token)."""
            from ..itermodels import decide
            from ..models import closure_of, call_stash, finish_call
            p = pos_of(ctx.st)
            i = z3.simplify(p.term).as_long()
            if i > ts.n:
                return ctx.ret(none(ctx.dest_ty))
            clos = closure_of(ctx.eng, ctx.args[1])
            if clos is None:
                return ctx.eng.uninterpreted(ctx.st, ctx.frame, ctx.dest, ctx.dest_ty, ctx.ret_bb, ctx.callee, ctx.norm,
                                             ctx.args, ctx.site)
            tok = ts.token(ctx.eng, i)
            stash = call_stash(ctx, tok=tok, i=i)

            def after(eng_, st2, sh, ret):
                t = eng_.scalar(ret, "bool")

                def yes(st3, pl):
                    pp = pos_of(st3)
                    pp.term = bv64(pl["i"] + 1)
                    st3.extra.setdefault("consumed", []).append(pl["i"])
                    st3.extra.setdefault("consumed_raw", []).append(pl["i"])
                    return finish_call(eng_, st3, pl, models.mk_enum(eng_, "Option", "Some", [pl["tok"]], ty=pl["dest_ty"]))

                def no(st3, pl):
                    return finish_call(eng_, st3, pl, none(pl["dest_ty"]))
                return decide(eng_, st2, t, sh, yes, no)
            return ctx.eng.call_closure(ctx.st, clos, [mk_ref(tok)], stash, after)
        eng.models["<Peekable as Iterator>::next"] = m_next
        eng.models["Peekable::peek"] = m_peek
        eng.models["Peekable::next_if"] = m_next_if
        eng.models["<str as Index>::index"] = m_text
        eng.models["core::str::<impl str>::len"] = lambda ctx: ctx.ret(mk_usize(z3.BitVec("input.len", 64)))


def kind_name(m, v):
    ks = m.enums["TokenKind"]
    return ks[v] if 0 <= v < len(ks) else "?%d" % v
