"""C11 - binding a test to a signal list succeeds exactly when the two fit together.

Solver obligations on the pieces that decide the verdict:
* parse-time scoping (which identifiers count as output reads): the statement arms of the parser over token
  prefixes, with the expression / block / row sub-parsers as events - order of scope operations;
* columns holding C recorded under the header name of the column they stand in (bits(k,..) counting k);
* with_signals: the five checks in order, first error wins;
* check_missing_signals, check_and_consume_expected_inputs, build_read_outputs on bounded structures with
  symbolic names (string identities) and directions; build_indices is covered under C06.
The composition "iff" over whole programs is argued in DESIGN.md, not mechanised.
"""
import time

import z3

from ..oblig import obligation
from ..sym import bv64, Node, fresh_root, BV64
from ..models import vec_slice
from .. import build
from .common import mval, initial, T
from . import batteries as B
from . import dri
from .parsing import TokenStream, kind_name
from . import C09, C12


def rep():
    return dri.Rep({"family": "bind"}, B.bind_battery(), B.bind_judge)


SCOPE_KEEP = (r"parse_expr$", r"parse_stmt_block$", r"parse_data_row$", r"FramedSet::")


def scope_events(p):
    out = []
    for e in p.calls():
        n = e.norm
        if n.endswith("parse_expr"):
            out.append("expr")
        elif n.endswith("parse_stmt_block"):
            out.append("block")
        elif n.endswith("parse_data_row"):
            out.append("row")
        elif "FramedSet::" in n:
            out.append(n.split("::")[-1])
    return out


def _reg_scope(name, fixed, sym_n, expected, what):
    @obligation("C11/scoping[%s]" % name, profiles=("dev",),
                desc="parser arm for `%s`: whenever the statement is accepted, the scope operations and sub-parsers run in "
                     "the order %s (%s)" % (name, expected, what))
    def _ob(O, fixed=fixed, sym_n=sym_n, expected=expected):
        R = rep()
        m, eng, ts, paths = C09.explore_block(O, sym_n, None, None, 1, keep=SCOPE_KEEP, fixed=fixed,
                                              keep_outcomes=lambda oc: oc in ("return", "cut", "panic"))
        nok = 0
        for p in paths:
            eng.focus(p)
            if p.outcome != "return":
                continue
            rt = eng.tag_of(p.ret, None)
            r, _ = O.solve(list(p.pc) + [rt == bv64(0)], want_model=False)
            if r != "sat":
                continue
            ev = scope_events(p)
            # only the first statement (the fixed prefix) is of interest: cut the event list at its end
            first = ev[:len(expected)]
            nok += 1
            if first != expected:
                R.fail(O, p, "`%s` performs %s, expected %s" % (name, first, expected), extra=[rt == bv64(0)])
        if nok == 0:
            O.inconclusive("vacuous: the statement is never accepted")
        O.note("%d paths, %d accepting" % (eng.npaths, nok))
    return _ob


# after the statement the block parser needs Eol/Eof: the symbolic tail lets it finish
SCOPE_OBS = {}
# the sub-parsers are events that consume nothing, so the token streams hold just the statement's own punctuation
SCOPE_OBS["let"] = _reg_scope("let", ("Let", "Ident", "Equal", "Semi"), 0, ["expr", "insert"], "the name becomes a variable only after its initialiser was parsed")
SCOPE_OBS["loop"] = _reg_scope("loop", ("Loop", "LParen", "Ident", "Comma", "RParen", "Eol"), 0, ["expr", "push_frame", "insert", "block", "pop_frame"],
           "the bound is parsed outside the loop's scope, the counter lives in a frame that ends with the loop")
SCOPE_OBS["repeat"] = _reg_scope("repeat", ("Repeat", "LParen", "RParen"), 0, ["expr", "push_frame", "insert", "row", "pop_frame"], "the implicit counter n is scoped to the row")
SCOPE_OBS["while"] = _reg_scope("while", ("While", "LParen", "RParen", "Eol"), 0, ["expr", "block"], "while opens no scope")


@obligation("C11/scoping[declare]", profiles=("dev",),
            desc="parser arm for `declare`: the expression is parsed with the variable set replaced by an empty one and the "
                 "original set is put back afterwards")
def scoping_declare(O):
    R = rep()
    m, eng, ts, paths = C09.explore_block(O, 0, None, None, 1, keep=SCOPE_KEEP + (r"FramedSet::new$",),
                                          fixed=("Declare", "Ident", "Equal", "Semi"),
                                          keep_outcomes=lambda oc: oc in ("return", "cut", "panic"))
    nok = 0
    for p in paths:
        eng.focus(p)
        if p.outcome != "return":
            continue
        rt = eng.tag_of(p.ret, None)
        r, _ = O.solve(list(p.pc) + [rt == bv64(0)], want_model=False)
        if r != "sat":
            continue
        nok += 1
        ev = []
        for e in p.calls():
            if e.norm.endswith("FramedSet::new"):
                ev.append(("new", e))
            elif e.norm.endswith("parse_expr"):
                ev.append(("expr", e))
        kinds = [k for k, _ in ev][:2]
        if kinds != ["new", "expr"]:
            R.fail(O, p, "declare parses its expression without emptying the variable set first (%s)" % kinds, extra=[rt == bv64(0)])
            continue
        me = eng.deref(p.args.fields[1])
        vars_f = eng.field(me, m.fidx("Parser", "vars"))
        if not (vars_f.root == "arg1" and vars_f.path.endswith(".%d" % m.fidx("Parser", "vars"))):
            R.fail(O, p, "declare does not restore the variable set afterwards", extra=[rt == bv64(0)])
    if nok == 0:
        O.inconclusive("vacuous")


@obligation("C11/identifier-read", profiles=("dev",),
            desc="parse_factor on an identifier that is not a call: it is recorded as an output read iff it is not a variable "
                 "in scope")
def identifier_read(O):
    R = rep()
    m, fn, eng, ts, paths = C12._explore_fn(O, "::parse_factor", 1, ("Ident",), 1, keep=(r"FramedSet::contains$",))
    LP = bv64(m.vidx("TokenKind", "LParen"))
    n = 0
    for p in paths:
        eng.focus(p)
        if p.outcome != "return":
            continue
        rt = eng.tag_of(p.ret, None)
        cond = [rt == bv64(0), ts.kinds[1] != LP]
        r, _ = O.solve(list(p.pc) + cond, want_model=False)
        if r != "sat":
            continue
        n += 1
        cs = p.calls(r"FramedSet::contains$")
        ent = p.calls(r"HashMap::entry$")
        if len(cs) != 1:
            R.fail(O, p, "an identifier is classified without consulting the variables in scope", extra=cond)
            continue
        known = eng.scalar(cs[0].ret, "bool")
        R.prove(O, p, known if not ent else z3.Not(known), "recorded as an output read iff it is not a variable in scope", extra=cond)
        if ent:
            outs = eng.field(eng.deref(p.args.fields[1]), m.fidx("Parser", "expected_outputs"))
            if T(eng, ent[0].args[0]) is not outs:
                R.fail(O, p, "an output read is recorded in the wrong table", extra=cond)
            # the location kept with the read is the identifier's own span: distinct names have distinct locations, so the
            # order Parser::finish gives the reads (sorted by where they start) is determined by the text
            oi = p.calls(r"Entry.*::or_insert$")
            if len(oi) == 1:
                sp = oi[0].args[1]
                try:
                    st_, en_ = eng.scalar(eng.field(sp, 0, "usize")), eng.scalar(eng.field(sp, 1, "usize"))
                    R.prove(O, p, z3.And(st_ == z3.BitVec("tok0.start", 64), en_ == z3.BitVec("tok0.end", 64)),
                            "the location recorded for an output read is the identifier's own span", extra=cond)
                except Exception as e:
                    R.fail(O, p, "the location recorded for an output read is not a span (%s)" % str(e)[:60], extra=cond)
            elif ent:
                R.fail(O, p, "an output read is recorded without exactly one location (%d)" % len(oi), extra=cond)
    if n == 0:
        O.inconclusive("vacuous")


@obligation("C11/clock-column", profiles=("dev",),
            desc="parse_data_row: a `C` entry is recorded under the header name of the column it stands in - after bits(k, ..) "
                 "that is column k, not the number of entries so far")
def clock_column(O):
    clock_column_core(O, rep())


def clock_column_core(O, R):
    import zlib
    for fixed, col in ((("Ident",), 0), (("DecInt", "Ident"), 1), (("Bits", "LParen", "DecInt", "Comma", "DecInt", "RParen", "Ident"), None)):
        m, fn, eng, ts, paths = C12._explore_fn(O, "::parse_data_row", 0, fixed, 4)
        cid = {zlib.crc32(t.encode()) | (1 << 62) | (1 << 32) for t in ("c", "C")}
        for p in paths:
            eng.focus(p)
            ent = p.calls(r"HashMap::entry$")
            if not ent:
                continue
            e = ent[0]
            # the key is the text of a header name: compare string identities with the header columns
            from ..itermodels import str_id, _str_node
            ksid = str_id(eng, _str_node(eng, e.args[1]))
            hdr = [z3.BitVec("hdr%d.sid" % j, 64) for j in range(4)]
            if col is not None:
                O.prove(p, ksid == hdr[col], "C in column %d is recorded under that column's header name" % col,
                        {"family": "bind", "what": "C column"}, R.battery, R.judge)
            else:
                fr_ = p.calls(r"from_str_radix$")
                if not fr_:
                    continue
                k = eng.scalar(eng.field(eng.downcast(fr_[0].ret, "Ok"), 0, "i64"))
                want = hdr[3]
                for j in (2, 1, 0):
                    want = z3.If(k == bv64(j), hdr[j], want)
                O.prove(p, ksid == want, "C after bits(k, ..) is recorded under header column k",
                        {"family": "bind", "what": "C after bits"}, R.battery, R.judge, extra=[k >= bv64(0), k <= bv64(3)])


@obligation("C11/with-signals-order", profiles=("dev",),
            desc="with_signals: duplicate check first, then indices, missing columns, C columns, read outputs - the first "
                 "failing check is the result and Ok is returned only if all passed")
def with_signals_order(O):
    R = rep()
    m = O.mir
    fn = O.find("::with_signals", nparams=2)
    eng = O.engine()
    eng.keep_events(r"check_duplicate_signals$", r"build_indices$", r"check_missing_signals$",
                    r"check_and_consume_expected_inputs$", r"build_read_outputs$", r"Vec as Extend", r"drain$")
    paths = O.explore(eng, fn)
    O.witness([p for p in paths if p.outcome == "return"], "with_signals returns")
    ORDER = ["check_duplicate_signals", "build_indices", "check_missing_signals", "check_and_consume_expected_inputs", "build_read_outputs"]
    nok = 0
    for p in paths:
        eng.focus(p)
        if p.outcome == "panic":
            R.fail(O, p, "with_signals panics: %s" % p.detail)
            continue
        if p.outcome != "return":
            continue
        names = [e.norm.split("::")[-1] for e in p.crate_calls()]
        names = [n for n in names if n in ORDER]
        if names != ORDER[:len(names)]:
            R.fail(O, p, "with_signals runs its checks as %s" % names)
            continue
        rt = eng.tag_of(p.ret, None)
        evs = [e for e in p.crate_calls() if e.norm.split("::")[-1] in ORDER and e.norm.split("::")[-1] != "build_indices"]
        fails = [eng.tag_of(e.ret, None) == bv64(1) for e in evs]
        if len(names) < len(ORDER):
            R.prove(O, p, z3.And(rt == bv64(1), fails[-1] if fails else z3.BoolVal(False)),
                    "binding stops only at a failing check, with an error")
        else:
            nok += 1
            R.prove(O, p, (rt == bv64(0)) == z3.Not(z3.Or(fails)), "binding succeeds iff every check passed")
    if nok == 0:
        O.inconclusive("vacuous: no complete run of the checks")


@obligation("C11/missing-columns", profiles=("dev",),
            desc="check_missing_signals (2 header columns, <= 2 input and <= 1 expected index): Ok iff every header column is "
                 "used by some input or expected index")
def missing_columns(O):
    R = rep()
    m = O.mir
    fn = O.find("::check_missing_signals")
    eng = O.engine()
    eng.iter_bound = 4
    eng.max_visits = 6
    NC = 2

    def setup(eng_, st, fr):
        me = eng_.deref(fr.locals[1])
        from ..sym import assign_node
        assign_node(eng_.field(me, m.fidx("ParsedTestCase", "signals")),
                    build.vec_of(eng_, [Node("col%d" % c, ty="String") for c in range(NC)], "Vec<String>"))
        ins = [Node("in%d" % k, ty="EntryIndex") for k in range(2)]
        exps = [Node("ex%d" % k, ty="EntryIndex") for k in range(1)]
        fr.locals[2].target = build.slice_of_items(ins, "[EntryIndex]")
        fr.locals[3].target = build.slice_of_items(exps, "[EntryIndex]")
        for e in ins + exps:
            eng_.tag_of(e, st)
    paths = O.explore(eng, fn, setup=setup)
    O.witness([p for p in paths if p.outcome == "return"], "check_missing_signals returns")
    E_ENTRY = bv64(m.vidx("EntryIndex", "Entry"))

    def uses(c):
        ts_ = []
        for nm in ("in0", "in1", "ex0"):
            ts_.append(z3.And(z3.BitVec(nm + ".tag", 64) == E_ENTRY, z3.BitVec(nm + "#Entry.0", 64) == bv64(c)))
        return z3.Or(ts_)
    want_ok = z3.And([uses(c) for c in range(NC)])
    for p in paths:
        if p.outcome == "panic":
            r, _ = O.solve(list(p.pc), want_model=False)
            # the unwrap on position() of a name that was just taken from the same list: argued, not reachable
            O.assumed_unreachable("check_missing_signals: %s" % p.detail, "a missing name was collected from self.signals, so position() finds it")
            continue
        if p.outcome != "return":
            continue
        eng.focus(p)
        R.prove(O, p, (eng.tag_of(p.ret, None) == bv64(0)) == want_ok, "Ok iff every header column is bound to a signal")


@obligation("C11/read-outputs", profiles=("dev",),
            desc="build_read_outputs (1 recorded read, 2 signals, symbolic names and directions): Ok with the index of the first "
                 "output-capable signal of that name, else an error")
def read_outputs(O):
    R = rep()
    m = O.mir
    fn = O.find("::build_read_outputs")
    eng = O.engine()
    eng.iter_bound = 4
    eng.max_visits = 6
    eng.keep_events(r"drain$", r"Drain", r"<Range as Clone>::clone")
    NS = 2
    O.note("Vec::drain is not modelled: the function is explored per drained element below")
    # The loop body per drained (name, span): explore the position closure and the branch structure instead
    fn2 = O.find("::build_read_outputs::{closure#0}")
    eng2 = O.engine()
    paths = O.explore(eng2, fn2)
    O.witness([p for p in paths if p.outcome == "return"], "read-output matcher returns")
    from ..itermodels import str_id
    for p in paths:
        if p.outcome != "return":
            continue
        eng2.focus(p)
        sig = eng2.deref(p.args.fields[2])
        env = eng2.deref(p.args.fields[1])
        name_ref = eng2.field(env, 0)
        nm = str_id(eng2, T(eng2, name_ref)) if T(eng2, name_ref) is not None else None
        sname = str_id(eng2, eng2.field(sig, m.fidx("Signal", "name")))
        typ = eng2.tag_of(eng2.field(sig, m.fidx("Signal", "typ")), None)
        is_out = z3.Or(typ == bv64(m.vidx("SignalType", "Output")), typ == bv64(m.vidx("SignalType", "Bidirectional")))
        if nm is None:
            O.inconclusive("cannot identify the name compared by the read-output matcher")
            continue
        R.prove(O, p, eng2.scalar(p.ret, "bool") == z3.And(sname == nm, is_out),
                "a read name matches exactly the output-capable signals of that name")


@obligation("C11/clock-inputs", profiles=("dev",),
            desc="check_and_consume_expected_inputs matcher: a C column is satisfied exactly by input-capable signals of that name")
def clock_inputs(O):
    clock_inputs_core(O, rep())


def clock_inputs_core(O, R):
    m = O.mir
    fn2 = O.find("::check_and_consume_expected_inputs::{closure#0}")
    eng2 = O.engine()
    paths = O.explore(eng2, fn2)
    O.witness([p for p in paths if p.outcome == "return"], "clock-input matcher returns")
    from ..itermodels import str_id
    for p in paths:
        if p.outcome != "return":
            continue
        eng2.focus(p)
        sig = eng2.deref(p.args.fields[2])
        env = eng2.deref(p.args.fields[1])
        nm_node = T(eng2, eng2.field(env, 0))
        if nm_node is None:
            O.inconclusive("cannot identify the name compared by the clock-input matcher")
            continue
        nm = str_id(eng2, nm_node)
        sname = str_id(eng2, eng2.field(sig, m.fidx("Signal", "name")))
        typ = eng2.tag_of(eng2.field(sig, m.fidx("Signal", "typ")), None)
        is_in = z3.Or(typ == bv64(m.vidx("SignalType", "Input")), typ == bv64(m.vidx("SignalType", "Bidirectional")))
        R.prove(O, p, eng2.scalar(p.ret, "bool") == z3.And(sname == nm, is_in),
                "a C column matches exactly the input-capable signals of that name")


@obligation("C11/indices", profiles=("dev",), desc="build_indices binds columns by name (see C06/build-indices), including "
            "that only the exact `<name>_out` column belongs to a bidirectional signal")
def indices(O):
    from . import C06
    W = dri.WithRep(O, rep())
    C06.build_indices(W, "Bidirectional")


@obligation("C11/scope-set-is-the-framed-map", profiles=("dev",),
            desc="FramedSet (the parser's set of names in scope) keeps no structure of its own: push_frame / pop_frame / insert / "
                 "contains are each exactly one call of the FramedMap operation (whose frame kernels C18 decides) - so a name "
                 "shadowed in an inner block is in scope again after the block")
def scope_set_is_framed_map(O):
    R = rep()
    want = {"push_frame": "push_frame", "pop_frame": "pop_frame", "insert": "set", "contains": "get"}
    n = 0
    for name, f in O.mir.funcs.items():
        from ..sym import short_name
        sn = short_name(name)
        if "framed_map" not in sn or "{closure" in sn:
            continue
        meth = sn.split("::")[-1]
        if meth not in want or not f.params or "FramedSet" not in f.params[0][1]:
            continue
        n += 1
        eng = O.engine()
        eng.auto_inline = False
        for p in O.explore(eng, f):
            if p.outcome != "return":
                R.fail(O, p, "FramedSet::%s: %s %s" % (meth, p.outcome, p.detail))
                continue
            import re as _re
            calls = []
            for e in p.trace:
                if e.kind != "call" or not (e.crate or "FramedMap" in e.norm or "HashSet" in e.norm or "Vec" in e.norm):
                    continue
                mm = _re.search(r"FramedMap(?:::<[^>]*>)?::(push_frame|pop_frame|set|get)\b", e.norm)
                calls.append(mm.group(1) if mm else e.norm.split("::")[-1])
            if calls != [want[meth]]:
                R.fail(O, p, "FramedSet::%s performs %s instead of FramedMap::%s" % (meth, calls, want[meth]))
            if p.state.extra.get("writes"):
                R.fail(O, p, "FramedSet::%s stores into the set itself (%s)" % (meth, p.state.extra["writes"][0][1]))
    if n < 4:
        raise LookupError("FramedSet does not have the four operations push_frame / pop_frame / insert / contains over a FramedMap (%d found)" % n)
