"""C02 - driver protocol: defaults first, then exactly one call per row, passed verbatim.

Trace obligations over the generic (not monomorphised) MIR of DataRowIterator::{try_new, next, handle_io} and
the provided TestDriver::write_input: the driver methods are uninterpreted events, so the result holds for
every driver type, including ones that override write_input.
"""
import re

import z3

from ..oblig import obligation
from ..sym import bv64
from ..models import vec_slice
from .common import initial, mval, T
from . import batteries as B

DRV_READ = r"TestDriver>::write_input_and_read_output$"
DRV_WRITE = r"TestDriver>::write_input$"
DRV_ANY = r"TestDriver>::write_input"
KEEP = [r"get_row$", r"set_outputs$", r"extract_output_values$", r"into_data_row$", r"build_output_indices$",
        r"generate_default_input_entries$", r"new_with_outputs$", r"DataRowIteratorTestData::new$",
        r"StmtIterator", r"EvalContext::"]

FACTS = {"family": "protocol"}


def driver_calls(p):
    return p.calls(DRV_ANY)


def fail(O, p, text, extra=None):
    O.fail_path(p, text, dict(FACTS, what=text[:80]), B.protocol_battery() + B.fault_battery()[:7],
                lambda obs, sc: B.fault_judge(obs, sc), extra=extra)


@obligation("C02/handle-io", profiles=("dev",),
            desc="handle_io: exactly one driver call on every path - the output-reading call iff update_output, else "
                 "the write-only call - with the very slice it was given; a driver error leaves at once as "
                 "IterationError::Driver; the write path returns an empty vector and never touches the context")
def handle_io(O):
    fn = O.find("::handle_io")
    eng = O.engine()
    eng.keep_events(*KEEP)
    paths = O.explore(eng, fn)
    upd = eng.scalar(initial(fn, 3))
    O.witness([p for p in paths if p.outcome == "return"], "read path", [upd])
    O.witness([p for p in paths if p.outcome == "return"], "write path", [z3.Not(upd)])
    for p in paths:
        eng.focus(p)
        if p.outcome == "panic":
            fail(O, p, "handle_io panics: %s" % p.detail)
            continue
        if p.outcome != "return":
            continue
        dc = driver_calls(p)
        if len(dc) != 1:
            fail(O, p, "handle_io makes %d driver calls on one path" % len(dc))
            continue
        ev = dc[0]
        is_read = ev.norm.endswith("write_input_and_read_output")
        O.prove(p, upd if is_read else z3.Not(upd), "kind of driver call follows update_output",
                dict(FACTS, what="call kind"), B.protocol_battery(), B.protocol_judge)
        # inputs passed verbatim: same slice object as parameter _2, and the driver is self.driver
        given = T(eng, p.args.fields[2])
        if T(eng, ev.args[1]) is not given:
            fail(O, p, "handle_io passes a different input slice to the driver")
        res = ev.ret
        rtag = eng.tag_of(res, None)
        out_tag = eng.tag_of(p.ret, None)
        others = [e for e in p.calls() if e is not ev]
        pos = p.trace.index(ev)
        before = [e for e in p.trace[:pos] if e.kind == "call"]
        if before:
            fail(O, p, "handle_io calls %s before the driver" % before[0].norm)
        after = [e.norm for e in p.trace[pos + 1:] if e.kind == "call"]
        # error path: nothing afterwards, error converted by IterationError::from (the #[from] impl, inlined)
        r, m = O.solve(list(p.pc) + [rtag == bv64(1)], want_model=False)
        if r == "sat":
            if after:
                fail(O, p, "handle_io keeps going (%s) after the driver failed" % after[0], extra=[rtag == bv64(1)])
            O.prove(p, out_tag == bv64(1), "driver error is returned as an error", dict(FACTS, what="driver error"),
                    B.fault_battery()[:7], B.fault_judge, extra=[rtag == bv64(1)])
            err = eng.field(eng.downcast(p.ret, "Err"), 0)
            drv_variant = O.mir.vidx("IterationError", "Driver")
            O.prove(p, eng.tag_of(err, None) == bv64(drv_variant), "driver error is wrapped as IterationError::Driver",
                    dict(FACTS, what="driver error kind"), B.fault_battery()[:7], B.fault_judge, extra=[rtag == bv64(1)])
            inner = eng.field(eng.downcast(err, "Driver"), 0)
            orig = eng.field(eng.downcast(res, "Err"), 0)
            if not (inner.root == orig.root and inner.path == orig.path):
                fail(O, p, "the error handed to the caller is not the driver's error value", extra=[rtag == bv64(1)])
        r, m = O.solve(list(p.pc) + [rtag == bv64(0)], want_model=False)
        if r != "sat":
            continue
        if is_read:
            want = ["EvalContext::set_outputs", "extract_output_values"]
            got = after
            if len(got) != 2 or not got[0].endswith("set_outputs") or not got[1].endswith("extract_output_values"):
                fail(O, p, "read path calls %s after the driver, expected set_outputs then extract_output_values" % got,
                     extra=[rtag == bv64(0)])
                continue
            so = [e for e in p.trace[pos + 1:] if e.kind == "call"][0]
            ex = [e for e in p.trace[pos + 1:] if e.kind == "call"][1]
            answer = eng.field(eng.downcast(res, "Ok"), 0)          # Vec<OutputEntry>
            # set_outputs receives the slice of *this* answer; extract receives the same vector
            if so.tnames[1] is None or so.tnames[1][0] != answer.root:
                fail(O, p, "set_outputs is not given this call's answer", extra=[rtag == bv64(0)])
            if ex.args[1].root != answer.root:
                fail(O, p, "extract_output_values is not given this call's answer", extra=[rtag == bv64(0)])
            if p.ret.root != ex.ret.root:
                fail(O, p, "read path does not return extract_output_values' result", extra=[rtag == bv64(0)])
        else:
            if after:
                fail(O, p, "write path calls %s after the driver" % after[0], extra=[rtag == bv64(0)])
            O.prove(p, out_tag == bv64(0), "write path returns Ok", dict(FACTS, what="write path"),
                    B.protocol_battery(), B.protocol_judge, extra=[rtag == bv64(0)])
            v = eng.field(eng.downcast(p.ret, "Ok"), 0)
            ln = eng.length(vec_slice(eng, v))
            O.prove(p, ln == bv64(0), "write path returns an empty vector (outputs of the row are empty)",
                    dict(FACTS, what="write path vector"), B.protocol_battery(), B.protocol_judge, extra=[rtag == bv64(0)])


@obligation("C02/next", profiles=("dev",),
            desc="Iterator::next: get_row first; Ok(None) -> None and Err -> Some(Err(Runtime)) without any driver call; "
                 "otherwise exactly one handle_io with the row's own inputs and update_output flag, whose error is the "
                 "item and whose values are zipped into the row; nothing is sent after the end")
def next_(O):
    next_core(O, None)


def next_core(O, rep):
    global fail
    m = O.mir
    if rep is not None:
        _fail = fail

        def fail(O_, p_, text, extra=None):
            rep.fail(O_, p_, text, extra)
    try:
        _next_core(O)
    finally:
        if rep is not None:
            fail = _fail


def _next_core(O):
    m = O.mir
    fn = O.find("::next", file="data_row_iterator.rs")
    eng = O.engine()
    eng.keep_events(*KEEP)
    eng.keep_events(r"handle_io$")
    paths = O.explore(eng, fn)
    rets = [p for p in paths if p.outcome == "return"]
    O.witness(rets, "next returns")
    seen = {"none": 0, "err": 0, "row": 0}
    for p in paths:
        eng.focus(p)
        if p.outcome == "panic":
            fail(O, p, "next panics: %s" % p.detail)
            continue
        if p.outcome != "return":
            continue
        calls = p.calls()
        if not calls or not calls[0].norm.endswith("get_row"):
            fail(O, p, "next does not start with get_row")
            continue
        if driver_calls(p):
            fail(O, p, "next calls the driver directly")
        gr = calls[0].ret      # Result<Option<EvaluatedRow>, ExprError>
        gtag = eng.tag_of(gr, None)
        opt = eng.field(eng.downcast(gr, "Ok"), 0)
        otag = eng.tag_of(opt, None)
        rtag = eng.tag_of(p.ret, None)    # Option<Result<DataRow, IterationError>>
        hio = p.calls(r"handle_io$")
        rest = [e.norm for e in calls[1:]]
        cases = {"err": [gtag == bv64(1)], "none": [gtag == bv64(0), otag == bv64(0)],
                 "row": [gtag == bv64(0), otag == bv64(1)]}
        for case, cond in cases.items():
            r, _ = O.solve(list(p.pc) + cond, want_model=False)
            if r != "sat":
                continue
            seen[case] += 1
            if case in ("err", "none"):
                if hio or any(n.endswith("into_data_row") for n in rest):
                    fail(O, p, "next performs IO although get_row returned %s" % case, extra=cond)
                if case == "none":
                    O.prove(p, rtag == bv64(0), "end of program -> None", dict(FACTS, what="end"),
                            B.protocol_battery(), B.protocol_judge, extra=cond)
                else:
                    item = eng.field(eng.downcast(p.ret, "Some"), 0)
                    O.prove(p, z3.And(rtag == bv64(1), eng.tag_of(item, None) == bv64(1)),
                            "evaluation error -> Some(Err(..))", dict(FACTS, what="eval error"),
                            B.protocol_battery(), B.protocol_judge, extra=cond)
                    e = eng.field(eng.downcast(item, "Err"), 0)
                    O.prove(p, eng.tag_of(e, None) == bv64(m.vidx("IterationError", "Runtime")),
                            "evaluation error is a Runtime error item", dict(FACTS, what="eval error kind"),
                            B.protocol_battery(), B.protocol_judge, extra=cond)
                continue
            # a row was produced
            if len(hio) != 1:
                fail(O, p, "next calls handle_io %d times for one row" % len(hio), extra=cond)
                continue
            h = hio[0]
            row = eng.field(eng.downcast(opt, "Some"), 0)
            inputs_vec = eng.field(row, m.fidx("EvaluatedRow", "inputs"))
            flag = eng.scalar(eng.field(row, m.fidx("EvaluatedRow", "update_output"), "bool"))
            # handle_io(self, &row.inputs[..], row.update_output)
            slice_t = h.tnames[1]
            if slice_t is None or slice_t[0] != inputs_vec.root or not slice_t[1].startswith(inputs_vec.path):
                fail(O, p, "handle_io is not given the row's own inputs", extra=cond)
            O.prove(p, eng.scalar(h.args[2]) == flag, "handle_io is given the row's update_output flag",
                    dict(FACTS, what="flag"), B.protocol_battery(), B.protocol_judge, extra=cond)
            hres = h.ret
            htag = eng.tag_of(hres, None)
            item = eng.field(eng.downcast(p.ret, "Some"), 0)
            itag = eng.tag_of(item, None)
            O.prove(p, z3.And(rtag == bv64(1), itag == htag), "row item is Ok iff handle_io succeeded",
                    dict(FACTS, what="item kind"), B.fault_battery()[:7], B.fault_judge, extra=cond)
            idr = p.calls(r"into_data_row$")
            r2, _ = O.solve(list(p.pc) + cond + [htag == bv64(1)], want_model=False)
            if r2 == "sat":
                if idr:
                    fail(O, p, "a row is built although IO failed", extra=cond + [htag == bv64(1)])
                e_out = eng.field(eng.downcast(item, "Err"), 0)
                e_in = eng.field(eng.downcast(hres, "Err"), 0)
                if not (e_out.root == e_in.root and e_out.path == e_in.path):
                    fail(O, p, "the error item is not handle_io's error", extra=cond + [htag == bv64(1)])
            r3, _ = O.solve(list(p.pc) + cond + [htag == bv64(0)], want_model=False)
            if r3 == "sat":
                if len(idr) != 1:
                    fail(O, p, "into_data_row called %d times" % len(idr), extra=cond + [htag == bv64(0)])
                    continue
                d = idr[0]
                if d.args[0].root != row.root:
                    fail(O, p, "into_data_row is applied to a different row", extra=cond + [htag == bv64(0)])
                vals = eng.field(eng.downcast(hres, "Ok"), 0)
                if d.args[1].root != vals.root:
                    fail(O, p, "into_data_row does not receive handle_io's values", extra=cond + [htag == bv64(0)])
                got = eng.field(eng.downcast(item, "Ok"), 0)
                if got.root != d.ret.root:
                    fail(O, p, "the yielded row is not into_data_row's result", extra=cond + [htag == bv64(0)])
    for k, v in seen.items():
        if v == 0:
            O.inconclusive("vacuous: no path of next() in class '%s'" % k)


@obligation("C02/try-new", profiles=("dev",),
            desc="try_new: exactly one driver call, the output-reading one, carrying generate_default_input_entries' "
                 "vector, before build_output_indices; its error leaves as IterationError::Driver with nothing else "
                 "called; the construction answer is what build_output_indices and new_with_outputs receive")
def try_new(O):
    m = O.mir
    fn = O.find("::try_new")
    eng = O.engine()
    eng.keep_events(*KEEP)
    paths = O.explore(eng, fn)
    rets = [p for p in paths if p.outcome == "return"]
    O.witness(rets, "try_new returns")
    n_ok = 0
    for p in paths:
        eng.focus(p)
        if p.outcome == "panic":
            fail(O, p, "try_new panics: %s" % p.detail)
            continue
        if p.outcome != "return":
            continue
        dc = driver_calls(p)
        if len(dc) != 1 or not dc[0].norm.endswith("write_input_and_read_output"):
            fail(O, p, "try_new makes driver calls %s" % [e.norm for e in dc])
            continue
        ev = dc[0]
        extra_calls = [e.norm.split("::")[-1] for e in p.calls() if e.crate and not re.search(
            r"DataRowIteratorTestData::new$|generate_default_input_entries$|TestDriver>::write_input_and_read_output$|build_output_indices$|"
            r"new_with_outputs$|EvalContext::new$|set_outputs$|<.* as From>::from$|::from$", e.norm)]
        if extra_calls:
            fail(O, p, "try_new also runs %s (the constructor evaluates nothing: no row, no virtual signal, no draw)" % extra_calls[0])
            continue
        names = [e.norm for e in p.calls()]
        pos = names.index(ev.norm)
        gd = p.calls(r"generate_default_input_entries$")
        if len(gd) != 1 or p.calls().index(gd[0]) > pos:
            fail(O, p, "default inputs are not generated before the first driver call")
            continue
        defaults = gd[0].ret
        t = ev.tnames[1]
        if t is None or t[0] != defaults.root:
            fail(O, p, "the first driver call does not carry the default input vector")
        if ev.args[0].root != "arg2":
            fail(O, p, "the first call goes to a different driver")
        res = ev.ret
        rtag = eng.tag_of(res, None)
        out_tag = eng.tag_of(p.ret, None)
        after = [e for e in p.calls()[pos + 1:]]
        r, _ = O.solve(list(p.pc) + [rtag == bv64(1)], want_model=False)
        if r == "sat":
            if after:
                fail(O, p, "try_new continues with %s after the driver failed" % after[0].norm, extra=[rtag == bv64(1)])
            err = eng.field(eng.downcast(p.ret, "Err"), 0)
            O.prove(p, z3.And(out_tag == bv64(1), eng.tag_of(err, None) == bv64(m.vidx("IterationError", "Driver"))),
                    "constructor returns the driver's error as IterationError::Driver", dict(FACTS, what="ctor error"),
                    B.fault_battery()[:2], B.fault_judge, extra=[rtag == bv64(1)])
            inner = eng.field(eng.downcast(err, "Driver"), 0)
            orig = eng.field(eng.downcast(res, "Err"), 0)
            if not (inner.root == orig.root and inner.path == orig.path):
                fail(O, p, "constructor error is not the driver's error value", extra=[rtag == bv64(1)])
        r, _ = O.solve(list(p.pc) + [rtag == bv64(0)], want_model=False)
        if r != "sat":
            continue
        answer = eng.field(eng.downcast(res, "Ok"), 0)
        boi = p.calls(r"build_output_indices$")
        if len(boi) != 1 or boi[0] is not after[0]:
            fail(O, p, "build_output_indices is not the first step after the construction call", extra=[rtag == bv64(0)])
            continue
        if boi[0].tnames[1] is None or boi[0].tnames[1][0] != answer.root:
            fail(O, p, "build_output_indices does not see the construction answer", extra=[rtag == bv64(0)])
        btag = eng.tag_of(boi[0].ret, None)
        nwo = p.calls(r"new_with_outputs$")
        r2, _ = O.solve(list(p.pc) + [rtag == bv64(0), btag == bv64(1)], want_model=False)
        if r2 == "sat":
            O.prove(p, out_tag == bv64(1), "missing outputs: the iterator is not built", dict(FACTS, what="missing outputs"),
                    B.protocol_battery(), B.protocol_judge, extra=[rtag == bv64(0), btag == bv64(1)])
        r3, _ = O.solve(list(p.pc) + [rtag == bv64(0), btag == bv64(0)], want_model=False)
        if r3 == "sat":
            n_ok += 1
            if len(nwo) != 1 or nwo[0].tnames[0] is None or nwo[0].tnames[0][0] != answer.root:
                fail(O, p, "the evaluation context is not initialised with the construction answer",
                     extra=[rtag == bv64(0), btag == bv64(0)])
                continue
            it = eng.field(eng.downcast(p.ret, "Ok"), 0)
            ctx_f = eng.field(it, m.fidx("DataRowIterator", "ctx"))
            drv_f = eng.field(it, m.fidx("DataRowIterator", "driver"))
            if ctx_f.root != nwo[0].ret.root:
                fail(O, p, "iterator does not hold the context built from the construction answer",
                     extra=[rtag == bv64(0), btag == bv64(0)])
            if drv_f.root != "arg2":
                fail(O, p, "iterator holds a different driver", extra=[rtag == bv64(0), btag == bv64(0)])
            O.prove(p, out_tag == bv64(0), "constructor succeeds", dict(FACTS, what="ctor ok"),
                    B.protocol_battery(), B.protocol_judge, extra=[rtag == bv64(0), btag == bv64(0)])
    if n_ok == 0:
        O.inconclusive("vacuous: no successful construction path")


@obligation("C02/default-write-input", profiles=("dev",),
            desc="provided TestDriver::write_input forwards once to write_input_and_read_output with the same inputs and "
                 "returns its error unchanged")
def default_write_input(O):
    fn = O.find("TestDriver::write_input")
    eng = O.engine()
    paths = O.explore(eng, fn)
    O.witness([p for p in paths if p.outcome == "return"], "write_input returns")
    sc = [s for s in B.protocol_battery() if not s.override_write]
    for p in paths:
        eng.focus(p)
        if p.outcome == "panic":
            O.fail_path(p, "default write_input panics: %s" % p.detail, FACTS, sc, B.protocol_judge)
            continue
        if p.outcome != "return":
            continue
        dc = p.calls(r"write_input_and_read_output$")
        if len(dc) != 1 or len(p.calls(DRV_ANY)) != 1:
            O.fail_path(p, "default write_input makes %d read calls" % len(dc), FACTS, sc, B.protocol_judge)
            continue
        if T(eng, dc[0].args[1]) is not T(eng, p.args.fields[2]) or T(eng, dc[0].args[0]) is not T(eng, p.args.fields[1]):
            O.fail_path(p, "default write_input forwards different arguments", FACTS, sc, B.protocol_judge)
        rt = eng.tag_of(dc[0].ret, None)
        O.prove(p, eng.tag_of(p.ret, None) == rt, "default write_input succeeds iff the forwarded call did", FACTS, sc,
                B.protocol_judge)


@obligation("C02/default-entries", profiles=("dev",),
            desc="generate_default_input_entries closure: entry = (signal of the index, signal.default_value().unwrap(), "
                 "changed = false)")
def default_entries(O):
    m = O.mir
    fn = O.find("::generate_default_input_entries::{closure#0}")
    eng = O.engine()
    eng.keep_events(r"default_value$")
    paths = O.explore(eng, fn)
    rets = [p for p in paths if p.outcome == "return"]
    O.witness(rets, "closure returns")
    for p in rets:
        eng.focus(p)
        dv = p.calls(r"default_value$")
        if len(dv) != 1:
            O.fail_path(p, "default closure does not ask the signal for its default exactly once", FACTS,
                        B.protocol_battery(), B.protocol_judge)
            continue
        sig = T(eng, dv[0].args[0])
        ent_sig = T(eng, eng.field(p.ret, m.fidx("InputEntry", "signal")))
        if sig is not ent_sig:
            O.fail_path(p, "default entry's signal is not the one whose default was taken", FACTS,
                        B.protocol_battery(), B.protocol_judge)
        ch = eng.scalar(eng.field(p.ret, m.fidx("InputEntry", "changed"), "bool"))
        O.prove(p, z3.Not(ch), "default entries are not flagged as changed", FACTS, B.protocol_battery(),
                B.protocol_judge)
        val = eng.field(p.ret, m.fidx("InputEntry", "value"))
        some = eng.field(eng.downcast(dv[0].ret, "Some"), 0)
        if not (val.root == some.root and val.path == some.path):
            O.fail_path(p, "default entry's value is not the signal's default", FACTS, B.protocol_battery(),
                        B.protocol_judge)


@obligation("C02/driver-call-sites", profiles=("dev",),
            desc="crate-wide scan of the MIR: the two TestDriver methods are called only from try_new, handle_io and the "
                 "provided write_input (laziness: no other site can send anything to the device)")
def call_sites(O):
    import re
    allowed = (r"::try_new$", r"::handle_io$", r"^TestDriver::write_input$")
    sites = []
    for name, fn in O.mir.funcs.items():
        for bb, (stmts, term) in fn.blocks.items():
            if term[0] == "call" and re.search(r"as TestDriver>::write_input", term[2]):
                sites.append((name, bb, term[2]))
    O.rec["paths"] += len(sites)
    O.rec["functions"]["<all %d bodies scanned>" % len(O.mir.funcs)] = "-"
    if not sites:
        O.inconclusive("vacuous: no driver call site found")
    for name, bb, callee in sites:
        if not any(re.search(a, name) for a in allowed):
            O.violation("driver called from %s" % name, None, dict(FACTS, what="extra call site", site=name),
                        B.protocol_battery() + B.fault_battery()[:7], B.fault_judge, "unexpected driver call site")
    O.note("driver call sites: %s" % sorted(set(s[0].split("::")[-1] for s in sites)))


@obligation("C02/clock-rows-write-only", profiles=("dev",),
            desc="get_row sequences for a row with a clock column and an expected column (every kind combination): the two "
                 "mid-clock rows are unchecked (write-only, no expected values), the third is checked - whatever else the "
                 "test data object holds")
def clock_rows(O):
    from . import C05, dri
    lay = C05.Layout("clock and expected", ["in", "exp"], [0, 1])
    C05.run_layout(O, lay, 7, rep=dri.Rep(FACTS, B.protocol_battery(), B.protocol_judge))
    # a header that names only inputs while the device has an output the header does not mention
    lay2 = C05.Layout("inputs only, one unnamed output", ["in", "in"], [0, 1], hidden_exp=1)
    C05.run_layout(O, lay2, 13, rep=dri.Rep(FACTS, B.protocol_battery(), B.protocol_judge))


@obligation("C02/end-is-final", profiles=("dev",),
            desc="the interpreter reports the end of the rows only when the top-level block is exhausted and then keeps "
                 "reporting it (next_with_context: Ok(None) only from the dispatch state with no statement left, state "
                 "unchanged) - so nothing is sent to the device after next() has returned None")
def end_is_final(O):
    from . import C01
    from . import dri
    R = dri.Rep(dict(FACTS), B.protocol_battery(), B.protocol_judge)
    C01.end_only_when_exhausted(O, R)
    # get_row: when the interpreter reports the end, get_row reports it too - having called nothing else and stored
    # nothing (no rewinding, no reset of what it remembers), so the next call asks the exhausted interpreter again
    fn = O.find("::get_row")
    eng = O.engine()
    eng.auto_inline = False
    hs = sorted(set(d for _, d in fn.back_edges()))
    n = 0
    for p in O.explore(eng, fn):
        if p.outcome != "return":
            continue
        eng.focus(p)
        nx = p.calls(r"next_with_context$")
        if len(nx) != 1:
            continue
        it = eng.tag_of(nx[0].ret, None)
        ot = eng.tag_of(eng.field(eng.downcast(nx[0].ret, "Ok"), 0), None)
        cond = [it == bv64(0), ot == bv64(0)]
        r, _ = O.solve(list(p.pc) + cond, want_model=False)
        if r != "sat":
            continue
        n += 1
        R.prove(O, p, z3.And(eng.tag_of(p.ret, None) == bv64(0), eng.tag_of(eng.field(eng.downcast(p.ret, "Ok"), 0), None) == bv64(0)),
                "get_row reports the end when the interpreter does", extra=cond)
        after = [e.norm.split("::")[-1] for e in p.trace[p.trace.index(nx[0]) + 1:] if e.kind == "call"]
        ws = [w for w in p.state.extra.get("writes", []) if w[2] > p.trace.index(nx[0])]
        if after or ws:
            R.fail(O, p, "after the interpreter reported the end, get_row still %s" % (("calls " + after[0]) if after else ("stores into " + ws[0][1])), extra=cond)
    if n == 0:
        O.inconclusive("vacuous: get_row never sees the end of the program")


@obligation("C02/input-capable-signals-are-driven", profiles=("dev",),
            desc="build_indices (2 signals x 2 columns, symbolic names): a bidirectional signal gets an input index whatever the "
                 "header names - its own column, only its `<name>_out` column, or neither (then its default) - so the "
                 "constructor's call and every row carry every input-capable signal")
def input_capable_driven(O):
    from . import C06, dri
    R = dri.Rep(dict(FACTS), B.protocol_battery(), B.protocol_judge)
    C06.build_indices(dri.WithRep(O, R), "Bidirectional", R)


@obligation("C02/no-state-outside-the-iterator", profiles=("dev",),
            desc="TestCase has no interior mutability and the crate keeps no mutable global state: every iterator makes its own constructor call and its own calls per row "
                 "(type-level facts read from the MIR and the struct definition)")
def no_state_outside(O):
    from . import C15, dri
    C15.no_shared_state_core(O, dri.Rep(dict(FACTS), B.protocol_battery(), B.protocol_judge))


@obligation("C02/glue-stores-nothing", profiles=("dev",),
            desc="next / handle_io store nothing into the iterator themselves and call nothing but get_row / handle_io / "
                 "into_data_row resp. the driver, set_outputs and extract_output_values, on every path: no cache of answers, "
                 "no skipped call, nothing remembered between rows outside those functions")
def glue_stores_nothing(O):
    from . import dri
    dri.glue_keeps_state(O, dri.Rep(dict(FACTS), B.protocol_battery(), B.protocol_judge))
