"""C10 - running an accepted test never panics; runtime problems are error items.

Kernels with dedicated replay templates: arithmetic, random, signExt, unknown variable, loop counter; the row
expansion on the get_row harness; the frame discipline behind the counter read-back.  A general audit of every other
panic site of the run-time modules (from arbitrary states, with an assumed-unreachable list) was planned and is NOT
built: exploring each run-time function in isolation blew up (40 min / 12 GB in a probe) - such sites are covered only
where one of the obligations above or a harness of another property executes them.
"""
import z3

from ..oblig import obligation
from ..sym import bv64
from .common import initial, mval, s64, no_panic_judge
from ..replay import Scenario, lit
from . import C08


def item_judge(expect_err=True, what="expression"):
    """No panic; the first item is an error item (expect_err) - or, if not expect_err, anything but a panic."""
    def chk(o, sc):
        if not o.ok("NEW"):
            return "iterator construction failed: %s" % o.lines[-2:]
        if not o.items:
            return "no item produced"
        if expect_err and o.items[0][0] != "err":
            return "%s yields %s instead of an error item" % (what, o.items[0][0])
        return None
    return no_panic_judge(chk)


def result_parts(eng, fn, ret):
    """(is_ok, value) of a returned i64 or Result<i64, _>."""
    if fn.ret_ty.strip().startswith("Result"):
        return eng.tag_of(ret, None) == bv64(0), eng.scalar(eng.field(eng.downcast(ret, "Ok"), 0, "i64"))
    return z3.BoolVal(True), eng.scalar(ret)


@obligation("C10/div-by-zero", profiles=("dev", "release"),
            desc="BinOp::eval with a zero divisor (/ or %) does not panic for any dividend; it reports failure")
def div_by_zero(O):
    m = O.mir
    fn = O.find("::eval", file="expr.rs", param0="&BinOp")
    eng = O.engine()
    paths = O.explore(eng, fn)
    tag = eng.tag_of(eng.deref(initial(fn, 1)), None)
    a = eng.scalar(initial(fn, 2))
    b = eng.scalar(initial(fn, 3))
    for name in ("Divide", "Reminder"):
        cls = [tag == bv64(m.vidx("BinOp", name)), b == bv64(0)]

        def facts(mod, name=name):
            return {"op": name, "a": mval(mod, a), "b": 0}

        def scen(mod, name=name):
            return [C08.expr_scenario("%s %s 0" % (lit(mval(mod, a)), C08.OPS[name]))]
        judge = lambda obs, sc: item_judge(True, "division by zero")(obs, sc)
        O.witness(paths, "%s by zero" % name, cls)
        for p in paths:
            if p.outcome == "panic":
                O.fail_path(p, "%s by zero panics: %s" % (name, p.detail), facts, scen, judge, extra=cls)
            elif p.outcome == "return":
                ok, _ = result_parts(eng, fn, p.ret)
                O.prove(p, z3.Not(ok), "%s by zero must not produce a value" % name, facts, scen, judge, extra=cls)


@obligation("C10/random-range", profiles=("dev",),
            desc="func_random: whatever the evaluated bound, the range handed to the generator is never empty "
                 "(rand's gen_range panics on an empty range); bounds below 2 give an error item or a value")
def random_range(O):
    fn = O.find("func_random")
    eng = O.engine()
    eng.keep_events(r"^Expr::eval$")
    paths = O.explore(eng, fn)
    args = eng.deref(initial(fn, 2))
    cls = [eng.length(args) == bv64(1)]
    O.witness([p for p in paths if p.outcome == "return"], "random(n) returns", cls)
    for p in paths:
        eng.focus(p)
        if p.outcome == "panic":
            evs = p.calls(r"^Expr::eval$")
            bound = None
            if evs:
                bound = eng.scalar(eng.field(eng.downcast(evs[0].ret, "Ok"), 0, "i64"))

            def facts(mod, bound=bound):
                return {"fn": "random", "bound": mval(mod, bound) if bound is not None else None}

            def scen(mod, bound=bound):
                v = mval(mod, bound) if bound is not None else 0
                return [C08.expr_scenario("random(%s)" % lit(v))]
            O.fail_path(p, "random panics: %s" % p.detail, facts, scen,
                        lambda obs, sc: item_judge(False, "random")(obs, sc), extra=cls)


@obligation("C10/not-implemented-function", profiles=("dev",),
            desc="every function in FUNC_TABLE can be evaluated without panicking (signExt used to be todo!())")
def not_implemented(O):
    fn = O.find("func_sign_ext")
    eng = O.engine()
    eng.keep_events(r"^Expr::eval$")
    paths = O.explore(eng, fn)
    args = eng.deref(initial(fn, 2))
    cls = [eng.length(args) == bv64(2)]
    O.witness(paths, "signExt called with two arguments", cls)
    sc = [C08.expr_scenario("signExt(8, 255)")]
    for p in paths:
        if p.outcome == "panic":
            O.fail_path(p, "signExt panics: %s" % p.detail, {"fn": "signExt"}, sc,
                        lambda obs, s: item_judge(False, "signExt")(obs, s), extra=cls)


def variable_arm(O, R):
    m = O.mir
    fn = O.find("::eval", file="expr.rs", param0="&Expr")
    eng = O.engine()
    eng.keep_events(r"^Expr::eval$", r"EvalContext::get", r"FuncTable::get")
    paths = O.explore(eng, fn)
    tag = eng.tag_of(eng.deref(initial(fn, 1)), None)
    cls = [tag == bv64(m.vidx("Expr", "Variable"))]
    O.witness(paths, "Variable arm", cls)
    for p in paths:
        eng.focus(p)
        res, _ = O.solve(list(p.pc) + cls, want_model=False)
        if res != "sat":
            continue
        gets = p.calls(r"EvalContext::get")
        if p.outcome == "panic":
            R.fail(O, p, "Variable arm panics: %s" % p.detail, extra=cls)
            continue
        if p.outcome != "return" or len(gets) != 1:
            R.fail(O, p, "Variable arm does not look the name up exactly once", extra=cls)
            continue
        got = gets[0].ret   # Option<OutputValue>
        rtag = eng.tag_of(p.ret, None)
        is_some = eng.tag_of(got, None) == bv64(1)
        ov = eng.field(eng.downcast(got, "Some"), 0)
        is_val = eng.tag_of(ov, None) == bv64(m.vidx("OutputValue", "Value"))
        val = eng.scalar(eng.field(eng.downcast(ov, "Value"), 0, "i64"))
        rv = eng.scalar(eng.field(eng.downcast(p.ret, "Ok"), 0, "i64"))
        R.prove(O, p, z3.And(z3.Implies(z3.And(is_some, is_val), z3.And(rtag == bv64(0), rv == val)),
                             z3.Implies(z3.Not(z3.And(is_some, is_val)), rtag == bv64(1))),
                "Variable arm: Ok(n) iff the lookup gave Value(n), otherwise Err", extra=cls)


def runtime_battery():
    S = [("in", "A", 8, 0), ("out", "Y", 8), ("out", "n", 8)]
    b = [Scenario("A\nwhile(0)\nlet x = 1;\nend while\n(x)\n", [("in", "A", 8, 0)], note="let in zero-trip while"),
         Scenario("A Y\n(Y)\n", S, default_answer=["Z", 0], note="Z read"),
         Scenario("A Y n\nrepeat(2) (n) X X\n", S, default_answer=[0, "Z"], max_rows=10,
                  note="repeat counter named like a Z output"),
         Scenario("A Y n\nloop(Y,2)\n(Y) X X\nend loop\n", S, default_answer=["X", 0], max_rows=10,
                  note="loop counter named like an X output"),
         Scenario("A Y n\nrepeat(2) 1 X X\n", S, default_answer=[0, "Z"], max_rows=10,
                  note="repeat whose counter is never read, device output n is Z"),
         Scenario("A Y n\nloop(Y,3)\n1 X X\nend loop\n2 X X\n", S, default_answer=["X", 0], max_rows=10,
                  note="loop whose counter is never read, device output Y is X"),
         Scenario("A Y n\nloop(Y,3)\n1 X X\nend loop\n2 X X\n", S, default_answer=[0, 0], max_rows=10,
                  note="loop counter named like a constant numeric output"),
         Scenario("A Y\n(%s %% (0-1)) X\n(%s / (0-1)) X\n" % (lit(-(1 << 63)), lit(-(1 << 63))), S, default_answer=[0, 0],
                  note="MIN % -1 and MIN / -1"),
         Scenario("A Y\n(1 << 64) X\n(1 >> 65) X\n(9223372036854775807 + 1) X\n(-%s) X\n" % lit(-(1 << 63)), S,
                  default_answer=[0, 0], note="overflowing arithmetic"),
         Scenario("A D Y\n5 (0-1) X\n(1<<63) 7 (0-1)\n", [("in", "A", 64, 0), ("bidir", "D", 64, 0), ("out", "Y", 64)],
                  default_answer=[0, 0], note="64-bit inputs, bidirectional signals and outputs"),
         Scenario("A Y\n5 X\n(0-1) 9\n", [("in", "A", 63, 0), ("out", "Y", 63)], default_answer=[0], note="63-bit signals"),
         Scenario("A B C Y\nX X X 1\n", [("in", "A", 1, 0), ("in", "B", 1, 0), ("in", "C", 1, 0), ("out", "Y", 8)],
                  default_answer=[1], note="three X inputs"),
         Scenario("A B C D Y\nX X X X 1\nC X X 0 X\n", [("in", "A", 1, 0), ("in", "B", 1, 0), ("in", "C", 1, 0),
                                                       ("in", "D", 1, 0), ("out", "Y", 8)],
                  default_answer=[1], note="four X inputs, then C with X"),
         ]
    # fourth round: `C` after a bits(k, ..) entry (the column is k further on), and signal lists that are longer than
    # the header (unused pins before, between and after the named ones) under clocked and X rows
    S2 = [("in", "A", 1, 0), ("in", "B", 1, 0), ("in", "CLK", 1, 0), ("out", "Y", 8)]
    for src in ("A B Y\nbits(2,1) C\n", "A B CLK Y\nbits(2,1) 0 C\n", "A Y B\nbits(1,1) C 0\n", "Y A B\nC bits(2,1)\n",
                "A B CLK Y\nbits(3,1) C\n", "A B CLK Y\nbits(2,2) C 1\nbits(2,2) C X\n", "A CLK Y\nbits(1,0) C X\nrepeat(2) bits(1,n) C (n)\n"):
        b.append(Scenario(src, S2, default_answer=[0], max_rows=20, note="C after bits(): accepted only in an input column, then runs"))
    S3 = [("out", "U0", 4), ("in", "P0", 2, 0), ("in", "CLK", 1, 0), ("out", "U1", 4), ("in", "A", 1, 0), ("out", "Y", 8),
          ("bidir", "D", 4, "Z"), ("out", "U2", 1), ("in", "P1", 3, 5)]
    for src in ("CLK A Y\nC 0 1\nC X X\n", "Y CLK\n1 C\nX C\n", "CLK\nC\nC\n", "A CLK Y D D_out\nX C 1 Z 2\n1 C X 3 X\n",
                "Y\n1\n", "CLK Y U2\nC 1 0\n", "U2 CLK\n1 C\n"):
        b.append(Scenario(src, S3, default_answer=[0, 0, 0, 0, 0], max_rows=40,
                          note="signal list longer than the header (unused pins around the named ones), clocked / X rows"))
    # fifth round: `C` in the read-back column of a bidirectional signal is no clock column
    Sb = [("in", "CLK", 1, 0), ("bidir", "S", 4, "Z"), ("out", "Y", 8)]
    for src in ("CLK S_out Y\n0 C 1\n", "S S_out\n1 C\n", "S_out\nC\n", "CLK S S_out Y\nC Z C X\n", "S_out CLK\nC C\n"):
        b.append(Scenario(src, Sb, default_answer=[0, 0], max_rows=20, note="C in the _out column of a bidirectional signal: rejected at bind time, never a panic"))
    # eighth round: `C` in the column of a declared (virtual) signal
    Sv2 = [("in", "CLK", 1, 0), ("out", "Q", 8)]
    for src in ("CLK Q NQ\ndeclare NQ = !Q;\nC 1 C\n", "CLK NQ\ndeclare NQ = 1;\n0 C\n", "NQ CLK\ndeclare NQ = Q + 1;\nC C\n"):
        b.append(Scenario(src, Sv2, default_answer=[0], max_rows=20, note="C in a declared signal's column: rejected at bind time, never a panic"))
    # seventh round: an expression error raised inside a loop / repeat / nested body, the caller keeps iterating
    Se = [("in", "A", 8, 0), ("out", "Y", 8)]
    for src in ("A Y\nloop(i,4)\n(8 / (i - 1)) X\nend loop\n9 X\n", "A Y\nrepeat(3) (4 % (n - 1)) X\n7 X\n",
                "A Y\nloop(i,2)\nloop(j,3)\n(6 / (j - i)) X\nend loop\nend loop\n1 X\n",
                "A Y\nloop(i,3)\nlet t = 5 / (1 - i);\n(t) X\nend loop\n2 X\n",
                "A Y\nlet k = 0;\nwhile(k < 3)\nlet k = k + 1;\nloop(i,2)\n(9 / (k - 2)) X\nend loop\nend while\n",
                "A Y\nloop(i,3)\n(random(i)) X\nend loop\n3 X\n", "A Y\nloop(i,2)\n(signExt(4, i)) X\nend loop\n"):
        b.append(Scenario(src, Se, default_answer=[0], stop_on_err=False, max_rows=40, note="error items from inside a loop body, iteration continued"))
    # sixth round: the same TestCase value run before by drivers with other answer layouts (longer, foreign signals first)
    So = [("in", "A", 1, 0), ("out", "Y", 8), ("out", "Q", 8)]
    for pre, lay in (([["?0", "Y"]], ["Y"]), ([["?0", "?1", "Q", "Y"]], ["Q", "Y"]), ([["Y", "Q"], ["Q"]], ["Q"]), ([["?0", "Q"]], ["Q"])):
        b.append(Scenario("A Y Q\n0 X X\n1 X X\n", So, layout=lay, default_answer=[1] * len(lay), pre_layouts=pre, max_rows=20,
                          note="earlier runs with layouts %s, then a driver with layout %s" % (pre, lay)))
    # fifth round: a row whose output extraction fails inside a loop, iteration continued
    Sv = [("in", "A", 8, 0), ("out", "Y", 8), ("out", "B", 8)]
    b.append(Scenario("A Y V\ndeclare V = 8 / B;\nlet k = 7;\nloop(i,3)\n(i+k) X X\nend loop\n(k) X X\n", Sv, default_answer=[0, 1],
                      answers={2: [0, 0]}, stop_on_err=False, max_rows=20, note="virtual signal fails on one row inside a loop, caller keeps iterating"))
    b.append(Scenario("A Y V\ndeclare V = B + 1;\nloop(i,2)\nloop(j,2)\n(i+j) X X\nend loop\nend loop\n", Sv, default_answer=[0, 1],
                      answers={2: [0, "Z"], 3: ["X", "X"]}, stop_on_err=False, max_rows=20, note="virtual signal reads Z / X inside nested loops"))
    b.append(Scenario("A Y B\nloop(i,3)\n(i) X X\nend loop\n", Sv, layout=["Y", "B"], default_answer=[0, 1], layout_at={2: ["B", "Y"]},
                      stop_on_err=False, max_rows=20, note="answer in the wrong order on one row inside a loop"))
    b.append(Scenario("CLK Y\nC 1\n", [("in", "CLK", 1, 0), ("out", "Y", 8), ("out", "Q", 8)], default_answer=[0, 0],
                      note="one more output than header columns"))
    b.append(Scenario("CLK\nC\n", [("in", "CLK", 1, 0), ("out", "Y", 8), ("out", "Q", 8), ("out", "R", 8)], default_answer=[0, 0, 0],
                      note="outputs only beyond the header"))
    return b


def runtime_judge_one(o, sc):
    if any(l.startswith("TRUNCATED") for l in o.lines):
        return "the run does not terminate (%s)" % sc.note
    return None


runtime_judge = no_panic_judge(runtime_judge_one)


@obligation("C10/unknown-variable", profiles=("dev",),
            desc="Expr::eval, Variable arm: a name that resolves to nothing at run time (a variable assigned only on a "
                 "path that was not executed) is an error item, not a panic; a Z/X output read is an error item")
def unknown_variable(O):
    from . import dri
    variable_arm(O, dri.Rep({"arm": "Variable"}, runtime_battery(), runtime_judge))


@obligation("C10/arith-no-panic", profiles=("dev", "release"),
            desc="BinOp::eval and UnaryOp::eval never panic, for any operator and any pair of i64 operands")
def arith_no_panic(O):
    m = O.mir
    for suffix, p0, enum in (("::eval", "&BinOp", "BinOp"), ("::eval", "&UnaryOp", "UnaryOp")):
        fn = O.find(suffix, file="expr.rs", param0=p0)
        eng = O.engine()
        paths = O.explore(eng, fn)
        tag = eng.tag_of(eng.deref(initial(fn, 1)), None)
        a = eng.scalar(initial(fn, 2))
        b = eng.scalar(initial(fn, 3)) if enum == "BinOp" else None
        O.witness([p for p in paths if p.outcome == "return"], "%s::eval returns" % enum)
        for p in paths:
            if p.outcome != "panic":
                continue

            def facts(mod, enum=enum):
                k = mval(mod, tag, False)
                name = m.enums[enum][k] if k < len(m.enums[enum]) else "?"
                return {"op": name, "a": mval(mod, a), "b": mval(mod, b) if b is not None else None}

            def scen(mod, enum=enum):
                f = facts(mod)
                if enum == "BinOp" and f["op"] in C08.OPS:
                    return [C08.expr_scenario("%s %s %s" % (lit(f["a"]), C08.OPS[f["op"]], lit(f["b"])))]
                if enum == "UnaryOp" and f["op"] in C08.UNOPS:
                    return [C08.expr_scenario("%s%s" % (C08.UNOPS[f["op"]], lit(f["a"])))]
                return []
            O.fail_path(p, "%s::eval panics: %s" % (enum, p.detail), facts, scen,
                        lambda obs, sc: item_judge(False, "arithmetic")(obs, sc))


@obligation("C10/counter-lookup", profiles=("dev",),
            desc="EvalContext::get gives variables precedence over outputs, so a loop counter is always read back as "
                 "the number the interpreter stored (the invariant behind EndIterateInner's unwrap/expect)")
def counter_lookup(O):
    from . import C04, dri
    C04.ctx_get(O, dri.Rep({"family": "counter"}, runtime_battery(), runtime_judge))


@obligation("C10/loop-counter", profiles=("dev", "release"),
            desc="StmtIterator::next_with_context, EndIterateInner segment: incrementing the loop counter never "
                 "panics, whatever value the body left in it")
def loop_counter(O):
    m = O.mir
    fn = O.find("::next_with_context")
    eng = O.engine()
    eng.keep_events(r"EvalContext::", r"Expr::eval", r"StmtIterator::next_with_context", r"DataEntry::eval")
    paths = O.explore(eng, fn)
    me = eng.deref(initial(fn, 1))
    st_tag = eng.tag_of(eng.field(me, m.fidx("StmtIterator", "inner_state")), None)
    cls = [st_tag == bv64(m.vidx("StmtIteratorState", "EndIterateInner"))]
    O.witness(paths, "EndIterateInner segment", cls)
    sc = [Scenario("A\nloop(i,2)\nlet i = 9223372036854775807;\n(i)\nend loop\n", [("in", "A", 64, 0)], max_rows=8,
                   note="counter rebound to i64::MAX in the body")]

    def judge(obs, s):
        def chk(o, s2):
            if any(l.startswith("TRUNCATED") for l in o.lines):
                return "loop does not terminate after the counter was rebound to i64::MAX"
            return None
        return no_panic_judge(chk)(obs, s)
    for p in paths:
        eng.focus(p)
        if p.outcome != "panic":
            continue
        gets = p.calls(r"EvalContext::get")
        if not gets:
            continue
        got = gets[0].ret
        some_val = z3.And(eng.tag_of(got, None) == bv64(1),
                          eng.tag_of(eng.field(eng.downcast(got, "Some"), 0), None) == bv64(m.vidx("OutputValue", "Value")))
        # the counter exists and is a number (frame discipline: argued in DESIGN.md) - what remains is arithmetic
        O.fail_path(p, "loop counter update panics: %s" % p.detail,
                    lambda mod: {"site": "EndIterateInner", "panic": p.detail[:60]}, sc, judge, extra=cls + [some_val])


@obligation("C10/expansion-no-panic", profiles=("dev",),
            desc="get_row sequences for a row of three input columns with every combination of Number and X entries (up to "
                 "eight expanded rows): the expansion reaches generate_input_entries only with Number/Z entries in input "
                 "columns - its unreachable!() arms are not reached and nothing panics")
def expansion_no_panic(O):
    from . import C05, dri
    lay = C05.Layout("three inputs", ["in", "in", "in"], [2, 0, 1])
    C05.run_layout(O, lay, 10, in_kinds=("Number", "X"), rep=dri.Rep({"family": "runtime"}, runtime_battery(), runtime_judge))


@obligation("C10/expansion-no-panic[signal list longer than the header]", profiles=("dev",),
            desc="get_row sequences for a clocked / X / plain row under a header `in exp` while the signal list also holds an "
                 "input and two outputs the header does not name (positions in the signal list beyond the number of header "
                 "columns): no index into the row's entries leaves its bounds, nothing panics")
def expansion_no_panic_hidden(O):
    from . import C05, dri
    lay = C05.Layout("in exp, an omitted input between them and two unnamed outputs behind", ["in", "exp"], [0, 2],
                     hidden_in_at=(1,), hidden_exp=2)
    C05.run_layout(O, lay, 8, rep=dri.Rep({"family": "runtime"}, runtime_battery(), runtime_judge))


@obligation("C10/clock-only-in-input-columns", profiles=("dev",),
            desc="the invariant behind the unreachable!() arms of the row generators: parse_data_row records a `C` under the "
                 "header name of the very column it stands in (after bits(k, ..): k columns further), so binding rejects every "
                 "`C` that is not under an input-capable signal")
def clock_only_in_inputs(O):
    from . import C11, dri
    C11.clock_column_core(O, dri.Rep({"family": "runtime"}, runtime_battery(), runtime_judge))


@obligation("C10/frame-discipline", profiles=("dev",),
            desc="the invariant behind EndIterateInner's unwrap/expect on the counter lookup, per interpreter arm from an "
                 "arbitrary state: a frame is pushed only when a loop is entered (0 < bound) together with the counter's "
                 "binding, a skipped loop touches no frame, and exactly one frame is popped when a loop ends - so the frame "
                 "holding the counter is there whenever it is read back")
def frame_discipline(O):
    from . import C01, dri
    # confirmed by the run-time battery (no panic, termination) and by the control battery with its literal row expectations
    from .batteries import control_battery, literal_judge

    def judge(obs, sc):
        return runtime_judge(obs, sc) or (literal_judge(obs, sc) if sc.expect else None)
    C01.interpreter_arms(dri.WithRep(O, dri.Rep({"family": "runtime"}, runtime_battery() + [s_ for s_ in control_battery() if s_.max_rows >= 20], judge)))


@obligation("C10/generator-not-held", profiles=("dev",),
            desc="the context's generator lives in a RefCell: in every function that borrows it (and in func_random, its user) "
                 "nothing but the generator itself is called while the borrow is alive - no expression is evaluated, no closure "
                 "of the caller runs - so a nested random(..) can never meet an outstanding borrow (RefCell panics on that); "
                 "borrow_mut itself never finds the cell borrowed")
def generator_not_held(O):
    import re
    from .. import cellmodel
    from . import dri
    m = O.mir
    R = dri.Rep({"family": "runtime", "what": "generator borrow"},
                [C08.expr_scenario(t, "nested random %s" % t) for t in
                 ("random(random(8)+2)", "random(ite(1, random(4)+2, 3))", "random(2 + random(3) * random(3))", "ite(random(2), random(random(5)+2), 1)")]
                + runtime_battery(), runtime_judge)
    targets = []
    borrowers = set()
    for name, f in m.funcs.items():
        if f.kind != "fn":
            continue
        for bb, (stmts, term) in f.blocks.items():
            if term and term[0] == "call" and re.search(r"RefCell::<[^>]*>::borrow(_mut)?$|RefCell::borrow(_mut)?$", str(term[2])):
                borrowers.add(name)
    short = set(re.sub(r"::\{closure#\d+\}$", "", b).split("::")[-1] for b in borrowers)
    for name, f in m.funcs.items():
        if f.kind != "fn" or "::fmt" in name:
            continue
        if name in borrowers:
            targets.append(f)
            continue
        for bb, (stmts, term) in f.blocks.items():
            if term and term[0] == "call" and any(re.search(r"(::|^)%s(::<.*>)?$" % re.escape(s_), str(term[2])) for s_ in short):
                targets.append(f)
                break
    if not targets:
        O.inconclusive("no function borrows a RefCell: the obligation does not know where the generator lives")
        return
    ALLOWED = re.compile(r"gen_range|as Rng>|as RngCore>|SeedableRng|seed_from_u64|deref(_mut)?$|<Range(Inclusive)? as ")
    nb = 0
    for fn in targets:
        eng = O.engine()
        cellmodel.install(eng)
        eng.keep_events(r"^Expr::eval$")
        eng.max_paths = 5000
        paths = O.explore(eng, fn)
        for p in paths:
            eng.focus(p)
            if p.outcome == "panic" and "RefCell already" in (p.detail or ""):
                R.fail(O, p, "%s borrows the generator while it is already borrowed" % fn.name.split("::")[-1])
                continue
            during = cellmodel.events_while_borrowed(p)
            nb += 1 if p.state.extra.get("cell_log") else 0
            for ev, k in during:
                if not ALLOWED.search(ev.norm):
                    R.fail(O, p, "%s calls %s while the generator is borrowed" % (fn.name.split("::")[-1], ev.norm.split("::")[-1][:40]))
                    break
    if nb == 0:
        O.inconclusive("vacuous: no explored path borrows the cell")
    O.note("functions explored: %s; %d paths with a borrow" % (sorted(set(f.name.split("::")[-1] for f in targets)), nb))


@obligation("C10/masks-no-panic", profiles=("dev", "release"),
            desc="the per-signal closures that reduce a row's numbers to the signal width (inputs and expected values) return "
                 "for every width 1..=64 and every value - no shift, subtraction or index in them can panic")
def masks_no_panic(O):
    from . import C07
    C07.input_mask(O)
    C07.expected_mask(O)


@obligation("C10/kani-operators-no-panic", profiles=("dev",),
            desc="second engine (Kani / CBMC over the compiled code, overflow checks on): no operand pair makes BinOp::eval "
                 "panic, a zero divisor gives an error result, UnaryOp::eval does not panic")
def kani_operators_no_panic(O):
    from . import kani_obs
    kani_obs.expr_kernels(O, "C10", ["binop_no_panic", "binop_divrem_zero_is_error", "unaryop"])


@obligation("C10/frames-survive-faults", profiles=("dev",),
            desc="the invariant behind EndIterateInner's counter read-back also after a failed row: extract_output_values swaps "
                 "the variable maps back on every path (a virtual signal that fails, an answer in the wrong order), so the loop "
                 "frame holding the counter is visible again when the iteration ends")
def frames_survive_faults(O):
    from . import C04, dri
    C04.swap_restored(O, dri.Rep({"family": "runtime"}, runtime_battery(), runtime_judge))


@obligation("C10/clock-columns-are-checked-by-name", profiles=("dev",),
            desc="the other half of the invariant behind the unreachable!() arms: at bind time a column that holds `C` is "
                 "accepted exactly for input-capable signals of that very name (not for the `<name>_out` read-back column of a "
                 "bidirectional signal, not by position)")
def clock_columns_checked_by_name(O):
    from . import C11, dri
    C11.clock_inputs_core(O, dri.Rep({"family": "runtime"}, runtime_battery(), runtime_judge))


@obligation("C10/panic-site-audit", profiles=("dev",),
            desc="every function of the run-time half of the crate (row iterator, interpreter, context, expressions, framed map, "
                 "values, static test, glue in lib.rs: 173 bodies), executed in isolation from its entry and from each loop "
                 "header with callees as events and the exact panic behaviour of unwrap / expect / indexing / arithmetic: the "
                 "panic sites that are locally reachable are exactly those on the committed list /verif/panic_sites.json (each "
                 "with the invariant that keeps it unreachable); a new site is decided natively by the run-time batteries")
def panic_site_audit(O):
    from .. import panicaudit
    from . import dri, batteries as B
    from .refmodel import reference_battery
    # (scenarios that stop after a few rows on purpose are left out: the run-time judge reads a truncated run as non-termination)
    bat = [s_ for s_ in runtime_battery() + B.control_battery() + B.protocol_battery() + B.vars_battery() + B.fault_battery()[:40] if s_.max_rows >= 20]
    R = dri.Rep({"family": "runtime"}, bat, runtime_judge)
    sites, nfn, npaths = panicaudit.collect(O)
    known = panicaudit.load_list()
    if not known:
        O.inconclusive("the committed list of panic sites is missing")
        return
    O.rec["paths"] += npaths
    new = 0
    for (fn, kind, msg), paths in sorted(sites.items()):
        if kind == "unsupported":
            O.inconclusive("run-time function %s is not executable by the engine: %s" % (fn, msg))
            continue
        inv = known.get((fn, msg))
        if inv is not None:
            O.assumed_unreachable("%s: %s" % (fn.split("::", 1)[-1], msg), inv)
            continue
        new += 1
        p = next((x for x in paths if x is not None), None)
        label = "a panic site that is not on the committed list: %s in %s" % (msg, fn.split("::", 1)[-1])
        if p is not None:
            O.fail_path(p, label, dict(R.facts, what="new panic site", function=fn.split("::", 1)[-1][:80], panic=msg[:80]), R.battery, R.judge)
        else:
            O.violation(label, None, dict(R.facts, what="new panic site", function=fn[:80], panic=msg[:80]), R.battery, R.judge, label)
    O.note("%d run-time functions, %d paths, %d locally reachable panic sites (%d listed, %d new)" % (nfn, npaths, len(sites), len(sites) - new, new))


@obligation("C10/no-state-outside-the-iterator", profiles=("dev",),
            desc="TestCase has no interior mutability and the crate keeps no mutable global state: positions into a driver's "
                 "answer are computed from that driver's own first answer, never reused from another run (type-level facts)")
def no_state_outside(O):
    from . import C15, dri
    C15.no_shared_state_core(O, dri.Rep({"family": "runtime"}, runtime_battery(), runtime_judge))
