"""C13 - driver failures and contract violations surface as errors, never as wrong rows."""
from ..oblig import obligation
from . import batteries as B
from . import dri

REP = dri.Rep({"family": "fault"}, None, B.fault_judge)


def rep():
    REP.battery = B.fault_battery()
    return REP


@obligation("C13/driver-error-try-new", desc="try_new: a failing construction call leaves at once as "
            "IterationError::Driver(e) with the driver's own e; nothing else is called")
def e_try_new(O):
    dri.driver_error_propagation(O, rep(), "try_new")


@obligation("C13/driver-error-handle-io", desc="handle_io: a failing read or write call leaves at once as "
            "IterationError::Driver(e) with the driver's own e; nothing else is called")
def e_handle_io(O):
    dri.driver_error_propagation(O, rep(), "handle_io")


@obligation("C13/default-write-input", desc="provided TestDriver::write_input returns the forwarded call's error "
            "unchanged (a fault in a mid-clock write is not swallowed)")
def e_default_write(O):
    dri.default_write_input(O, rep())


@obligation("C13/next-error-item", desc="next: handle_io's error is the item for exactly that row and no row is built")
def e_next(O):
    from . import C02
    C02.next_core(O, rep())


@obligation("C13/output-count", desc="extract_output_values: a different number of outputs than in the first answer is "
            "an error, decided before anything is evaluated")
def e_count(O):
    dri.extract_length_check(O, rep())


@obligation("C13/output-identity", desc="extract_output_values closure: a value is attributed only after the answer "
            "entry's signal was compared equal to the expected signal, and it is that entry's value")
def e_identity(O):
    dri.extract_identity(O, rep())


@obligation("C13/row-of-values", desc="extract_output_values as a whole (<= 2 expected entries): Ok has one value per "
            "expected entry and every identity check passed; any element error makes the row an error")
def e_whole(O):
    dri.extract_whole(O, rep(), bound=2)
