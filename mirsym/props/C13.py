"""C13 - driver failures and contract violations surface as errors, never as wrong rows."""
from ..oblig import obligation
from . import batteries as B
from . import dri

REP = dri.Rep({"family": "fault"}, None, B.fault_judge)


def rep():
    REP.battery = B.fault_battery()
    return REP


@obligation("C13/driver-error-try-new", desc="try_new: a failing construction call leaves at once as "
            "IterationError::Driver(e) with the driver's own e; nothing else is called")
def e_try_new(O):
    dri.driver_error_propagation(O, rep(), "try_new")


@obligation("C13/driver-error-handle-io", desc="handle_io: a failing read or write call leaves at once as "
            "IterationError::Driver(e) with the driver's own e; nothing else is called")
def e_handle_io(O):
    dri.driver_error_propagation(O, rep(), "handle_io")


@obligation("C13/default-write-input", desc="provided TestDriver::write_input returns the forwarded call's error "
            "unchanged (a fault in a mid-clock write is not swallowed)")
def e_default_write(O):
    dri.default_write_input(O, rep())


@obligation("C13/next-error-item", desc="next: handle_io's error is the item for exactly that row and no row is built")
def e_next(O):
    from . import C02
    C02.next_core(O, rep())


@obligation("C13/output-count", desc="extract_output_values: a different number of outputs than in the first answer is "
            "an error, decided before anything is evaluated")
def e_count(O):
    dri.extract_length_check(O, rep())


@obligation("C13/output-identity", desc="extract_output_values closure: a value is attributed only after the answer "
            "entry's signal was compared equal to the expected signal, and it is that entry's value")
def e_identity(O):
    dri.extract_identity(O, rep())


@obligation("C13/row-of-values", desc="extract_output_values as a whole (<= 2 expected entries): Ok has one value per "
            "expected entry and every identity check passed; any element error makes the row an error")
def e_whole(O):
    dri.extract_whole(O, rep(), bound=2)


@obligation("C13/answer-passed-unchanged", desc="handle_io: what the output-reading call returned is handed to "
            "extract_output_values as it is - the very vector, nothing filtered, reordered or padded in between - so every "
            "deviation of the answer (count, order, foreign signals) reaches the checks")
def answer_passed_unchanged(O):
    import z3
    from ..sym import bv64
    R = rep() if not isinstance(O, dri.WithRep) else O._rep
    fn = O.find("::handle_io")
    eng = O.engine()
    eng.keep_events(*dri.KEEP)
    paths = O.explore(eng, fn)
    n = 0
    for p in paths:
        eng.focus(p)
        if p.outcome != "return":
            continue
        dc = [e for e in p.calls(dri.DRV_ANY) if e.norm.endswith("write_input_and_read_output")]
        if len(dc) != 1:
            continue
        rtag = eng.tag_of(dc[0].ret, None)
        r, _ = O.solve(list(p.pc) + [rtag == bv64(0)], want_model=False)
        if r != "sat":
            continue
        cond = [rtag == bv64(0)]
        ex = p.calls(r"extract_output_values$")
        if len(ex) != 1:
            R.fail(O, p, "a successful read is followed by %d extractions" % len(ex), extra=cond)
            continue
        n += 1
        answer = eng.field(eng.downcast(dc[0].ret, "Ok"), 0)
        # the extraction receives the answer's own buffer (by value or by reference): compare pointee names
        got = None
        for a, tn in zip(ex[0].args, ex[0].tnames):
            names = [tuple(tn)] + list(getattr(tn, "chain", [])) if tn else []
            names.append((a.root, a.path))
            if any(nm and nm[0] == answer.root for nm in names):
                got = a
        between = [e for e in p.trace[p.trace.index(dc[0]) + 1:p.trace.index(ex[0])] if e.kind == "call" and not e.norm.endswith("set_outputs")]
        if got is None:
            R.fail(O, p, "extract_output_values is not given the driver's own answer", extra=cond)
        elif any(e.crate for e in between):
            R.fail(O, p, "the answer passes through %s before it is checked" % between[0].norm.split("::")[-1], extra=cond)
    if n == 0:
        O.inconclusive("vacuous: no successful read followed by an extraction")


@obligation("C13/outputs-refiled-by-name", desc="EvalContext::set_outputs (<= 2 answer entries): the map that later expressions "
            "read is rebuilt from exactly the (signal name, value) pairs of the answer at hand - also after an answer that "
            "deviated from the first layout - so no later row computes from a value the driver reported for another signal")
def outputs_refiled(O):
    from . import C14
    C14.outputs_map(dri.WithRep(O, rep()))


@obligation("C13/constructor-call", desc="try_new: the constructor always makes its one output-reading call (also for a test "
            "without any output-capable signal), and that call's error is what the constructor returns")
def constructor_call(O):
    from . import C02
    C02.try_new(dri.WithRep(O, rep()))


@obligation("C13/handle-io-protocol", desc="handle_io: a checked row always makes the output-reading call and validates that "
            "call's answer (whatever the first answer looked like); an unchecked row makes the write-only call; the call's "
            "error is returned whatever the row's changed flags say")
def handle_io_protocol(O):
    from . import C02
    C02.handle_io(dri.WithRep(O, rep()))


@obligation("C13/first-answer-is-this-runs", desc="TestCase has no interior mutability and the crate keeps no mutable global "
            "state, so the layout a run's answers are checked against is the first answer of that run's own driver "
            "(type-level facts read from the MIR and the struct definition)")
def first_answer_is_this_runs(O):
    from . import C15
    C15.no_shared_state_core(O, rep())


@obligation("C13/glue-stores-nothing", desc="next / handle_io store nothing themselves - neither into the iterator nor into the "
            "driver's answer (no loop over the answer that rewrites values) - and call nothing but get_row / handle_io / "
            "into_data_row resp. the driver, set_outputs and extract_output_values")
def glue_stores_nothing(O):
    dri.glue_keeps_state(O, rep())
