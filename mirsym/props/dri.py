"""Reusable analyses of the data-row-iterator functions (shared by C02/C03/C04/C13/C14).

Each analysis takes the obligation context O plus the replay triple (facts, battery, judge) of the property
on whose behalf it runs, so a counterexample is confirmed against that property's observable statement.
"""
import z3

from ..sym import bv64
from ..models import vec_slice
from .common import initial, mval, T

DRV_ANY = r"TestDriver>::write_input"
KEEP = [r"get_row$", r"set_outputs$", r"extract_output_values$", r"into_data_row$", r"build_output_indices$",
        r"generate_default_input_entries$", r"new_with_outputs$", r"DataRowIteratorTestData::new$",
        r"StmtIterator", r"EvalContext::"]


class Rep:
    """facts / scenarios / judge bundle."""

    def __init__(self, facts, battery, judge):
        self.facts = facts
        self.battery = battery
        self.judge = judge

    def fail(self, O, p, text, extra=None):
        O.fail_path(p, text, dict(self.facts, what=text[:90]), self.battery, self.judge, extra=extra)

    def prove(self, O, p, claim, text, extra=None):
        return O.prove(p, claim, text, dict(self.facts, what=text[:90]), self.battery, self.judge, extra=extra)


def same_place(a, b):
    return a is b or (a is not None and b is not None and a.root == b.root and a.path == b.path
                      and len(a.idxs) == len(b.idxs) and all(z3.eq(x, y) for x, y in zip(a.idxs, b.idxs)))


def driver_error_propagation(O, rep, which):
    """try_new / handle_io: the driver's Err leaves at once as IterationError::Driver(e) with the same e and
    nothing is called afterwards."""
    m = O.mir
    fn = O.find("::" + which)
    eng = O.engine()
    eng.keep_events(*KEEP)
    paths = O.explore(eng, fn)
    n = 0
    for p in paths:
        eng.focus(p)
        if p.outcome == "panic":
            rep.fail(O, p, "%s panics: %s" % (which, p.detail))
            continue
        if p.outcome != "return":
            continue
        for ev in p.calls(DRV_ANY):
            rtag = eng.tag_of(ev.ret, None)
            cond = [rtag == bv64(1)]
            r, _ = O.solve(list(p.pc) + cond, want_model=False)
            if r != "sat":
                continue
            n += 1
            pos = p.trace.index(ev)
            after = [e.norm for e in p.trace[pos + 1:] if e.kind == "call" and e.crate]
            if after:
                rep.fail(O, p, "%s keeps going (%s) after the driver failed" % (which, after[0]), extra=cond)
            out_tag = eng.tag_of(p.ret, None)
            rep.prove(O, p, out_tag == bv64(1), "%s: a failing driver call makes the function fail" % which, extra=cond)
            err = eng.field(eng.downcast(p.ret, "Err"), 0)
            rep.prove(O, p, eng.tag_of(err, None) == bv64(m.vidx("IterationError", "Driver")),
                      "%s: the driver's error is reported as IterationError::Driver" % which, extra=cond)
            inner = eng.field(eng.downcast(err, "Driver"), 0)
            orig = eng.field(eng.downcast(ev.ret, "Err"), 0)
            if not same_place(inner, orig):
                rep.fail(O, p, "%s: the error handed to the caller is not the driver's error value" % which, extra=cond)
    if n == 0:
        O.inconclusive("vacuous: no failing-driver path in %s" % which)


def default_write_input(O, rep):
    fn = O.find("TestDriver::write_input")
    eng = O.engine()
    paths = O.explore(eng, fn)
    O.witness([p for p in paths if p.outcome == "return"], "write_input returns")
    for p in paths:
        eng.focus(p)
        if p.outcome == "panic":
            rep.fail(O, p, "default write_input panics: %s" % p.detail)
            continue
        if p.outcome != "return":
            continue
        dc = p.calls(r"write_input_and_read_output$")
        if len(dc) != 1 or len(p.calls(DRV_ANY)) != 1:
            rep.fail(O, p, "default write_input makes %d output-reading calls" % len(dc))
            continue
        if T(eng, dc[0].args[1]) is not T(eng, p.args.fields[2]) or T(eng, dc[0].args[0]) is not T(eng, p.args.fields[1]):
            rep.fail(O, p, "default write_input forwards different arguments")
        rt = eng.tag_of(dc[0].ret, None)
        rep.prove(O, p, eng.tag_of(p.ret, None) == rt, "default write_input succeeds iff the forwarded call did")
        r, _ = O.solve(list(p.pc) + [rt == bv64(1)], want_model=False)
        if r == "sat":
            e_out = eng.field(eng.downcast(p.ret, "Err"), 0)
            e_in = eng.field(eng.downcast(dc[0].ret, "Err"), 0)
            if not same_place(e_out, e_in):
                rep.fail(O, p, "default write_input does not return the forwarded call's error", extra=[rt == bv64(1)])


def extract_length_check(O, rep):
    """extract_output_values: a different number of outputs than learnt at construction is an error, decided
    before anything is evaluated or swapped."""
    m = O.mir
    fn = O.find("::extract_output_values")
    eng = O.engine()
    eng.iter_bound = 2
    eng.keep_events(r"num_outputs$", r"swap_vars$", r"Expr::eval$", r"<&Signal as PartialEq>::eq")
    paths = O.explore(eng, fn)
    outs = vec_slice(eng, initial(fn, 2))
    ln = eng.length(outs)
    n_err = 0
    for p in paths:
        eng.focus(p)
        if p.outcome != "return":
            continue
        no = p.calls(r"num_outputs$")
        if len(no) != 1:
            rep.fail(O, p, "extract_output_values does not ask for the learnt output count exactly once")
            continue
        n = eng.scalar(no[0].ret, "usize")
        cond = [ln != n]
        r, _ = O.solve(list(p.pc) + cond, want_model=False)
        if r != "sat":
            continue
        n_err += 1
        rtag = eng.tag_of(p.ret, None)
        rep.prove(O, p, rtag == bv64(1), "a wrong number of outputs makes the row an error", extra=cond)
        touched = [e.norm for e in p.calls() if e.norm.endswith(("swap_vars", "Expr::eval", "PartialEq>::eq"))]
        if touched:
            rep.fail(O, p, "extract_output_values evaluates (%s) although the output count is wrong" % touched[0],
                     extra=cond)
    if n_err == 0:
        O.inconclusive("vacuous: no path with a wrong output count")


def extract_identity(O, rep):
    """extract_output_values closure, Output(k) arm: Ok(v) only if the k-th answer entry's signal equals the
    expected signal, and then v is that entry's value; None -> Ok(X)."""
    m = O.mir
    fn = O.find("::extract_output_values::{closure#0}")
    eng = O.engine()
    eng.keep_events(r"<&Signal as PartialEq>::eq", r"Expr::eval$")
    paths = O.explore(eng, fn)
    pair = initial(fn, 2)
    oi = eng.deref(eng.field(pair, 1))
    otag = eng.tag_of(oi, None)
    T_OUT = bv64(m.vidx("OutputEntryIndex", "Output"))
    T_NONE = bv64(m.vidx("OutputEntryIndex", "None"))
    k = eng.scalar(eng.field(eng.downcast(oi, "Output"), 0, "usize"))
    rets = [p for p in paths if p.outcome == "return"]
    O.witness(rets, "Output(k) arm returns", [otag == T_OUT])
    O.witness(rets, "None arm returns", [otag == T_NONE])
    for p in rets:
        eng.focus(p)
        rtag = eng.tag_of(p.ret, None)
        # ---- None -> Ok(X)
        val = eng.field(eng.downcast(p.ret, "Ok"), 0)
        rep.prove(O, p, z3.And(rtag == bv64(0), eng.tag_of(val, None) == bv64(m.vidx("OutputValue", "X"))),
                  "a signal the driver never supplies is reported as X", extra=[otag == T_NONE])
        # ---- Output(k)
        cond = [otag == T_OUT]
        r, _ = O.solve(list(p.pc) + cond, want_model=False)
        if r != "sat":
            continue
        eqs = p.calls(r"<&Signal as PartialEq>::eq")
        r2, _ = O.solve(list(p.pc) + cond + [rtag == bv64(0)], want_model=False)
        if r2 != "sat":
            continue
        okc = cond + [rtag == bv64(0)]
        if len(eqs) != 1:
            rep.fail(O, p, "an output value is accepted without comparing signal identities", extra=okc)
            continue
        rep.prove(O, p, eng.scalar(eqs[0].ret, "bool"),
                  "an output value is accepted only if the answer entry is for the expected signal", extra=okc)
        # which things were compared: signals[expected.signal_index()] and outputs[k].signal
        env = eng.deref(p.args.fields[1])
        signals = eng.deref(eng.field(env, 0))
        outputs = vec_slice(eng, eng.deref(eng.field(env, 1)))
        out_k = eng.elem(outputs, k)
        a = eqs[0].args[0].target     # &&Signal -> &Signal
        b = eqs[0].args[1].target
        sig_of_out = eng.field(out_k, m.fidx("OutputEntry", "signal"))
        cand = [a.target if a is not None else None, b.target if b is not None else None]
        if not any(same_place(c, sig_of_out.target) or (c is not None and sig_of_out.target is None
                                                         and c.root == sig_of_out.root) for c in cand):
            rep.fail(O, p, "the identity check does not look at the signal of the answer entry that is used", extra=okc)
        exp_sig = [c for c in cand if c is not None and c.root == signals.root]
        if not exp_sig:
            rep.fail(O, p, "the identity check does not look at the expected signal", extra=okc)
        got = eng.field(eng.downcast(p.ret, "Ok"), 0)
        want = eng.field(out_k, m.fidx("OutputEntry", "value"))
        gt, wt = eng.tag_of(got, None), eng.tag_of(want, None)
        gv = eng.scalar(eng.field(eng.downcast(got, "Value"), 0, "i64"))
        wv = eng.scalar(eng.field(eng.downcast(want, "Value"), 0, "i64"))
        rep.prove(O, p, z3.And(gt == wt, z3.Implies(gt == bv64(m.vidx("OutputValue", "Value")), gv == wv)),
                  "the reported value is the value of the answer entry at the learnt position", extra=okc)


def extract_whole(O, rep, bound=2):
    """extract_output_values as a whole (iterator models, at most `bound` expected entries): Ok(v) has one value
    per expected entry, in order, and an element error makes the whole row an error."""
    m = O.mir
    fn = O.find("::extract_output_values")
    eng = O.engine()
    eng.iter_bound = bound
    eng.keep_events(r"num_outputs$", r"swap_vars$", r"Expr::eval$", r"<&Signal as PartialEq>::eq")
    paths = O.explore(eng, fn)
    me = eng.deref(initial(fn, 1))
    exp = eng.deref(eng.field(me, m.fidx("DataRowIteratorTestData", "expected_indices")))
    oix = vec_slice(eng, eng.field(me, m.fidx("DataRowIteratorTestData", "output_indices")))
    n_exp = eng.length(exp)
    n_oix = eng.length(oix)
    inv = [n_exp == n_oix]           # representation invariant established by build_output_indices
    rets = [p for p in paths if p.outcome == "return"]
    n_ok = 0
    for p in rets:
        eng.focus(p)
        rtag = eng.tag_of(p.ret, None)
        cond = inv + [rtag == bv64(0)]
        r, _ = O.solve(list(p.pc) + cond, want_model=False)
        if r != "sat":
            continue
        n_ok += 1
        vec = eng.field(eng.downcast(p.ret, "Ok"), 0)
        ln = eng.length(vec_slice(eng, vec))
        rep.prove(O, p, ln == n_exp, "Ok row has exactly one value per expected entry", extra=cond)
        sw = p.calls(r"swap_vars$")
        if len(sw) != 2:
            rep.fail(O, p, "variables are swapped %d times around the evaluation of one row" % len(sw), extra=cond)
        # every element event that reported a mismatch must have turned the row into an error
        for e in p.calls(r"<&Signal as PartialEq>::eq"):
            rep.prove(O, p, eng.scalar(e.ret, "bool"), "a row is Ok only if every identity check passed", extra=cond)
    if n_ok == 0:
        O.inconclusive("vacuous: no Ok path through extract_output_values")
    cuts = [p for p in paths if p.outcome == "cut"]
    O.note("bounded to %d expected entries; %d paths beyond the bound were cut" % (bound, len(cuts)))


class WithRep:
    """Proxy of an obligation context that confirms every counterexample with the given Rep's battery and judge
    (used when an analysis written for one property runs on behalf of another)."""

    def __init__(self, O, rep):
        self._O = O
        self._rep = rep

    def __getattr__(self, k):
        return getattr(self._O, k)

    def prove(self, path, claim, label, facts=None, scenarios=None, judge=None, extra=None, detail=None):
        return self._O.prove(path, claim, label, dict(self._rep.facts, what=label[:90]), self._rep.battery, self._rep.judge,
                             extra=extra, detail=detail)

    def fail_path(self, path, label, facts=None, scenarios=None, judge=None, detail=None, extra=None):
        return self._O.fail_path(path, label, dict(self._rep.facts, what=label[:90]), self._rep.battery, self._rep.judge,
                                 detail=detail, extra=extra)


GLUE_ALLOWED = {
    "next": (r"DataRowIteratorTestData::get_row$", r"DataRowIterator::handle_io$", r"EvaluatedRow::into_data_row$"),
    "handle_io": (r"TestDriver>::write_input$", r"TestDriver>::write_input_and_read_output$",
                  r"DataRowIteratorTestData::extract_output_values$", r"EvalContext::set_outputs$"),
}


def glue_keeps_state(O, rep):
    """DataRowIterator::next / handle_io are glue: on every path (also the error arms) they store nothing into the
    iterator themselves and call nothing but get_row / handle_io / into_data_row resp. the driver, set_outputs and
    extract_output_values - so what a later row sees (remembered previous row, variable maps, generator, statement
    position) is changed only by those functions, whatever the driver answered."""
    import re
    for which, kw in (("next", {"file": "data_row_iterator.rs"}), ("handle_io", {})):
        fn = O.find("::" + which, **kw)
        paths = []
        for sb in [None] + sorted(set(d for _, d in fn.back_edges())):      # a loop of its own would be a segment of its own
            eng = O.engine()
            eng.keep_events(*KEEP)
            eng.keep_events(r"handle_io$")
            if sb is not None:
                eng.cut_blocks = {sb}
            paths += [(eng, p) for p in O.explore(eng, fn, **({"start_bb": sb} if sb is not None else {}))]
        n = 0
        for eng, p in paths:
            eng.focus(p)
            if p.outcome == "panic":
                rep.fail(O, p, "%s panics: %s" % (which, p.detail))
                continue
            if p.outcome not in ("return", "cut"):
                continue
            n += 1
            ws = [w for w in p.state.extra.get("writes", [])]
            if ws:
                rep.fail(O, p, "%s itself stores into the iterator's state (%s in %s)" % (which, ws[0][1], ws[0][0]))
                continue
            for e in p.trace:
                if e.kind != "call":
                    continue
                if not any(re.search(a, e.norm) for a in GLUE_ALLOWED[which]):
                    rep.fail(O, p, "%s calls %s" % (which, e.norm.split("::")[-1]))
                    break
        if n == 0:
            O.inconclusive("vacuous: no returning path of %s" % which)


def one_context(O, rep):
    """The iterator has ONE evaluation context: next evaluates rows against `self.ctx`; handle_io installs the answer
    in that same `self.ctx` and hands the very same object to the extraction (where virtual signals are evaluated).
    So variables, device outputs and the generator that `resetRandom` restarts are shared by everything a run evaluates."""
    from .common import T as _T
    m = O.mir
    ctx_path = ".*.%d" % m.fidx("DataRowIterator", "ctx")

    def is_own_ctx(tn):
        names = ([tuple(tn)] if tn else []) + list(getattr(tn, "chain", []) if tn else [])
        return any(nm and nm[0] == "arg1" and nm[1] == ctx_path for nm in names)
    n = 0
    fn = O.find("::next", file="data_row_iterator.rs")
    eng = O.engine()
    eng.keep_events(*KEEP)
    eng.keep_events(r"handle_io$")
    for p in O.explore(eng, fn):
        if p.outcome != "return":
            continue
        for ev in p.calls(r"get_row$"):
            n += 1
            if not is_own_ctx(ev.tnames[1] if len(ev.tnames) > 1 else None):
                rep.fail(O, p, "next evaluates the row against a context that is not the iterator's own `ctx`")
    fn = O.find("::handle_io")
    eng = O.engine()
    eng.keep_events(*KEEP)
    for p in O.explore(eng, fn):
        if p.outcome != "return":
            continue
        eng.focus(p)
        so = p.calls(r"set_outputs$")
        ex = p.calls(r"extract_output_values$")
        for ev in so:
            n += 1
            if not is_own_ctx(ev.tnames[0] if ev.tnames else None):
                rep.fail(O, p, "handle_io installs the answer in a context that is not the iterator's own `ctx`")
        for ev in ex:
            n += 1
            if not so or _T(eng, ev.args[2]) is not _T(eng, so[0].args[0]):
                rep.fail(O, p, "handle_io hands extract_output_values a context that is not the one the answer was installed in")
    if n == 0:
        O.inconclusive("vacuous: none of the context-taking calls was seen")


GET_ROW_ALLOWED = (r"StmtIterator::next_with_context$", r"::expand_x$", r"::expand_c$", r"::check_changed_entries$",
                   r"::generate_input_entries$", r"::generate_expected_entries$")


def get_row_is_the_pipeline(O, rep):
    """get_row is: take a row from the interpreter (or the cache), expand X, expand C, compare with the previous row,
    generate the input and expected entries - and nothing else of the crate touches the evaluated entries on the way (no
    extra pass that rewrites, reduces or re-orders them before the per-signal closures see them)."""
    import re
    fn = O.find("::get_row")
    eng = O.engine()
    eng.auto_inline = False
    n = 0
    for p in O.explore(eng, fn):
        if p.outcome == "infeasible":
            continue
        n += 1
        for e in p.trace:
            if e.kind == "call" and e.crate and not any(re.search(a, e.norm) for a in GET_ROW_ALLOWED):
                rep.fail(O, p, "get_row also runs %s over the row" % e.norm.split("::")[-1])
                break
    if n == 0:
        O.inconclusive("vacuous: get_row has no path")
