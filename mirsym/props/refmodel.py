"""A short reference model of the DSL's run-time semantics as the properties state them (C01 control flow and scopes,
C05 X / C expansion, C06 binding by name and changed flags, C07 width reduction, C08 expressions), and generators of
small programs with boundary values.  It is used ONLY to confirm or refute solver counterexamples natively: the
`reference battery` is a family of (program, expected rows) pairs compared with the native run of the tree under
check.  Programs read no outputs, draw no random numbers and meet no driver faults - those aspects have their own
batteries.  No part of a verdict on an unchanged tree rests on this file: a battery is only run for a candidate.

Programs are built as small ASTs from which both the source text and the expected rows are produced, so no parser
of the DSL is needed here.
"""
import itertools
import random

from ..replay import Scenario

M64 = (1 << 64) - 1
MIN, MAX = -(1 << 63), (1 << 63) - 1


def s64(v):
    v &= M64
    return v - (1 << 64) if v >> 63 else v


class EvalError(Exception):
    pass


# ------------------------------------------------------------------ expressions

LEVEL = {"*": 1, "/": 1, "%": 1, "+": 2, "-": 2, "<<": 3, ">>": 3, "&": 4, "^": 5, "|": 6, "<": 7, ">": 7, "<=": 7, ">=": 7,
         "=": 8, "!=": 8}


def binop(op, a, b):
    if op == "+":
        return s64(a + b)
    if op == "-":
        return s64(a - b)
    if op == "*":
        return s64(a * b)
    if op in ("/", "%"):
        if b == 0:
            raise EvalError("division by zero")
        q = abs(a) // abs(b)
        if (a < 0) != (b < 0):
            q = -q
        return s64(q) if op == "/" else s64(a - q * b)
    if op == "<<":
        return s64(a << (b & 63))
    if op == ">>":
        return s64(a >> (b & 63))
    if op == "&":
        return s64(a & b)
    if op == "^":
        return s64(a ^ b)
    if op == "|":
        return s64(a | b)
    return int({"<": a < b, ">": a > b, "<=": a <= b, ">=": a >= b, "=": a == b, "!=": a != b}[op])


def ev(e, env):
    k = e[0]
    if k == "num":
        return e[1]
    if k == "var":
        for fr in reversed(env):
            if e[1] in fr:
                return fr[e[1]]
        raise EvalError("unknown variable %s" % e[1])
    if k == "un":
        v = ev(e[2], env)
        return {"-": s64(-v), "!": int(v == 0), "~": s64(~v)}[e[1]]
    if k == "bin":
        a = ev(e[2], env)
        b = ev(e[3], env)
        return binop(e[1], a, b)
    if k == "ite":
        return ev(e[2], env) if ev(e[1], env) != 0 else ev(e[3], env)
    if k == "chain":       # flat operator chain: ("chain", [operands], [ops]) - grouped by precedence, left-associative
        vals = [ev(x, env) for x in e[1]]
        ops = list(e[2])
        while ops:
            lv = min(LEVEL[o] for o in ops)
            i = next(j for j, o in enumerate(ops) if LEVEL[o] == lv)
            vals[i:i + 2] = [binop(ops[i], vals[i], vals[i + 1])]
            del ops[i]
        return vals[0]
    raise ValueError(k)


def txt(e, top=False):
    k = e[0]
    if k == "num":
        n = e[1]
        if n >= 0:
            return str(n)
        if n == MIN:
            return "(0-9223372036854775807-1)"
        return "(0-%d)" % (-n)
    if k == "var":
        return e[1]
    if k == "un":
        return "%s%s" % (e[1], txt(e[2]) if e[2][0] in ("num", "var") and not (e[2][0] == "num" and e[2][1] < 0) else "(%s)" % txt(e[2], True))
    if k == "bin":
        s = "%s %s %s" % (txt(e[2]), e[1], txt(e[3]))
        return s if top else "(%s)" % s
    if k == "ite":
        return "ite(%s, %s, %s)" % (txt(e[1], True), txt(e[2], True), txt(e[3], True))
    if k == "chain":
        s = txt(e[1][0])
        for o, x in zip(e[2], e[1][1:]):
            s += " %s %s" % (o, txt(x))
        return s if top else "(%s)" % s
    raise ValueError(k)


# ------------------------------------------------------------------ programs

class Program:
    """signals: [(kind, name, bits, default)] in signal-list order; header: column names; stmts: statement ASTs.
    Statements: ("let", name, e) ("loop", var, e, [stmts]) ("repeat", e, row) ("while", e, [stmts]) ("row", [entries])
    ("blank",) ("comment", text).  Entries: ("e", expr) ("lit", n) ("X",) ("Z",) ("C",) ("bits", k, expr)."""

    def __init__(self, signals, header, stmts, note=""):
        self.signals = signals
        self.header = header
        self.stmts = stmts
        self.note = note
        self._line = {}

    # ---- text
    def source(self):
        lines = [" ".join(self.header)]
        self._emit(self.stmts, lines)
        return "\n".join(lines) + "\n"

    def _row_txt(self, ents):
        out = []
        for en in ents:
            if en[0] == "e":
                out.append("(%s)" % txt(en[1], True))
            elif en[0] == "lit":
                out.append(str(en[1]))
            elif en[0] == "bits":
                out.append("bits(%d, %s)" % (en[1], txt(en[2], True)))
            else:
                out.append(en[0])
        return " ".join(out)

    def _emit(self, stmts, lines):
        for st in stmts:
            k = st[0]
            st_line = len(lines) + 1
            self._line[id(st)] = st_line
            if k == "let":
                lines.append("let %s = %s;" % (st[1], txt(st[2], True)))
            elif k == "loop":
                lines.append("loop(%s,%s)" % (st[1], txt(st[2], True)))
                self._emit(st[3], lines)
                lines.append("end loop")
            elif k == "while":
                lines.append("while(%s)" % txt(st[1], True))
                self._emit(st[2], lines)
                lines.append("end while")
            elif k == "repeat":
                lines.append("repeat(%s) %s" % (txt(st[1], True), self._row_txt(st[2])))
            elif k == "row":
                lines.append(self._row_txt(st[1]))
            elif k == "blank":
                lines.append("")
            elif k == "comment":
                lines.append("# " + st[1])
            else:
                raise ValueError(k)

    # ---- semantics
    def run(self, max_rows=400):
        """-> (rows, error or None); row = dict(line, inputs [(name, value, changed)], expected [(name, value)] or [] )."""
        self._line = {}
        self.source()
        self.rows = []
        self.prev = None           # previous evaluated entry list (what changed flags compare with)
        self.max_rows = max_rows
        try:
            self._exec(self.stmts, [{}])
        except EvalError as e:
            return self.rows, str(e)
        except StopIteration:
            return self.rows, None
        return self.rows, None

    def _exec(self, stmts, env):
        for st in stmts:
            k = st[0]
            if k == "let":
                env[-1][st[1]] = ev(st[2], env)
            elif k == "loop" or k == "repeat":
                var = st[1] if k == "loop" else "n"
                bound = ev(st[2] if k == "loop" else st[1], env)
                if bound <= 0:
                    continue
                env.append({var: 0})
                turns = 0
                while True:
                    turns += 1
                    if turns > 64:
                        raise EvalError("generator: loop does not end (its body rebinds the counter)")
                    if k == "loop":
                        self._exec(st[3], env)
                    else:
                        self._row(st[2], env, self._line[id(st)])
                    cur = None
                    for fr in reversed(env):
                        if var in fr:
                            cur = fr[var]
                            break
                    nxt = cur + 1
                    if nxt > MAX or not (nxt < bound):
                        break
                    env[-1][var] = nxt
                env.pop()
            elif k == "while":
                turns = 0
                while ev(st[1], env) != 0:
                    turns += 1
                    if turns > 64:
                        raise EvalError("generator: while loop does not end")
                    self._exec(st[2], env)
            elif k == "row":
                self._row(st[1], env, self._line[id(st)])

    def _row(self, ents, env, line):
        self._env = env
        vals = []
        for en in ents:
            if en[0] == "e":
                vals.append(("N", ev(en[1], env)))
            elif en[0] == "lit":
                vals.append(("N", en[1]))
            elif en[0] == "bits":
                v = ev(en[2], env)
                for i in range(en[1]):
                    vals.append(("N", (v >> (en[1] - 1 - i)) & 1))
            else:
                vals.append((en[0], None))
        assert len(vals) == len(self.header), (len(vals), self.header)
        col = {nm: i for i, nm in enumerate(self.header)}
        in_sigs = [s for s in self.signals if s[0] in ("in", "bidir")]
        out_sigs = [s for s in self.signals if s[0] in ("out", "bidir")]
        in_cols = [col[s[1]] for s in in_sigs if s[1] in col]
        xs = [c for c in sorted(in_cols) if vals[c][0] == "X"]
        cs = [c for c in in_cols if vals[c][0] == "C"]
        for combo in range(1 << len(xs)):
            cur = list(vals)
            for i, c in enumerate(xs):
                cur[c] = ("N", (combo >> i) & 1)
            phases = [(0, False), (1, False), (0, True)] if cs else [(None, True)]
            for clk, checked in phases:
                ent = list(cur)
                for c in cs:
                    ent[c] = ("N", clk)
                if not checked:
                    # mid-clock rows carry X in every expected column
                    for s in out_sigs:
                        nm = s[1] + "_out" if s[0] == "bidir" else s[1]
                        if nm in col:
                            ent[col[nm]] = ("X", None)
                self._emit_row(ent, col, in_sigs, out_sigs, checked, line)

    def _emit_row(self, ent, col, in_sigs, out_sigs, checked, line):
        def mask(v, bits):
            return s64(v) if bits >= 64 else (v & ((1 << bits) - 1))
        ins = []
        for s in in_sigs:
            if s[1] in col:
                c = col[s[1]]
                kind, v = ent[c]
                val = "Z" if kind == "Z" else str(mask(v, s[2]))
                changed = True if self.prev is None else (self.prev[c] != ent[c])
            else:
                d = s[3]
                val = "Z" if d == "Z" else str(d)
                changed = False
            ins.append((s[1], val, changed))
        exps = []
        if checked:
            for s in out_sigs:
                nm = s[1] + "_out" if s[0] == "bidir" else s[1]
                if nm in col:
                    kind, v = ent[col[nm]]
                    exps.append((s[1], "X" if kind == "X" else ("Z" if kind == "Z" else str(mask(v, s[2])))))
                else:
                    exps.append((s[1], "X"))
        self.prev = list(ent)
        flat = {}
        for fr in self._env:
            for k_, v_ in fr.items():
                flat[k_] = str(v_)
        self.rows.append({"line": line, "inputs": ins, "expected": exps, "checked": checked, "vars": flat})
        if len(self.rows) >= self.max_rows:
            raise StopIteration

    def scenario(self, **kw):
        rows, err = self.run()
        outs = [s for s in self.signals if s[0] in ("out", "bidir")]
        return Scenario(self.source(), self.signals, default_answer=[0] * len(outs), max_rows=len(rows) + 20,
                        expect={"ref_rows": rows, "ref_err": err}, note=self.note, **kw)


def reference_judge_one(o, sc):
    """native observation against the reference rows of the scenario"""
    want = sc.expect["ref_rows"]
    err = sc.expect["ref_err"]
    if not o.ok("PARSE") or not o.ok("BIND") or not o.ok("NEW"):
        return "the program is rejected or cannot start (%s): %s" % (sc.note, [l for l in o.lines if " err" in l or "panic" in l][:2])
    got = o.rows
    for k, (g, w) in enumerate(zip(got, want)):
        gi = [(n, v, ch) for n, v, ch in g["inputs"]]
        if gi != w["inputs"]:
            return "row %d (line %d) has inputs %s, reference %s (%s)" % (k + 1, g["line"], gi, w["inputs"], sc.note)
        if g["line"] != w["line"]:
            return "row %d reports line %d, reference %d (%s)" % (k + 1, g["line"], w["line"], sc.note)
        ge = [(n, e) for n, e, _, _, _ in g["outputs"]]
        if ge != w["expected"]:
            return "row %d (line %d) expects %s, reference %s (%s)" % (k + 1, g["line"], ge, w["expected"], sc.note)
        if sc.show_vars and k < len(o.vars) and o.vars[k] != w["vars"]:
            return "vars() at row %d (line %d) is %s, reference %s (%s)" % (k + 1, g["line"], o.vars[k], w["vars"], sc.note)
    if len(got) != len(want):
        return "%d rows, reference %d (%s)" % (len(got), len(want), sc.note)
    errs = [i for i in o.items if i[0] == "err"]
    if err and not errs:
        return "the run ends without the error item the reference ends with (%s) (%s)" % (err, sc.note)
    if not err and errs:
        return "the run has an error item (%s) where the reference has none (%s)" % (errs[0][2][:80], sc.note)
    return None


# ------------------------------------------------------------------ generators

SIG_A = [("in", "A", 8, 0), ("in", "B", 4, 3), ("out", "Y", 8), ("in", "CLK", 1, 0), ("bidir", "D", 8, 5), ("out", "W", 64)]
BOUNDARY = [0, 1, -1, 2, 3, 7, 63, 64, 65, -64, 255, 256, 1 << 31, 1 << 32, (1 << 32) + 1, MAX, MIN, MIN + 1, MAX - 1, -2]
OPS = list(LEVEL)


def N(n):
    return ("num", n)


def V(x):
    return ("var", x)


def expression_programs(rng, per_program=24):
    """every operator over boundary operand pairs; chains of 3-5 operators; unary operators; ite"""
    sig = [("in", "A", 1, 0), ("out", "W", 64)]
    rows = []
    for op in OPS:
        for a, b in itertools.product(BOUNDARY, repeat=2):
            if op in ("/", "%") and b == 0:
                continue
            rows.append(("bin", op, N(a), N(b)))
    rng.shuffle(rows)
    rows = rows[:40 * per_program]
    for _ in range(6 * per_program):
        n = rng.choice((3, 3, 4, 5))
        ops = [rng.choice(OPS) for _ in range(n)]
        vals = [N(rng.choice((0, 1, 2, 3, 5, 7, 12, 23, 64, -1, -7, 255)))]
        for o in ops:
            v = rng.choice((1, 2, 3, 5, 7, 12, 23, 64, -1, -7, 255))
            vals.append(N(v))
        rows.append(("chain", vals, ops))
    for u in ("-", "!", "~"):
        for a in BOUNDARY:
            rows.append(("un", u, N(a)))
            rows.append(("bin", "+", ("un", u, N(a)), N(1)))
            rows.append(("un", u, ("un", rng.choice("-!~"), N(a))))
    for c in (0, 1, -1, MIN):
        rows.append(("ite", N(c), N(11), N(22)))
        rows.append(("ite", ("bin", "=", N(c), N(0)), ("ite", N(c), N(1), N(2)), N(3)))
    rng.shuffle(rows)
    out = []
    for i in range(0, len(rows), per_program):
        chunk = rows[i:i + per_program]
        stmts = []
        for e in chunk:
            try:
                ev(e, [{}])
            except EvalError:
                continue
            stmts.append(("row", [("lit", 0), ("e", e)]))
        out.append(Program(sig, ["A", "W"], stmts, note="expressions %d" % (i // per_program)))
    return out


def _rand_expr(rng, vars_, depth=0):
    r = rng.random()
    if depth >= 2 or r < 0.35:
        if vars_ and rng.random() < 0.6:
            return V(rng.choice(vars_))
        return N(rng.choice((0, 1, 2, 3, 4, 5, -1, -2, 7, 9)))
    if r < 0.85:
        return ("bin", rng.choice(("+", "-", "*", "&", "|", "^", "<", ">", "=", "!=", "<=", ">=", "<<", ">>")),
                _rand_expr(rng, vars_, depth + 1), _rand_expr(rng, vars_, depth + 1))
    if r < 0.95:
        return ("un", rng.choice("-!~"), _rand_expr(rng, vars_, depth + 1))
    return ("ite", _rand_expr(rng, vars_, depth + 1), _rand_expr(rng, vars_, depth + 1), _rand_expr(rng, vars_, depth + 1))


def _rand_block(rng, vars_, depth, budget):
    """statements over the header A B Y W (inputs A B, outputs Y W)"""
    stmts = []
    n = rng.randint(1, 4)
    for _ in range(n):
        if budget[0] <= 0:
            break
        budget[0] -= 1
        r = rng.random()
        if r < 0.30:
            name = rng.choice(("a", "b", "i", "j", "k", "n", "x", "Y", "W"))     # variables may shadow outputs and counters
            stmts.append(("let", name, _rand_expr(rng, vars_)))
            if name not in vars_:
                vars_ = vars_ + [name]
        elif r < 0.50 and depth < 3:
            var = rng.choice(("i", "j", "k", "a", "n"))
            bound = rng.choice((N(0), N(1), N(2), N(3), N(-1), N(-5), _rand_expr(rng, vars_)))
            body = _rand_block(rng, vars_ + [var], depth + 1, budget)
            stmts.append(("loop", var, ("bin", "&", bound, N(3)) if bound[0] not in ("num",) else bound, body))
        elif r < 0.60:
            bound = rng.choice((N(0), N(1), N(2), N(3), N(-2)))
            stmts.append(("repeat", bound, [("e", _rand_expr(rng, vars_ + ["n"])), ("e", _rand_expr(rng, vars_ + ["n"])),
                                            rng.choice((("X",), ("lit", 1), ("Z",))), ("X",)]))
        elif r < 0.70 and depth < 3:
            # terminating while: counter variable w counts down from a small (possibly negative) start
            w = rng.choice(("w", "v"))
            start = rng.choice((0, 1, 2, 3, -1, -2, -3))
            step = 1 if start < 0 else -1
            body = _rand_block(rng, vars_ + [w], depth + 1, budget)
            stmts.append(("let", w, N(start)))
            stmts.append(("while", V(w), body + [("let", w, ("bin", "+", V(w), N(step)))]))
            if w not in vars_:
                vars_ = vars_ + [w]
        elif r < 0.75:
            stmts.append(rng.choice((("blank",), ("comment", "note"))))
        else:
            ents = [("e", _rand_expr(rng, vars_)), rng.choice((("e", _rand_expr(rng, vars_)), ("lit", rng.choice((0, 1, 15, 16, 255)))))]
            ents += [rng.choice((("X",), ("Z",), ("e", _rand_expr(rng, vars_)))), rng.choice((("X",), ("e", _rand_expr(rng, vars_))))]
            stmts.append(("row", ents))
    return stmts


def control_programs(rng, count=60):
    sig = [("in", "A", 8, 0), ("in", "B", 4, 3), ("out", "Y", 8), ("out", "W", 64)]
    out = []
    tries = 0
    while len(out) < count and tries < count * 20:
        tries += 1
        stmts = _rand_block(rng, [], 0, [rng.randint(6, 14)])
        stmts.append(("row", [("lit", 9), ("lit", 9), ("X",), ("X",)]))
        p = Program(sig, ["A", "B", "Y", "W"], stmts, note="control %d" % len(out))
        try:
            rows, err = p.run(max_rows=120)
        except (EvalError, RecursionError):
            continue
        if err or len(rows) > 100 or len(rows) < 2:
            continue
        out.append(p)
    return out


def expansion_programs(rng, count=40):
    """rows with X / C / Z / bits under headers in various orders, with omitted and bidirectional signals"""
    out = []
    layouts = [
        (SIG_A, ["A", "B", "CLK", "Y"]),
        (SIG_A, ["CLK", "Y", "A"]),
        (SIG_A, ["Y", "W", "B", "A"]),
        (SIG_A, ["D", "D_out", "A", "CLK"]),
        (SIG_A, ["D_out", "B", "Y"]),
        (SIG_A, ["W", "D", "CLK", "B", "A", "Y", "D_out"]),
        ([("out", "Q", 4), ("in", "CLK", 1, 0), ("in", "I2", 1, 1), ("in", "I1", 1, 0), ("in", "I0", 1, 0)], ["I0", "I1", "I2", "CLK", "Q"]),
        ([("out", "Q", 4), ("in", "CLK", 1, 0), ("in", "I2", 1, 1), ("in", "I1", 1, 0), ("in", "I0", 1, 0)], ["Q", "I2", "I0"]),
        ([("in", "CLK", 1, 0), ("out", "Q", 8)], ["CLK"]),
        ([("in", "A", 4, 9), ("in", "CLK", 1, 0), ("out", "Q", 8)], ["CLK", "A"]),
    ]
    k = 0
    while len(out) < count:
        sig, hdr = layouts[k % len(layouts)]
        k += 1
        kinds = {s[1]: s[0] for s in sig}
        stmts = []
        for _ in range(rng.randint(2, 4)):
            ents = []
            for nm in hdr:
                base = nm[:-4] if nm.endswith("_out") and nm[:-4] in kinds else nm
                is_in = kinds.get(base) in ("in", "bidir") and not nm.endswith("_out")
                if is_in:
                    r = rng.random()
                    if nm == "CLK":
                        ents.append(rng.choice((("C",), ("C",), ("lit", 0), ("lit", 1), ("X",))))
                    elif r < 0.3:
                        ents.append(("X",))
                    elif r < 0.4:
                        ents.append(("Z",))
                    elif r < 0.5:
                        ents.append(("C",))
                    else:
                        ents.append(("lit", rng.choice((0, 1, 5, 15, 16, 17, 255, 256, 300))))
                else:
                    ents.append(rng.choice((("X",), ("Z",), ("lit", rng.choice((0, 1, 7, 255, 256, 1000))), ("e", N(-1)))))
            if sum(1 for e in ents if e[0] == "X") > 4:
                continue
            stmts.append(("row", ents))
            if rng.random() < 0.3:
                stmts.append(("row", ents))           # the same row again: changed flags
        if rng.random() < 0.4:
            stmts = [("loop", "i", N(2), stmts)]
        p = Program(sig, hdr, stmts, note="expansion %d (%s)" % (len(out), " ".join(hdr)))
        try:
            rows, err = p.run(max_rows=200)
        except (EvalError, AssertionError):
            continue
        if err or len(rows) > 150:
            continue
        out.append(p)
    return out


_CACHE = {}


def reference_battery(kinds=("expressions", "control", "expansion"), seed=20260926, show_vars=False):
    if show_vars:
        return [Scenario(s.source, s.signals, default_answer=s.default_answer, max_rows=s.max_rows, expect=s.expect,
                         note=s.note + " (with vars)", show_vars=True) for s in reference_battery(kinds, seed)]
    key = (tuple(kinds), seed)
    if key not in _CACHE:
        rng = random.Random(seed)
        progs = []
        if "expressions" in kinds:
            progs += expression_programs(rng)
        if "control" in kinds:
            progs += control_programs(rng)
        if "expansion" in kinds:
            progs += expansion_programs(rng)
        _CACHE[key] = [p.scenario() for p in progs]
    return _CACHE[key]


def with_reference(rep, kinds=("expressions", "control", "expansion"), show_vars=False):
    """rep (dri.Rep) extended by the reference battery: scenarios that carry reference rows are judged against them,
    all others by the family's own judge."""
    from .common import no_panic_judge
    from . import dri
    ref_judge = no_panic_judge(reference_judge_one)
    own = rep.judge

    def judge(obs, sc):
        if sc.expect and "ref_rows" in sc.expect:
            return ref_judge(obs, sc)
        return own(obs, sc)
    return dri.Rep(rep.facts, list(rep.battery) + reference_battery(kinds, show_vars=show_vars), judge)
