"""Obligations decided by the second engine (Kani / CBMC over the compiled kernels): see mirsym/kanicross.py.

They duplicate, on an independent tool chain (rustc -> Kani's goto-program -> CBMC -> SAT), what mirsym decides from the
MIR text with z3 for the integer kernels - a differential check of the translator - and are registered under every
property whose statement rests on the kernel.  Bounds and what CBMC could not do are stated in the harness files
(/verif/kanix/*.inc) and in DESIGN.md section 3.11.
"""
from .. import kanicross
from ..kanicross import le_signed, le_unsigned
from ..replay import lit

BINOPS = ["Equal", "NotEqual", "GreaterThan", "LessThan", "GreaterThanOrEqual", "LessThanOrEqual", "Or", "Xor", "And",
          "ShiftLeft", "ShiftRight", "Plus", "Minus", "Times", "Divide", "Reminder"]
UNOPS = ["Minus", "LogicalNot", "BinaryNot"]


def decide(O, files, harnesses, witnesses, on_fail, tag):
    """Run the harnesses; `harnesses` must come back success, `witnesses` must come back failed (reachability).
    on_fail(harness, values) -> (label, facts, scenarios, judge) builds the native replay of a counterexample."""
    res, info = kanicross.run(files, list(harnesses) + list(witnesses), tag=tag,
                              timeout=600 if O.tier == "quick" else 1800,
                              harness_timeout=90 if O.tier == "quick" else 600)
    O.rec["kani"] = {"engine": info.get("engine"), "command": info.get("cmd"), "wall_s": info.get("wall_s"),
                     "injected_into": ["src/" + f for f in files],
                     "harnesses": {h: {"status": r["status"], "solver_s": r["seconds"], "detail": r["detail"][:200]}
                                   for h, r in res.items()}}
    for f in files:
        O.rec["functions"]["kani harness over src/" + f] = "kanix/%s.inc" % f
    for h in harnesses:
        r = res[h]
        O.rec["queries"] += 1
        O.rec["solver_s"] += r["seconds"]
        O.rec["paths"] += 1
        if r["status"] == "success":
            O.rec["unsat"] += 1
            continue
        if r["status"] == "error":
            O.inconclusive("kani harness %s: %s" % (h, r["detail"][:300]))
            continue
        O.rec["sat"] += 1
        # only property assertions of the harness (VERIF_RESULT) and panics / overflow checks inside the kernel count
        label, facts, scen, judge = on_fail(h, r["values"] or [])
        facts = dict(facts, engine="kani", harness=h, failed_checks=[c[0] for c in r["failed_checks"]][:4])
        O.violation("kani: %s - %s" % (h, label), None, facts, scen, judge, r["detail"] or "harness failed")
    for h in witnesses:
        r = res[h]
        O.rec["queries"] += 1
        if r["status"] == "failed":
            O.rec["witnesses"].append({"class": "kani reachability witness " + h, "paths": 1,
                                       "model": {"bytes": [v.hex() for v in (r["values"] or [])][:6]}})
        else:
            O.inconclusive("vacuous: kani reachability witness %s did not fail (%s %s)" % (h, r["status"], r["detail"][:200]))


# ---------------------------------------------------------------- C08 / C10: BinOp::eval, UnaryOp::eval

def expr_kernels(O, tag, harnesses=None):
    from . import C08

    def on_fail(h, vals):
        if h == "unaryop":
            x = le_signed(vals[0]) if len(vals) > 0 else 0
            k = (le_unsigned(vals[1]) if len(vals) > 1 else 0) % 3
            name = UNOPS[k]
            pyref = {"Minus": lambda v: C08.s64(-v), "LogicalNot": lambda v: int(v == 0), "BinaryNot": lambda v: C08.s64(~v)}
            return ("unary %s on %d" % (name, x), {"op": "unary " + name, "x": x},
                    [C08.expr_scenario("%s%s" % (C08.UNOPS[name], lit(x)), "%s %d" % (name, x))],
                    C08.expr_judge(pyref[name](x)))
        a = le_signed(vals[0]) if len(vals) > 0 else 0
        b = le_signed(vals[1]) if len(vals) > 1 else 0
        k = (le_unsigned(vals[2]) if len(vals) > 2 else 0) % 16
        name = BINOPS[k]
        want = C08.py_binop(name, a, b)
        return ("%s on %d, %d" % (name, a, b), {"op": name, "a": a, "b": b},
                [C08.expr_scenario("%s %s %s" % (lit(a), C08.OPS[name], lit(b)), "%s %d %d" % (name, a, b))],
                C08.expr_judge(want))

    hs = harnesses or ["binop_bitwise_compare_shift_addsub", "binop_no_panic", "binop_divrem_zero_is_error", "unaryop"]
    decide(O, ["expr.rs"], hs, ["binop_witness"], on_fail, tag)


# ---------------------------------------------------------------- C07: width reduction

def mask_kernel(O, tag):
    from . import C07

    def on_fail(h, vals):
        bits = le_unsigned(vals[0]) if len(vals) > 0 else 64
        n = le_signed(vals[1]) if len(vals) > 1 else -1
        bits = min(max(bits, 1), 64)
        return ("bit_mask(%d) applied to %d" % (bits, n), {"bits": bits, "n": n, "path": "input"},
                C07._scenario_input(bits, n), C07._judge_input(bits, n))

    decide(O, ["data_row_iterator.rs"], ["mask_is_mod_2_pow_bits"], ["mask_witness"], on_fail, tag)


# ---------------------------------------------------------------- C03: verdict rules

def verdict_kernels(O, tag):
    from . import C03
    from ..replay import Scenario

    def on_fail(h, vals):
        def tv(i):
            t = (le_unsigned(vals[i]) if len(vals) > i else 0) % 3
            v = le_signed(vals[i + 1]) if len(vals) > i + 1 else 0
            return t, v
        et, ev = tv(0)
        ot, ov = tv(2)
        e_txt = {0: "(%s)" % lit(ev), 1: "Z", 2: "X"}[et]
        o_val = {0: ov, 1: "Z", 2: "X"}[ot]
        R = C03.rep()
        S = [("in", "A", 1, 0), ("out", "Y", 64), ("out", "W", 64)]
        sc = [Scenario("A Y\n0 %s\n" % e_txt, S, layout=["Y"], default_answer=[o_val], note="verdict %s vs %s" % (e_txt, o_val))]
        return ("verdict of expected %s against output %s" % (e_txt, o_val), dict(R.facts, exp=et, out=ot, ev=ev, ov=ov),
                sc + list(R.battery), R.judge)

    decide(O, ["value.rs", "lib.rs"], ["verdict_rules", "entry_and_row_verdicts"], ["verdict_witness"], on_fail, tag)


# ---------------------------------------------------------------- C01: FramedMap::set / get / push_frame / pop_frame

def framed_map_kernels(O, tag):
    from . import C01

    def on_fail(h, vals):
        R = C01.rep()
        return ("a `set` in a new frame overwrote or lost a binding below the frame", dict(R.facts, kernel="FramedMap::set"),
                list(R.battery), R.judge)

    decide(O, ["framed_map.rs"], ["set_in_a_new_frame_shadows"], ["set_in_a_new_frame_witness"], on_fail, tag)
