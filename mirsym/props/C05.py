"""C05 - clock (C) and don't-care (X) inputs expand into the documented row sequences.

Bounded model checking of the real get_row / expand_x / expand_c / check_changed_entries /
generate_input_entries / generate_expected_entries code: a synthetic MIR harness calls get_row K times on a
DataRowIteratorTestData whose statement iterator serves ONE source row with symbolic entry kinds and values
(then the end of the program). Loops of the crate are unrolled (bounded), iterator chains are driven by the
models in itermodels.py. Every feasible path fixes the kind of every entry; the returned sequence of rows is
compared, by the solver, with the expansion the property prescribes for that shape.
"""
import itertools
import sys

import z3

from ..oblig import obligation
from ..sym import bv64, Node, fresh_root, copy_node, assign_node, mk_bool
from .. import build, models
from ..models import vec_slice
from .common import mval, s64, mask_ref, no_panic_judge
from ..replay import Scenario, lit
from . import batteries as B

LINE = 7


class Layout:
    """columns: list of 'in' / 'exp' (header columns); sig_order: header column -> signal index."""

    def __init__(self, name, columns, sig_of_col, widths=None, note="", hidden_exp=0, hidden_in_at=()):
        self.hidden_in_at = tuple(hidden_in_at)   # signal-list positions of inputs the header omits (EntryIndex::Default)
        self.name = name
        self.columns = columns
        self.sig_of_col = sig_of_col
        self.n = len(columns)
        self.note = note
        self.hidden_exp = hidden_exp      # output signals of the device that the header does not name (EntryIndex::Default)
        # signal-list order: inputs and outputs by signal index
        self.signals = sorted(range(self.n), key=lambda c: sig_of_col[c])
        self.input_cols = [c for c in self.signals if columns[c] == "in"]       # in signal order
        self.exp_cols = [c for c in self.signals if columns[c] == "exp"]


LAYOUTS_QUICK = [
    Layout("in in exp", ["in", "in", "exp"], [0, 1, 2]),
    Layout("header order differs from signal order", ["in", "in", "exp"], [1, 0, 2]),
    Layout("exp in (output first in the header, input first in the signal list)", ["exp", "in"], [1, 0]),
    Layout("in exp with an omitted input between them in the signal list", ["in", "exp"], [0, 2], hidden_in_at=(1,)),
]
LAYOUTS_THOROUGH = [
    Layout("exp in in", ["exp", "in", "in"], [2, 0, 1]),
    Layout("in exp in exp", ["in", "exp", "in", "exp"], [3, 0, 1, 2]),
    Layout("three inputs", ["in", "in", "in"], [2, 0, 1]),
]


def reference_expansion(kinds, layout):
    """The property's statement as a list of rows: (assignment {col: bit}, clock bit or None, checked)."""
    xs = [c for c in range(layout.n) if layout.columns[c] == "in" and kinds[c] == "X"]   # leftmost first
    has_c = any(layout.columns[c] == "in" and kinds[c] == "C" for c in range(layout.n))
    rows = []
    for combo in range(1 << len(xs)):
        assign = {c: (combo >> i) & 1 for i, c in enumerate(xs)}       # leftmost column varies fastest, 0 first
        if has_c:
            rows.append((assign, 0, False))
            rows.append((assign, 1, False))
            rows.append((assign, 0, True))
        else:
            rows.append((assign, None, True))
    return rows


def make_harness(K):
    body = []
    for k in range(K):
        body.append("bb%d: _%d = DataRowIteratorTestData::<'_>::get_row(copy _1, copy _2) -> [return: bb%d, unwind continue]"
                    % (k, 10 + k, k + 1))
    body.append("bb%d: return" % K)
    locs = {10 + k: "std::result::Result<std::option::Option<data_row_iterator::EvaluatedRow<'_>>, errors::ExprError>"
            for k in range(K)}
    return build.harness("get_row_sequence", [(1, "&mut data_row_iterator::DataRowIteratorTestData<'_>"),
                                              (2, "&mut eval_context::EvalContext")], body, locs)


def make_harness_new(K, prev_field=None):
    """Like make_harness, but the test-data object is built by the crate's own DataRowIteratorTestData::new from a
    TestCase, so that whatever that constructor derives (caches, masks, ...) is the real thing and not left arbitrary.
    prev_field: index of the `prev` field - it is then overwritten with parameter _5 (an arbitrary previous row)."""
    body = ["bb0: _3 = DataRowIteratorTestData::<'_>::new(copy _1) -> [return: bb1, unwind continue]"]
    for k in range(K):
        pre = "_4 = &mut _3;; " if k == 0 else ""
        if k == 0 and prev_field is not None:
            pre = "(_3.%d: std::option::Option<std::vec::Vec<stmt::DataEntry>>) = move _5;; " % prev_field + pre
        body.append("bb%d: %s_%d = DataRowIteratorTestData::<'_>::get_row(copy _4, copy _2) -> [return: bb%d, unwind continue]"
                    % (k + 1, pre, 10 + k, k + 2))
    body.append("bb%d: return" % (K + 1))
    locs = {10 + k: "std::result::Result<std::option::Option<data_row_iterator::EvaluatedRow<'_>>, errors::ExprError>"
            for k in range(K)}
    locs[3] = "data_row_iterator::DataRowIteratorTestData<'_>"
    locs[4] = "&mut data_row_iterator::DataRowIteratorTestData<'_>"
    params = [(1, "&TestCase"), (2, "&mut eval_context::EvalContext")]
    if prev_field is not None:
        params.append((5, "std::option::Option<std::vec::Vec<stmt::DataEntry>>"))
    return build.harness("get_row_sequence", params, body, locs)


def serve_one_row(ctx):
    """Model of StmtIterator::next_with_context for the harness: the prepared row once, then end of program."""
    st = ctx.st
    served = st.extra["served"]
    if z3.is_false(served.term):
        served.term = z3.BoolVal(True)
        r = models.mk_enum(ctx.eng, "Result", "Ok", [models.mk_enum(ctx.eng, "Option", "Some", [copy_node(st.extra["row"])])])
    else:
        none = Node(fresh_root("e"), ty="Option")
        none.tag = bv64(0)
        none.variants = {}
        r = models.mk_enum(ctx.eng, "Result", "Ok", [none])
    return ctx.ret(r)


def serve_rows(ctx):
    """Model of StmtIterator::next_with_context serving the prepared rows in order, then the end of the program."""
    st = ctx.st
    k = st.extra["served"]
    i = z3.simplify(k.term).as_long()
    k.term = bv64(i + 1)
    rows = st.extra["rows"]
    if i < len(rows):
        r = models.mk_enum(ctx.eng, "Result", "Ok", [models.mk_enum(ctx.eng, "Option", "Some", [copy_node(rows[i])])])
    else:
        none = Node(fresh_root("e"), ty="Option")
        none.tag = bv64(0)
        none.variants = {}
        r = models.mk_enum(ctx.eng, "Result", "Ok", [none])
    return ctx.ret(r)


def run_layout(O, layout, K, in_kinds=("Number", "X", "Z", "C"), exp_kinds=("Number", "X", "Z"), rep=None, arbitrary_prev=False,
               first_kinds=None):
    """first_kinds: kinds ('N','X','Z','C' per column) of a source row executed BEFORE the symbolic one (its values are
    symbolic): the expansion of the second row must not depend on what the first one was."""
    m = O.mir
    F = m.fidx
    sys.setrecursionlimit(300000)
    eng = O.engine()
    eng.iter_bound = 2 * layout.n + 4
    eng.max_visits = 64
    eng.max_paths = 20000
    eng.inline_cyclic = True
    eng.auto_inline_max_blocks = 400
    eng.auto_inline_depth = 12
    eng.models["StmtIterator::next_with_context"] = serve_rows if first_kinds else serve_one_row
    offset = len(reference_expansion(list(first_kinds), layout)) if first_kinds else 0
    fn = make_harness_new(K, F("DataRowIteratorTestData", "prev") if arbitrary_prev else None)
    eng.models["StmtIterator::new"] = lambda ctx: ctx.ret(Node(fresh_root("stmtiter"), ty=ctx.dest_ty))
    n = layout.n
    hin = tuple(getattr(layout, "hidden_in_at", ()))
    nsig = n + len(hin)
    nhid = getattr(layout, "hidden_exp", 0)
    # inputs in signal-list order: ("col", column) for header columns, ("hid", signal index) for omitted inputs
    in_order = [x[1:] for x in sorted([(layout.sig_of_col[c], "col", c) for c in layout.input_cols] + [(s_, "hid", s_) for s_ in hin])]
    handles = {}

    def setup(eng_, st, fr):
        me = eng_.deref(fr.locals[1])
        sigs = []
        for s in range(nsig):
            if s in hin or layout.columns[layout.sig_of_col.index(s)] == "in":
                typ = build.enum_val(eng_, "SignalType", "Input", [build.sym_enum("def%d" % s, "value::InputValue")])
            else:
                typ = build.enum_val(eng_, "SignalType", "Output", [])
            sigs.append(build.struct([Node("name%d" % s, ty="String"), Node("bits%d" % s, ty="usize"), typ], "Signal"))
        for h in range(nhid):
            sigs.append(build.struct([Node("name%d" % (nsig + h), ty="String"), Node("bits%d" % (nsig + h), ty="usize"),
                                      build.enum_val(eng_, "SignalType", "Output", [])], "Signal"))
        ii = [build.enum_val(eng_, "EntryIndex", "Entry", [build.usize(x), build.usize(layout.sig_of_col[x])]) if k_ == "col"
              else build.enum_val(eng_, "EntryIndex", "Default", [build.usize(x)]) for k_, x in in_order]
        ei = [build.enum_val(eng_, "EntryIndex", "Entry", [build.usize(c), build.usize(layout.sig_of_col[c])])
              for c in layout.exp_cols]
        ei += [build.enum_val(eng_, "EntryIndex", "Default", [build.usize(nsig + h)]) for h in range(nhid)]
        # `me` is the TestCase; the test-data object is built from it by the crate's own constructor (harness bb0)
        assign_node(eng_.field(me, F("TestCase", "signals")), build.vec_of(eng_, sigs, "Vec<Signal>"))
        assign_node(eng_.field(me, F("TestCase", "input_indices")), build.vec_of(eng_, ii, "Vec<EntryIndex>"))
        assign_node(eng_.field(me, F("TestCase", "expected_indices")), build.vec_of(eng_, ei, "Vec<EntryIndex>"))
        if arbitrary_prev:
            # the row executed before: any evaluated row of the same width (kinds and values symbolic)
            pes = [build.sym_enum("pe%d" % c, "stmt::DataEntry") for c in range(n)]
            for c, e in enumerate(pes):
                t = eng_.tag_of(e, st)
                kinds = (in_kinds if layout.columns[c] == "in" else exp_kinds)
                # expected columns of the previous row may hold X (the mid-clock rows put X there); inputs hold numbers
                pk = ("Number", "X") if layout.columns[c] != "in" else ("Number",)
                st.pc.append(z3.Or([t == bv64(m.vidx("DataEntry", k)) for k in pk]))
            fr.locals[5] = build.enum_val(eng_, "Option", "Some", [build.vec_of(eng_, pes, "Vec<stmt::DataEntry>")])
        entries = [build.sym_enum("e%d" % c, "stmt::DataEntry") for c in range(n)]
        for c, e in enumerate(entries):
            t = eng_.tag_of(e, st)
            # what can reach get_row for an accepted test: evaluated entries; C only in input columns (C11)
            kinds = in_kinds if layout.columns[c] == "in" else exp_kinds
            st.pc.append(z3.Or([t == bv64(m.vidx("DataEntry", k)) for k in kinds]))
        for s in range(nsig):
            b = eng_.scalar(eng_.field(sigs[s], F("Signal", "bits"), "usize"))
            st.pc.append(z3.And(z3.UGE(b, bv64(1)), z3.ULE(b, bv64(64))))
        row = build.struct([build.vec_of(eng_, entries, "Vec<stmt::DataEntry>"), build.usize(LINE),
                            mk_bool(z3.BoolVal(True))], "stmt::DataEntries")
        st.extra["row"] = row
        st.extra["served"] = mk_bool(z3.BoolVal(False))
        if first_kinds:
            LONG = {"N": "Number", "X": "X", "Z": "Z", "C": "C"}
            fents = []
            for c in range(n):
                e = build.sym_enum("f%d" % c, "stmt::DataEntry")
                st.pc.append(eng_.tag_of(e, st) == bv64(m.vidx("DataEntry", LONG[first_kinds[c]])))
                fents.append(e)
            frow = build.struct([build.vec_of(eng_, fents, "Vec<stmt::DataEntry>"), build.usize(LINE - 2),
                                 mk_bool(z3.BoolVal(True))], "stmt::DataEntries")
            st.extra["rows"] = [frow, row]
            st.extra["served"] = build.usize(0)

    paths = O.explore(eng, fn, setup=setup)
    # initial-state terms
    tags = [z3.BitVec("e%d.tag" % c, 64) for c in range(n)]
    vals = [z3.BitVec("e%d#Number.0" % c, 64) for c in range(n)]
    bits = [z3.BitVec("bits%d" % s, 64) for s in range(nsig + nhid)]
    KIND = {m.vidx("DataEntry", k): k[0] if k != "Number" else "N" for k in ("Number", "X", "Z", "C")}
    shapes = set()
    for p in paths:
        eng.focus(p)
        res, mod = O.solve(list(p.pc))
        if res != "sat":
            continue
        kinds = [KIND.get(mval(mod, t, False), "?") for t in tags]
        # the path must pin every kind (all branches were on tags)
        for c in range(n):
            pin = O.solve(list(p.pc) + [tags[c] != bv64(mval(mod, tags[c], False))], want_model=False)[0]
            if pin != "unsat":
                kinds[c] = "?"
        if "?" in kinds:
            O.inconclusive("a path does not determine the kind of every entry (%s)" % kinds)
            continue
        shapes.add("".join(kinds))
        ref = reference_expansion(kinds, layout)

        def facts(mod2, kinds=kinds):
            return {"layout": layout.name, "kinds": "".join(kinds),
                    "values": [mval(mod2, v) for v in vals], "bits": [mval(mod2, b, False) for b in bits]}

        def scen(mod2, kinds=kinds):
            f = facts(mod2)
            own = [expansion_scenario(layout, kinds, f["values"], f["bits"], rp) for rp in (1, 2, 3)]
            if first_kinds:
                own = two_row_scenarios(layout, first_kinds, kinds, f["values"], f["bits"]) + own
            own = own + wide_scenarios()
            from .refmodel import reference_battery
            return (own + reference_battery(("expansion",))) if rep is None else (rep.battery + own)

        def judge(obs, sc):
            if sc.expect and "ref_rows" in sc.expect:
                from .refmodel import reference_judge_one
                from .common import no_panic_judge
                return no_panic_judge(reference_judge_one)(obs, sc)
            if rep is None:
                return B.literal_judge(obs, sc)
            return rep.judge(obs, sc) or (B.literal_judge(obs, sc) if sc.expect else None)
        if p.outcome != "return":
            O.fail_path(p, "row expansion %s: %s" % (p.outcome, p.detail), facts, scen, judge)
            continue
        if offset + len(ref) + 1 > K:
            O.inconclusive("harness too short for shape %s" % "".join(kinds))
            continue
        loc = p.state.frames[0].locals
        bad = None
        for k0 in range(offset):
            r0 = loc[10 + k0]
            O.prove(p, z3.And(eng.tag_of(r0, None) == bv64(0), eng.tag_of(eng.field(eng.downcast(r0, "Ok"), 0), None) == bv64(1)),
                    "the preceding source row (%s) yields its %d rows" % ("".join(first_kinds), offset), facts, scen, judge)
        for k in range(len(ref) + 1):
            r = loc[10 + offset + k]
            rtag = eng.tag_of(r, None)
            opt = eng.field(eng.downcast(r, "Ok"), 0)
            otag = eng.tag_of(opt, None)
            if k == len(ref):
                if not O.prove(p, z3.And(rtag == bv64(0), otag == bv64(0)),
                               "the expansion of shape %s ends after %d rows" % ("".join(kinds), len(ref)), facts, scen, judge):
                    bad = True
                break
            if not O.prove(p, z3.And(rtag == bv64(0), otag == bv64(1)),
                           "shape %s yields row %d of %d" % ("".join(kinds), k + 1, len(ref)), facts, scen, judge):
                bad = True
                break
            assign, clk, checked = ref[k]
            row = eng.field(eng.downcast(opt, "Some"), 0)
            claims = []
            upd = eng.scalar(eng.field(row, F("EvaluatedRow", "update_output"), "bool"))
            claims.append(upd if checked else z3.Not(upd))
            claims.append(eng.scalar(eng.field(row, F("EvaluatedRow", "line"), "usize")) == bv64(LINE))
            ins = vec_slice(eng, eng.field(row, F("EvaluatedRow", "inputs")))
            claims.append(eng.length(ins) == bv64(len(in_order)))
            for j, (k_, c) in enumerate(in_order):
                ent = eng.elem(ins, bv64(j))
                v = eng.field(ent, F("InputEntry", "value"))
                vt = eng.tag_of(v, None)
                vv = eng.scalar(eng.field(eng.downcast(v, "Value"), 0, "i64"))
                T_V, T_Z = bv64(m.vidx("InputValue", "Value")), bv64(m.vidx("InputValue", "Z"))
                if k_ == "hid":
                    # an input the header omits: its default, as given, on every row, never flagged as changed
                    dt, dv = z3.BitVec("def%d.tag" % c, 64), z3.BitVec("def%d#Value.0" % c, 64)
                    claims.append(z3.And(vt == dt, z3.Implies(dt == T_V, vv == dv),
                                         z3.Not(eng.scalar(eng.field(ent, F("InputEntry", "changed")), "bool"))))
                    sigref = eng.field(ent, F("InputEntry", "signal"))
                    if sigref.target is None or sigref.target.fields[0].root != "name%d" % c:
                        claims.append(z3.BoolVal(False))
                    continue
                b = bits[layout.sig_of_col[c]]
                if kinds[c] == "N":
                    claims.append(z3.And(vt == T_V, vv == mask_ref(vals[c], b)))
                elif kinds[c] == "Z":
                    claims.append(vt == T_Z)
                elif kinds[c] == "X":
                    claims.append(z3.And(vt == T_V, vv == bv64(assign[c])))
                elif kinds[c] == "C":
                    claims.append(z3.And(vt == T_V, vv == bv64(clk)))
                sigref = eng.field(ent, F("InputEntry", "signal"))
                if sigref.target is None or not (sigref.target.root.startswith("S") and
                                                 sigref.target.fields[0].root == "name%d" % layout.sig_of_col[c]):
                    claims.append(z3.BoolVal(False))
            exps = vec_slice(eng, eng.field(row, F("EvaluatedRow", "expected")))
            claims.append(eng.length(exps) == bv64(len(layout.exp_cols) + nhid))
            for h in range(nhid):
                ent = eng.elem(exps, bv64(len(layout.exp_cols) + h))
                claims.append(eng.tag_of(eng.field(ent, F("ExpectedEntry", "value")), None) == bv64(m.vidx("ExpectedValue", "X")))
            for j, c in enumerate(layout.exp_cols):
                ent = eng.elem(exps, bv64(j))
                v = eng.field(ent, F("ExpectedEntry", "value"))
                vt = eng.tag_of(v, None)
                vv = eng.scalar(eng.field(eng.downcast(v, "Value"), 0, "i64"))
                b = bits[layout.sig_of_col[c]]
                TV, TZ, TX = (bv64(m.vidx("ExpectedValue", x)) for x in ("Value", "Z", "X"))
                if not checked or kinds[c] == "X":
                    claims.append(vt == TX)
                elif kinds[c] == "N":
                    claims.append(z3.And(vt == TV, vv == mask_ref(vals[c], b)))
                elif kinds[c] == "Z":
                    claims.append(vt == TZ)
            if not O.prove(p, z3.And(claims), "row %d of the expansion of shape %s is as documented" % (
                    k + 1, "".join(kinds)), facts, scen, judge):
                bad = True
                break
    want = 1
    for c in range(n):
        want *= len(in_kinds) if layout.columns[c] == "in" else len(exp_kinds)
    if len(shapes) != want:
        O.inconclusive("only %d of the %d row shapes of layout '%s' were explored" % (len(shapes), want, layout.name))
    O.note("layout '%s': %d shapes, %d paths" % (layout.name, len(shapes), len(paths)))
    O.rec.setdefault("shapes", 0)
    O.rec["shapes"] += len(shapes)


def expansion_scenario(layout, kinds, values, widths, repeat=1):
    """Public-API scenario for one row shape with literal expectations computed from the property."""
    n = layout.n
    names = ["S%d" % layout.sig_of_col[c] for c in range(n)]            # header names by column
    sigs = []
    hin = tuple(getattr(layout, "hidden_in_at", ()))
    for s in range(n + len(hin)):
        if s in hin:
            sigs.append(("in", "HI%d" % s, 8, 0))
            continue
        col = layout.sig_of_col.index(s)
        w = widths[s] if s < len(widths) and 1 <= widths[s] <= 64 else 1
        if layout.columns[col] == "in":
            sigs.append(("in", "S%d" % s, w, 0))
        else:
            sigs.append(("out", "S%d" % s, w))
    nhid = getattr(layout, "hidden_exp", 0)
    for h in range(nhid):
        sigs.append(("out", "H%d" % h, 8))
    ents = []
    for c in range(n):
        ents.append({"N": "(%s)" % lit(values[c]), "X": "X", "Z": "Z", "C": "C"}[kinds[c]])
    if repeat == 3:
        src = " ".join(names) + "\nrepeat(2) " + " ".join(ents) + "\n"
    else:
        src = " ".join(names) + "\n" + (" ".join(ents) + "\n") * repeat
    ref = reference_expansion(kinds, layout)

    def w_of(c):
        i = layout.sig_of_col[c]
        return widths[i] if i < len(widths) and 1 <= widths[i] <= 64 else 1
    in_order = [x[1:] for x in sorted([(layout.sig_of_col[c], "col", c) for c in layout.input_cols] + [(s_, "hid", s_) for s_ in hin])]

    def masked(c):
        w = w_of(c)
        return str(s64(values[c] & ((1 << w) - 1)) if w < 64 else s64(values[c]))
    row_inputs, row_expected = [], []
    for assign, clk, checked in ref:
        ins = []
        for k_, c in in_order:
            ins.append("0" if k_ == "hid" else {"N": masked(c), "Z": "Z", "X": str(assign.get(c, 0)), "C": str(clk)}[kinds[c]])
        row_inputs.append(ins)
        if checked:
            row_expected.append([{"N": masked(c), "Z": "Z", "X": "X"}[kinds[c]] for c in layout.exp_cols] + ["X"] * nhid)
        else:
            row_expected.append([])
    outs = [s for s in sigs if s[0] == "out"]
    lines = [2] * len(ref)
    if repeat == 2:
        lines = [2] * len(ref) + [3] * len(ref)
        row_inputs, row_expected = row_inputs * 2, row_expected * 2
    elif repeat == 3:
        lines = [2] * len(ref) * 2
        row_inputs, row_expected = row_inputs * 2, row_expected * 2
    return Scenario(src, sigs, default_answer=[0] * len(outs), max_rows=128,
                    expect={"row_inputs": row_inputs, "row_expected": row_expected, "lines": lines},
                    note="layout %s shape %s x%d" % (layout.name, "".join(kinds), repeat))


def two_row_scenarios(layout, first_kinds, kinds, values, widths):
    """Two consecutive source rows (first_kinds, then kinds with the model's values): literal expectations are the
    concatenation of the two documented expansions - the second must not depend on the first."""
    out = []
    for fvals in ([1] * layout.n, [0] * layout.n):
        a = expansion_scenario(layout, list(first_kinds), fvals, widths, 1)
        b = expansion_scenario(layout, list(kinds), values, widths, 1)
        src = a.source + b.source.split("\n", 1)[1]
        exp = {"row_inputs": a.expect["row_inputs"] + b.expect["row_inputs"],
               "row_expected": a.expect["row_expected"] + b.expect["row_expected"],
               "lines": [2] * len(a.expect["lines"]) + [3] * len(b.expect["lines"])}
        out.append(Scenario(src, a.signals, default_answer=a.default_answer, max_rows=128, expect=exp,
                            note="layout %s: row %s then row %s" % (layout.name, "".join(first_kinds), "".join(kinds))))
    return out


DESC = ("get_row sequence for one source row, every combination of Number/X/Z/C entry kinds and all values/widths: rows, "
        "order (leftmost X fastest, 0 before 1), clock triples 0-1-0 with only the third checked, expected X on unchecked "
        "rows, X/Z never expanded in expected columns; layout: ")


def _register(lay, K, tier):
    @obligation("C05/expansion[%s]" % lay.name, profiles=("dev",), tier=tier, desc=DESC + lay.name)
    def _ob(O, lay=lay, K=K):
        run_layout(O, lay, K)
    return _ob


for _lay in LAYOUTS_QUICK:
    _register(_lay, 13, "quick")


@obligation("C05/expansion[after an arbitrary previous row]", profiles=("dev",),
            desc=DESC + "in in exp, executed after an arbitrary previous row (what the iterator remembers of the row before - "
                        "its kinds and values are symbolic - must not change the expansion)")
def _after_prev(O):
    run_layout(O, Layout("in exp after a previous row", ["in", "in", "exp"], [0, 1, 2]), 7, in_kinds=("Number", "C"),
               exp_kinds=("Number", "X"), arbitrary_prev=True)


@obligation("C05/expansion[three inputs, X and numbers]", profiles=("dev",),
            desc=DESC + "three input columns holding X or a number (up to eight assignments from one row)")
def _three_x(O):
    run_layout(O, Layout("three inputs, X and numbers", ["in", "in", "in"], [2, 0, 1]), 10, in_kinds=("Number", "X"))
for _lay in LAYOUTS_THOROUGH:
    _register(_lay, 25, "thorough")


def prev_recorded(O, rep):
    """get_row once on a one-column row: afterwards the iterator remembers exactly that row (what check_changed_entries
    compares the next row with), whether or not the row's IO later succeeds - the IO is not part of get_row."""
    m = O.mir
    F = m.fidx
    eng = O.engine()
    eng.iter_bound = 6
    eng.max_visits = 32
    eng.inline_cyclic = True
    eng.auto_inline_max_blocks = 400
    eng.auto_inline_depth = 12
    eng.models["StmtIterator::next_with_context"] = serve_one_row
    eng.models["StmtIterator::new"] = lambda ctx: ctx.ret(Node(fresh_root("stmtiter"), ty=ctx.dest_ty))
    fn = make_harness_new(1)

    def setup(eng_, st, fr):
        me = eng_.deref(fr.locals[1])
        sig = build.struct([Node("name0", ty="String"), Node("bits0", ty="usize"),
                            build.enum_val(eng_, "SignalType", "Input", [build.sym_enum("def0", "value::InputValue")])], "Signal")
        ii = [build.enum_val(eng_, "EntryIndex", "Entry", [build.usize(0), build.usize(0)])]
        assign_node(eng_.field(me, F("TestCase", "signals")), build.vec_of(eng_, [sig], "Vec<Signal>"))
        assign_node(eng_.field(me, F("TestCase", "input_indices")), build.vec_of(eng_, ii, "Vec<EntryIndex>"))
        assign_node(eng_.field(me, F("TestCase", "expected_indices")), build.vec_of(eng_, [], "Vec<EntryIndex>"))
        e = build.sym_enum("e0", "stmt::DataEntry")
        t = eng_.tag_of(e, st)
        st.pc.append(z3.Or([t == bv64(m.vidx("DataEntry", k)) for k in ("Number", "Z")]))
        b = eng_.scalar(eng_.field(sig, F("Signal", "bits"), "usize"))
        st.pc.append(z3.And(z3.UGE(b, bv64(1)), z3.ULE(b, bv64(64))))
        row = build.struct([build.vec_of(eng_, [e], "Vec<stmt::DataEntry>"), build.usize(LINE), mk_bool(z3.BoolVal(True))],
                           "stmt::DataEntries")
        st.extra["row"] = row
        st.extra["served"] = mk_bool(z3.BoolVal(False))
    paths = O.explore(eng, fn, setup=setup)
    tag0 = z3.BitVec("e0.tag", 64)
    val0 = z3.BitVec("e0#Number.0", 64)
    ok = [p for p in paths if p.outcome == "return"]
    O.witness(ok, "get_row returns a row")
    for p in paths:
        eng.focus(p)
        if p.outcome != "return":
            rep.fail(O, p, "get_row: %s %s" % (p.outcome, p.detail))
            continue
        td = p.state.frames[0].locals[3]
        prev = eng.field(td, F("DataRowIteratorTestData", "prev"))
        some = eng.downcast(prev, "Some")
        v = eng.field(some, 0)
        sl = vec_slice(eng, v)
        e0 = eng.elem(sl, bv64(0))
        NUM = bv64(m.vidx("DataEntry", "Number"))
        claim = z3.And(eng.tag_of(prev, None) == bv64(1), eng.length(sl) == bv64(1), eng.tag_of(e0, None) == tag0,
                       z3.Implies(tag0 == NUM, eng.scalar(eng.field(eng.downcast(e0, "Number"), 0, "i64")) == val0))
        rep.prove(O, p, claim, "after get_row the iterator remembers the row it has just produced")


@obligation("C05/rows-are-written", profiles=("dev",),
            desc="every row get_row yields is handed to the device: next() performs the row's IO and handle_io makes exactly "
                 "one driver call per row (write-only for the two mid-clock rows), whatever the row's changed flags say - so a "
                 "clock triple is three device writes")
def rows_are_written(O):
    from . import C02, dri
    from . import batteries as B_
    W = dri.WithRep(O, dri.Rep({"family": "protocol"}, B_.protocol_battery(), B_.protocol_judge))
    C02.handle_io(W)
    C02.next_core(W, None)


@obligation("C05/expansion[after a clocked row with other clock columns]", profiles=("dev",),
            desc=DESC + "two input columns and an expected column, executed AFTER a source row `C C n` - which columns are "
                 "pulsed, held or enumerated is decided by the row itself, not by an earlier row")
def _after_clocked(O):
    # quick tier: the second row ranges over Number / X / C inputs and Number / X expected (18 shapes); Z too in thorough
    if O.tier == "thorough":
        run_layout(O, LAYOUTS_QUICK[0], 11, first_kinds=("C", "C", "N"))
    else:
        run_layout(O, LAYOUTS_QUICK[0], 11, in_kinds=("Number", "X", "C"), exp_kinds=("Number", "X"), first_kinds=("C", "C", "N"))


@obligation("C05/expansion[after a row with X inputs]", profiles=("dev",), tier="thorough",
            desc=DESC + "two input columns and an expected column, executed AFTER a source row `X C n`")
def _after_x(O):
    run_layout(O, LAYOUTS_QUICK[0], 17, first_kinds=("X", "C", "N"))


def fault_expansion_battery():
    """A driver error on one write of an expansion: the error is that row's item, the rest of the expansion still runs."""
    S = [("in", "CLK", 1, 0), ("in", "A", 1, 0), ("in", "B", 1, 0), ("out", "Y", 8)]
    b = []
    b.append(Scenario("A B Y\nX X 1\n0 0 1\n", S, default_answer=[1], fail_at=[2], stop_on_err=False, max_rows=40,
                      expect={"row_inputs": [["0", "0", "0"], ["0", "0", "1"], ["0", "1", "1"], ["0", "0", "0"]],
                              "items": ["row", "err", "row", "row", "row"]},
                      note="driver error on the second of four X assignments: the other assignments still run"))
    b.append(Scenario("CLK A Y\nC 1 1\n0 0 1\n", S, default_answer=[1], fail_at=[1], stop_on_err=False, max_rows=40,
                      expect={"row_inputs": [["1", "1", "0"], ["0", "1", "0"], ["0", "0", "0"]], "items": ["err", "row", "row", "row"]},
                      note="driver error on the clock-low write: the clock is still pulsed and the row compared"))
    b.append(Scenario("CLK A Y\nC 1 1\n0 0 1\n", S, default_answer=[1], fail_at=[2], stop_on_err=False, max_rows=40,
                      expect={"row_inputs": [["0", "1", "0"], ["0", "1", "0"], ["0", "0", "0"]], "items": ["row", "err", "row", "row"]},
                      note="driver error on the clock-high write: the compared row still follows"))
    b.append(Scenario("CLK A Y\nC X 1\n", S, default_answer=[1], fail_at=[4], stop_on_err=False, max_rows=40,
                      expect={"row_inputs": [["0", "0", "0"], ["1", "0", "0"], ["0", "0", "0"], ["1", "1", "0"], ["0", "1", "0"]],
                              "items": ["row", "row", "row", "err", "row", "row"]},
                      note="driver error at the start of the second clock triple of an X expansion"))
    return b


@obligation("C05/expansion-survives-faults", profiles=("dev",),
            desc="next / handle_io store nothing into the iterator themselves and call nothing but get_row / handle_io / "
                 "into_data_row resp. the driver, set_outputs, extract_output_values - on the error arms too: the rows of an "
                 "expansion that are still queued when one write fails are executed all the same")
def expansion_survives_faults(O):
    from . import dri
    dri.glue_keeps_state(O, dri.Rep({"family": "expansion"}, fault_expansion_battery(), B.literal_judge))


@obligation("C05/provided-write-forwards", profiles=("dev",),
            desc="the provided TestDriver::write_input forwards every call, once, with the same inputs, to the output-reading call "
                 "- whatever the changed flags say - so a driver that does not override it still sees all three phases of a clock row")
def provided_write_forwards(O):
    from . import dri
    dri.default_write_input(O, dri.Rep({"family": "expansion"}, B.protocol_battery(), B.protocol_judge))


def wide_scenarios():
    """more than 64 header columns: input column j and expected column 64 + j must not be confused (masks by column number)"""
    out = []
    for ncol_in in (65, 70):
        ins = ["I%d" % i for i in range(ncol_in)]
        outs = ["O%d" % i for i in range(4)]
        sigs = [("in", n_, 1, 0) for n_ in ins] + [("out", n_, 8) for n_ in outs]
        row = ["0"] * ncol_in + ["X", "1", "X", "2"]
        row[1] = "1"
        src = " ".join(ins + outs) + "\n" + " ".join(row) + "\n"
        want_in = ["0"] * ncol_in
        want_in[1] = "1"
        out.append(Scenario(src, sigs, default_answer=[0, 1, 0, 2], max_rows=40,
                            expect={"row_inputs": [want_in], "row_expected": [["X", "1", "X", "2"]]},
                            note="%d input columns, X in expected columns beyond column 64: one row, nothing expanded" % ncol_in))
        row2 = list(row)
        row2[0] = "X"
        w0, w1 = list(want_in), list(want_in)
        w1[0] = "1"
        out.append(Scenario(" ".join(ins + outs) + "\n" + " ".join(row2) + "\n", sigs, default_answer=[0, 1, 0, 2], max_rows=40,
                            expect={"row_inputs": [w0, w1], "row_expected": [["X", "1", "X", "2"]] * 2},
                            note="%d input columns, X in input column 0 and in expected columns beyond 64: two rows" % ncol_in))
    return out
