"""C06 - values are bound to signals by header name; every row is a complete vector; `changed` flags."""
import z3

from ..oblig import obligation
from ..sym import bv64, Node, BV64
from ..models import vec_slice
from .. import build
from .common import initial, mval, T
from . import batteries as B
from . import dri


def rep():
    from .refmodel import with_reference
    return with_reference(dri.Rep({"family": "binding"}, B.binding_battery(), B.binding_judge), ("expansion",))


BI_DESC = ("build_indices (2 signals x 2 header columns, symbolic names as identities): per signal, in signal order - "
           "input-capable: one input index from the first column of that name else Default; bidirectional: one expected index "
           "from the first column `<name>_out` else Default (never from `<name>`); output/virtual: one expected index from "
           "column `<name>` else Default; inputs get no expected entry; first signal is ")


def _reg_bi(kind):
    @obligation("C06/build-indices[%s]" % kind, desc=BI_DESC + kind)
    def _ob(O, kind=kind):
        build_indices(O, kind)
    return _ob


for _k in ("Input", "Output", "Bidirectional", "Virtual"):
    _reg_bi(_k)


def build_indices(O, first_kind, R=None):
    m = O.mir
    R = R or rep()
    fn = O.find("::build_indices")
    eng = O.engine()
    eng.iter_bound = 3
    eng.max_visits = 8
    NS, NC = 2, 2
    from ..itermodels import str_id

    def setup(eng_, st, fr):
        me = eng_.deref(fr.locals[1])
        cols = [Node("col%d" % c, ty="String") for c in range(NC)]
        sigv = eng_.field(me, m.fidx("ParsedTestCase", "signals"))
        from ..sym import assign_node
        assign_node(sigv, build.vec_of(eng_, cols, "Vec<String>"))
        sigs = [build.struct([Node("name%d" % s, ty="String"), Node("bits%d" % s, ty="usize"), Node("typ%d" % s, ty="SignalType")], "Signal")
                for s in range(NS)]
        fr.locals[2].target = build.slice_of_items(sigs, "[Signal]")
        for s in range(NS):
            eng_.tag_of(sigs[s].fields[2], st)
        st.pc.append(z3.BitVec("typ0.tag", 64) == bv64(m.vidx("SignalType", first_kind)))
    paths = O.explore(eng, fn, setup=setup)
    rets = [p for p in paths if p.outcome == "return"]
    O.witness(rets, "build_indices returns")
    col = [z3.BitVec("col%d.sid" % c, 64) for c in range(NC)]
    name = [z3.BitVec("name%d.sid" % s, 64) for s in range(NS)]
    typ = [z3.BitVec("typ%d.tag" % s, 64) for s in range(NS)]
    concat = z3.Function("str_concat", BV64, BV64, BV64)
    import zlib
    out_lit = bv64(zlib.crc32(b"_out") | (1 << 62) | (4 << 32))
    TI, TO, TB, TV = (m.vidx("SignalType", k) for k in ("Input", "Output", "Bidirectional", "Virtual"))
    E_ENTRY, E_DEF = bv64(m.vidx("EntryIndex", "Entry")), bv64(m.vidx("EntryIndex", "Default"))
    shapes = set()
    for p in paths:
        eng.focus(p)
        if p.outcome == "panic":
            R.fail(O, p, "build_indices panics: %s" % p.detail)
            continue
        if p.outcome == "cut":
            O.inconclusive("loop bound too small in build_indices (%s)" % p.detail)
            continue
        if p.outcome != "return":
            continue
        res, mod = O.solve(list(p.pc))
        if res != "sat":
            continue
        kinds = [mval(mod, t, False) for t in typ]
        pinned = all(O.solve(list(p.pc) + [typ[s] != bv64(kinds[s])], want_model=False)[0] == "unsat" for s in range(NS))
        if not pinned:
            O.inconclusive("a path does not pin the signal directions")
            continue
        shapes.add(tuple(kinds))
        ins = vec_slice(eng, eng.field(p.ret, 0))
        exps = vec_slice(eng, eng.field(p.ret, 1))
        want_in = [s for s in range(NS) if kinds[s] in (TI, TB)]
        want_exp = [s for s in range(NS) if kinds[s] in (TO, TB, TV)]
        if not R.prove(O, p, z3.And(eng.length(ins) == bv64(len(want_in)), eng.length(exps) == bv64(len(want_exp))),
                       "one input index per input-capable signal and one expected index per output-capable/virtual signal"):
            continue

        def index_claim(ent, s, key_of_col):
            """ent is EntryIndex for signal s; key_of_col(c) = bool term 'column c is the column to use'."""
            et = eng.tag_of(ent, None)
            ei = eng.scalar(eng.field(eng.downcast(ent, "Entry"), 0, "usize"))
            si_e = eng.scalar(eng.field(eng.downcast(ent, "Entry"), 1, "usize"))
            si_d = eng.scalar(eng.field(eng.downcast(ent, "Default"), 0, "usize"))
            cs = []
            for c in range(NC):
                first = z3.And([z3.Not(key_of_col(j)) for j in range(c)] + [key_of_col(c)])
                cs.append(z3.Implies(first, z3.And(et == E_ENTRY, ei == bv64(c), si_e == bv64(s))))
            none = z3.And([z3.Not(key_of_col(c)) for c in range(NC)])
            cs.append(z3.Implies(none, z3.And(et == E_DEF, si_d == bv64(s))))
            return z3.And(cs)
        for j, s in enumerate(want_in):
            R.prove(O, p, index_claim(eng.elem(ins, bv64(j)), s, lambda c, s=s: col[c] == name[s]),
                    "input index of a signal comes from the first header column of that name, else Default")
        for j, s in enumerate(want_exp):
            if kinds[s] == TB:
                key = lambda c, s=s: col[c] == concat(name[s], out_lit)
                txt = "expected index of a bidirectional signal comes from `<name>_out` only, else Default"
            else:
                key = lambda c, s=s: col[c] == name[s]
                txt = "expected index of an output/virtual signal comes from the column of that name, else Default"
            R.prove(O, p, index_claim(eng.elem(exps, bv64(j)), s, key), txt)
    if len(shapes) != 4:
        O.inconclusive("only %d of 4 direction combinations explored" % len(shapes))
    O.note("2 signals x 2 columns, %d direction combinations, %d paths" % (len(shapes), len(paths)))


def _closure_env(eng, p):
    return eng.deref(p.args.fields[1])


@obligation("C06/input-entry", desc="generate_input_entries closure: Entry index -> the signal of the index, changed flag of "
            "THAT header column (changed[entry_index]); Default index -> the signal's default value, changed = false")
def input_entry(O):
    m = O.mir
    R = rep()
    fn = O.find("::generate_input_entries::{closure#0}")
    eng = O.engine()
    eng.keep_events(r"default_value$")
    paths = O.explore(eng, fn)
    idx0 = eng.deref(initial(fn, 2))
    tag0 = eng.tag_of(idx0, None)
    E_ENTRY, E_DEF = bv64(m.vidx("EntryIndex", "Entry")), bv64(m.vidx("EntryIndex", "Default"))
    rets = [p for p in paths if p.outcome == "return"]
    O.witness(rets, "Entry arm", [tag0 == E_ENTRY])
    O.witness(rets, "Default arm", [tag0 == E_DEF])
    for p in rets:
        eng.focus(p)
        env = _closure_env(eng, p)
        signals = eng.deref(eng.field(env, 0))
        changed = eng.deref(eng.field(env, 2))
        idx = eng.deref(p.args.fields[2])
        ei = eng.scalar(eng.field(eng.downcast(idx, "Entry"), 0, "usize"))
        si = eng.scalar(eng.field(eng.downcast(idx, "Entry"), 1, "usize"))
        sd = eng.scalar(eng.field(eng.downcast(idx, "Default"), 0, "usize"))
        ch = eng.scalar(eng.field(p.ret, m.fidx("InputEntry", "changed"), "bool"))
        sig = T(eng, eng.field(p.ret, m.fidx("InputEntry", "signal")))
        r, _ = O.solve(list(p.pc) + [tag0 == E_ENTRY], want_model=False)
        if r == "sat":
            R.prove(O, p, ch == eng.scalar(eng.elem(changed, ei), "bool"),
                    "changed flag is the one of the entry's own header column", extra=[tag0 == E_ENTRY])
            if sig is not eng.elem(signals, si):
                R.fail(O, p, "Entry: the input entry does not name the signal of its index", extra=[tag0 == E_ENTRY])
        r, _ = O.solve(list(p.pc) + [tag0 == E_DEF], want_model=False)
        if r == "sat":
            cond = [tag0 == E_DEF]
            R.prove(O, p, z3.Not(ch), "inputs omitted from the header are never flagged as changed", extra=cond)
            if sig is not eng.elem(signals, sd):
                R.fail(O, p, "Default: the input entry does not name the signal of its index", extra=cond)
            dv = p.calls(r"default_value$")
            if len(dv) != 1 or T(eng, dv[0].args[0]) is not sig:
                R.fail(O, p, "Default: the value is not taken from the signal's own default", extra=cond)
                continue
            val = eng.field(p.ret, m.fidx("InputEntry", "value"))
            some = eng.field(eng.downcast(dv[0].ret, "Some"), 0)
            if not (val.root == some.root and val.path == some.path):
                R.fail(O, p, "Default: the value handed to the driver is not the signal's default", extra=cond)


@obligation("C06/expected-entry", desc="generate_expected_entries closure: Default index -> X for the signal of the index; "
            "Entry index -> the signal of the index")
def expected_entry(O):
    m = O.mir
    R = rep()
    fn = O.find("::generate_expected_entries::{closure#0}")
    eng = O.engine()
    paths = O.explore(eng, fn)
    idx0 = eng.deref(initial(fn, 2))
    tag0 = eng.tag_of(idx0, None)
    E_ENTRY, E_DEF = bv64(m.vidx("EntryIndex", "Entry")), bv64(m.vidx("EntryIndex", "Default"))
    rets = [p for p in paths if p.outcome == "return"]
    O.witness(rets, "Default arm", [tag0 == E_DEF])
    for p in rets:
        eng.focus(p)
        env = _closure_env(eng, p)
        signals = eng.deref(eng.field(env, 0))
        idx = eng.deref(p.args.fields[2])
        si = eng.scalar(eng.field(eng.downcast(idx, "Entry"), 1, "usize"))
        sd = eng.scalar(eng.field(eng.downcast(idx, "Default"), 0, "usize"))
        sig = T(eng, eng.field(p.ret, m.fidx("ExpectedEntry", "signal")))
        r, _ = O.solve(list(p.pc) + [tag0 == E_DEF], want_model=False)
        if r == "sat":
            v = eng.field(p.ret, m.fidx("ExpectedEntry", "value"))
            R.prove(O, p, eng.tag_of(v, None) == bv64(m.vidx("ExpectedValue", "X")),
                    "a signal without a header column expects X", extra=[tag0 == E_DEF])
            if sig is not eng.elem(signals, sd):
                R.fail(O, p, "Default: the expected entry does not name the signal of its index", extra=[tag0 == E_DEF])
        r, _ = O.solve(list(p.pc) + [tag0 == E_ENTRY], want_model=False)
        if r == "sat" and sig is not eng.elem(signals, si):
            R.fail(O, p, "Entry: the expected entry does not name the signal of its index", extra=[tag0 == E_ENTRY])


@obligation("C06/changed-flags", desc="check_changed_entries (<= 2 evaluated entries of kind Number/X/Z/C): flag k is true "
            "iff entry k differs from the previous row's entry k; all true when there is no previous row")
def changed_flags(O):
    m = O.mir
    R = rep()
    fn = O.find("::check_changed_entries")
    eng = O.engine()
    eng.iter_bound = 3
    N = 2

    def setup(eng_, st, fr):
        me = eng_.deref(fr.locals[1])
        news = [Node("new%d" % k, ty="stmt::DataEntry") for k in range(N)]
        olds = [Node("old%d" % k, ty="stmt::DataEntry") for k in range(N)]
        fr.locals[2].target = build.slice_of_items(news, "[stmt::DataEntry]")
        prev = eng_.field(me, m.fidx("DataRowIteratorTestData", "prev"))
        some = build.enum_val(eng_, "Option", "Some", [build.vec_of(eng_, olds, "Vec<stmt::DataEntry>")])
        from ..sym import assign_node
        st.extra["some_prev"] = some
        # prev is either None or Some(olds): symbolic tag, concrete payload
        prev.tag = z3.BitVec("prev.tag", 64)
        prev.variants = some.variants
        st.pc.append(z3.ULT(prev.tag, bv64(2)))
        for e in news + olds:
            t = eng_.tag_of(e, st)
            st.pc.append(z3.Or([t == bv64(m.vidx("DataEntry", k)) for k in ("Number", "X", "Z", "C")]))
    paths = O.explore(eng, fn, setup=setup)
    O.witness([p for p in paths if p.outcome == "return"], "check_changed_entries returns")
    ptag = z3.BitVec("prev.tag", 64)
    NUM = bv64(m.vidx("DataEntry", "Number"))
    for p in paths:
        eng.focus(p)
        if p.outcome == "panic":
            R.fail(O, p, "check_changed_entries panics: %s" % p.detail)
            continue
        if p.outcome != "return":
            continue
        out = vec_slice(eng, p.ret)
        if not R.prove(O, p, eng.length(out) == bv64(N), "one flag per entry"):
            continue
        for k in range(N):
            nt, ot = z3.BitVec("new%d.tag" % k, 64), z3.BitVec("old%d.tag" % k, 64)
            nv, ov = z3.BitVec("new%d#Number.0" % k, 64), z3.BitVec("old%d#Number.0" % k, 64)
            same = z3.And(nt == ot, z3.Implies(nt == NUM, nv == ov))
            flag = eng.scalar(eng.elem(out, bv64(k)), "bool")
            R.prove(O, p, z3.And(z3.Implies(ptag == bv64(0), flag), z3.Implies(ptag == bv64(1), flag == z3.Not(same))),
                    "flag %d is true iff the entry differs from the previous row (always true for the first row)" % k)


@obligation("C06/previous-row-recorded", desc="get_row (through the crate's own constructor, one input column): the row just "
            "produced is what the iterator remembers for the next row's changed flags - recorded when the row is produced, "
            "i.e. before and independent of that row's driver call")
def previous_row_recorded(O):
    from . import C05
    C05.prev_recorded(O, rep())


@obligation("C06/rows-by-name[output column first]", desc="get_row sequences for the header `out in` against the signal list "
            "`in out` (every kind combination, all values and widths): each column's entry goes to the signal of that name - an "
            "X under the output's name is an expected X, an X / C under the input's name is expanded")
def rows_by_name(O):
    from . import C05
    C05.run_layout(O, C05.Layout("exp in", ["exp", "in"], [1, 0]), 7, rep=rep())


@obligation("C06/previous-vector-survives-faults", desc="next / handle_io store nothing into the iterator themselves (error arms "
            "included): the remembered previous input vector, against which `changed` is computed, is the one get_row "
            "recorded - also after a row whose driver call failed")
def previous_survives(O):
    dri.glue_keeps_state(O, rep())
