"""Exact summaries of `core`/`alloc` functions (closed list) for mirsym.

Every model is part of the trusted base and is listed in the evidence by name.
A model receives a CallCtx and either returns True (continue straight-line in the same state)
or forks via ctx.fork(...) and returns None.
"""
import re
import z3

from . import mirparse
from .sym import (Node, Cut, Unsupported, copy_node, assign_node, mk_scalar, mk_bool, mk_usize, mk_unit, mk_ref,
                  fresh_root, bv64, BV64, strip_ref, elem_ty, type_head, scalar_kind, strip_lifetimes,
                  strip_turbofish, Event, short_name)


class CallCtx:
    def __init__(self, eng, st, frame, dest, dest_ty, ret_bb, callee, norm, args, site):
        self.eng = eng
        self.st = st
        self.frame = frame
        self.dest = dest
        self.dest_ty = dest_ty
        self.ret_bb = ret_bb
        self.callee = callee
        self.norm = norm
        self.args = args
        self.site = site

    def ret(self, node):
        if self.ret_bb is None:
            raise Cut("panic", "diverging call returned: " + self.norm)
        if self.dest is not None:
            dst = self.eng.place(self.st, self.frame, self.dest)
            assign_node(dst, node)
            if dst.ty is None:
                dst.ty = self.dest_ty
        self.frame.bb = self.ret_bb
        return True

    def panic(self, msg):
        raise Cut("panic", msg)

    def event(self, norm=None, args=None, kind="call"):
        ret = Node(fresh_root("c"), ty=self.dest_ty)
        ev = Event(self.callee, norm or self.norm, [copy_node(a) for a in (args if args is not None else self.args)],
                   ret, self.site, len(self.st.frames), kind)
        self.st.trace.append(ev)
        return ev

    def fork(self, alts):
        """alts: [(cond, fn(ctx2))]; each fn must return like a model (True => keep running)."""
        holder = Node("callargs")
        holder.fields = {i: a for i, a in enumerate(self.args)}
        self.st.extra["_call"] = holder
        eng = self.eng
        outer = self

        def mk(fn):
            def cont(s2):
                eng.cur_state = s2
                h = s2.extra.pop("_call")
                c2 = CallCtx(eng, s2, s2.frames[-1], outer.dest, outer.dest_ty, outer.ret_bb, outer.callee,
                             outer.norm, [h.fields[i] for i in range(len(outer.args))], outer.site)
                try:
                    r = fn(c2)
                except Cut as c:
                    eng._end(s2, c.outcome, c.detail, c.ret, site=outer.site)
                    return
                except Unsupported as e:
                    eng._end(s2, "unsupported", str(e), site=outer.site)
                    return
                if r:
                    eng._run(s2)
            return cont

        # NB: the holder must be present in every clone; _fork clones before running continuations
        eng._fork(self.st, [(c, mk(f)) for c, f in alts])
        return None


def generic_args(text):
    """`<Result<A, B> as Try>::branch` -> inside first <...>: (self_ty, trait)"""
    t = text.strip()
    if not t.startswith("<"):
        return None, None
    j = mirparse.scan_balanced(t, 1, ">")
    inside = t[1:j]
    k = 0
    while k < len(inside):
        m = mirparse.scan_balanced(inside, k, " ")
        if m >= len(inside):
            break
        if inside.startswith(" as ", m):
            return inside[:m].strip(), inside[m + 4:].strip()
        k = m + 1
    return inside.strip(), None


def type_params(ty):
    """`Result<A, B>` -> ['A', 'B']"""
    ty = ty.strip()
    i = mirparse.scan_balanced(ty, 0, "<")
    if i >= len(ty):
        return []
    j = mirparse.scan_balanced(ty, i + 1, ">")
    return mirparse.split_top(ty[i + 1:j])


def turbofish_params(callee):
    """`Option::<InputValue>::unwrap` -> ['InputValue'] (first turbofish group)."""
    i = callee.find("::<")
    while i >= 0 and callee.startswith("::<impl ", i):
        i = callee.find("::<", i + 3)
    if i < 0:
        return []
    j = mirparse.scan_balanced(callee, i + 3, ">")
    return mirparse.split_top(callee[i + 3:j])


def norm_ty(ty):
    """Comparable form of a type: lifetimes and module paths removed."""
    if ty is None:
        return None
    t = strip_lifetimes(ty)
    t = re.sub(r"\b(?:[a-z_][a-z_0-9]*::)+", "", t)
    return t.replace(" ", "")


def mk_enum(eng, head, variant, payload_nodes, ty=None):
    n = Node(fresh_root("e"), ty=ty or head)
    idx = eng.variant_index(head, variant)
    if idx is None:
        raise Unsupported("unknown variant %s::%s" % (head, variant))
    n.tag = bv64(idx)
    p = Node(fresh_root("p"), ty=n.ty)
    p.fields = {i: x for i, x in enumerate(payload_nodes)}
    n.variants = {variant: p}
    return n


def payload(eng, node, variant, idx=0, ty=None):
    return eng.field(eng.downcast(node, variant), idx, ty)


# ------------------------------------------------------------------ Try / FromResidual

def m_result_branch(ctx):
    eng = ctx.eng
    self_ty, _ = generic_args(ctx.callee)
    tps = type_params(self_ty) if self_ty else []
    t_ok = tps[0] if len(tps) > 0 else None
    t_err = tps[1] if len(tps) > 1 else None
    r = ctx.args[0]
    if r.ty is None:
        r.ty = self_ty
    out = Node(fresh_root("cf"), ty=ctx.dest_ty or "ControlFlow")
    out.tag = eng.tag_of(r, ctx.st)
    cont = Node(fresh_root("p"))
    cont.fields = {0: payload(eng, r, "Ok", 0, t_ok)}
    brk = Node(fresh_root("p"))
    resid = mk_enum(eng, "Result", "Err", [payload(eng, r, "Err", 0, t_err)],
                    ty="Result<Infallible, %s>" % t_err)
    brk.fields = {0: resid}
    out.variants = {"Continue": cont, "Break": brk}
    return ctx.ret(out)


def m_option_branch(ctx):
    eng = ctx.eng
    self_ty, _ = generic_args(ctx.callee)
    tps = type_params(self_ty) if self_ty else []
    r = ctx.args[0]
    if r.ty is None:
        r.ty = self_ty
    out = Node(fresh_root("cf"), ty=ctx.dest_ty or "ControlFlow")
    tag = eng.tag_of(r, ctx.st)
    out.tag = z3.If(tag == bv64(1), bv64(0), bv64(1))
    cont = Node(fresh_root("p"))
    cont.fields = {0: payload(eng, r, "Some", 0, tps[0] if tps else None)}
    brk = Node(fresh_root("p"))
    none = Node(fresh_root("e"), ty="Option<Infallible>")
    none.tag = bv64(0)
    none.variants = {}
    brk.fields = {0: none}
    out.variants = {"Continue": cont, "Break": brk}
    return ctx.ret(out)


def find_from_impl(eng, src_ty, dst_ty):
    """Crate-local `impl From<src> for dst` body in the dump, or None."""
    s = norm_ty(src_ty)
    d = norm_ty(dst_ty)
    dh = type_head(d)
    cands = []
    for name, fn in eng.funcs.items():
        if not name.endswith("::from") or len(fn.params) != 1:
            continue
        if type_head(norm_ty(fn.ret_ty)) != dh:
            continue
        p = norm_ty(fn.params[0][1])
        if p == s or re.fullmatch(r"[A-Z]", p) or type_head(p) == type_head(s):
            cands.append(fn)
    if len(cands) == 1:
        return cands[0]
    exact = [c for c in cands if norm_ty(c.params[0][1]) == s]
    if len(exact) == 1:
        return exact[0]
    return None


def convert_error(ctx, e, src_ty, dst_ty, dest_node):
    """Write From::from(e) into dest_node. Returns target Function if an inline frame must be entered."""
    eng = ctx.eng
    if norm_ty(src_ty) == norm_ty(dst_ty):
        assign_node(dest_node, e)
        return None
    target = find_from_impl(eng, src_ty, dst_ty)
    if target is not None:
        return target
    ev = ctx.event("From::from[%s -> %s]" % (norm_ty(src_ty), norm_ty(dst_ty)), [e])
    assign_node(dest_node, ev.ret)
    dest_node.ty = dst_ty
    return None


def m_result_from_residual(ctx):
    eng = ctx.eng
    self_ty, trait = generic_args(ctx.callee)
    tps = type_params(self_ty)
    dst_err = tps[1] if len(tps) > 1 else None
    rps = type_params(trait) if trait else []
    src_err = None
    if rps:
        inner = type_params(rps[0])
        if len(inner) > 1:
            src_err = inner[1]
    res = ctx.args[0]
    e = payload(eng, res, "Err", 0, src_err)
    slot = Node(fresh_root("cv"), ty=dst_err)
    out = mk_enum(eng, "Result", "Err", [slot], ty=self_ty)
    target = convert_error(ctx, e, src_err, dst_err, slot)
    if target is None:
        return ctx.ret(out)
    # return `out` first (its Err payload node is the destination of the inlined `from`)
    if ctx.ret_bb is None:
        raise Cut("panic", "diverging from_residual")
    dst = eng.place(ctx.st, ctx.frame, ctx.dest)
    assign_node(dst, out)
    real_slot = dst.variants["Err"].fields[0]
    return eng.enter_node(ctx.st, ctx.frame, target, [copy_node(e)], real_slot, ctx.ret_bb, "From::from")


def m_option_from_residual(ctx):
    none = Node(fresh_root("e"), ty=ctx.dest_ty or "Option")
    none.tag = bv64(0)
    none.variants = {}
    return ctx.ret(none)


# ------------------------------------------------------------------ Option / Result

def _opt_tag(ctx, o, head):
    if o.ty is None:
        o.ty = head
    return ctx.eng.tag_of(o, ctx.st)


def m_unwrap(head, good, what):
    good_idx = {"Some": 1, "Ok": 0}[good]

    def model(ctx):
        o = ctx.args[0]
        tag = _opt_tag(ctx, o, head)
        tps = turbofish_params(ctx.callee)
        msg = what
        if len(ctx.args) > 1 and ctx.args[1].target is not None and isinstance(ctx.args[1].target.conc, str):
            msg = "%s: %s" % (what, ctx.args[1].target.conc)

        def bad(c2):
            c2.panic(msg)

        def ok(c2):
            v = payload(c2.eng, c2.args[0], good, 0, tps[0] if tps else None)
            return c2.ret(copy_node(v))

        return ctx.fork([(tag != bv64(good_idx), bad), (tag == bv64(good_idx), ok)])
    return model


def m_option_is(which):
    def model(ctx):
        o = strip_to_value(ctx, ctx.args[0])
        tag = _opt_tag(ctx, o, "Option")
        return ctx.ret(mk_bool(tag == bv64(1) if which == "some" else tag == bv64(0)))
    return model


def m_result_is(which):
    def model(ctx):
        o = strip_to_value(ctx, ctx.args[0])
        tag = _opt_tag(ctx, o, "Result")
        return ctx.ret(mk_bool(tag == bv64(0) if which == "ok" else tag == bv64(1)))
    return model


def strip_to_value(ctx, n):
    """`&Option<T>` argument -> the Option node."""
    if n.ty and strip_ref(n.ty) is not None and not n.ty.startswith("Box"):
        return ctx.eng.deref(n)
    if n.target is not None and n.tag is None and n.variants is None:
        return n.target
    return n


def m_option_unwrap_or(ctx):
    o, d = ctx.args
    tag = _opt_tag(ctx, o, "Option")
    tps = turbofish_params(ctx.callee)

    def some(c2):
        return c2.ret(copy_node(payload(c2.eng, c2.args[0], "Some", 0, tps[0] if tps else None)))

    def none(c2):
        return c2.ret(copy_node(c2.args[1]))

    return ctx.fork([(tag == bv64(1), some), (tag == bv64(0), none)])


def m_result_unwrap_or(ctx):
    o, d = ctx.args
    tag = _opt_tag(ctx, o, "Result")
    tps = turbofish_params(ctx.callee)

    def ok(c2):
        return c2.ret(copy_node(payload(c2.eng, c2.args[0], "Ok", 0, tps[0] if tps else None)))

    def err(c2):
        return c2.ret(copy_node(c2.args[1]))

    return ctx.fork([(tag == bv64(0), ok), (tag == bv64(1), err)])


def m_int_try_from(ctx):
    """<D as TryFrom<S>>::try_from(v) for primitive integers: Ok(v as D) iff v is representable in D, else Err(_)."""
    eng = ctx.eng
    mt = re.search(r"<([iu](?:8|16|32|64|128|size)) as TryFrom<([iu](?:8|16|32|64|128|size))>>::try_from", ctx.callee.replace("std::convert::", ""))
    if not mt:
        raise Unsupported("integer try_from without concrete types: %s" % ctx.callee)
    dty, sty = mt.group(1), mt.group(2)
    dk, sk = scalar_kind(dty), scalar_kind(sty)
    dw, dsg, sw, ssg = dk[1], dk[2], sk[1], sk[2]
    a = ctx.args[0]
    if a.ty is None:
        a.ty = sty
    v = eng.scalar(a, sty)
    # compare in a width that holds both ranges
    W = max(dw, sw) + 1
    ve = z3.SignExt(W - sw, v) if ssg else z3.ZeroExt(W - sw, v)
    lo = z3.BitVecVal(-(1 << (dw - 1)) if dsg else 0, W)
    hi = z3.BitVecVal(((1 << (dw - 1)) - 1) if dsg else ((1 << dw) - 1), W)
    fits = z3.And(ve >= lo, ve <= hi)          # signed comparison in W bits (W exceeds both widths)
    if dw <= sw:
        conv = z3.Extract(dw - 1, 0, v)
    else:
        conv = z3.SignExt(dw - sw, v) if ssg else z3.ZeroExt(dw - sw, v)

    def ok(c2):
        return c2.ret(mk_enum(c2.eng, "Result", "Ok", [mk_scalar(conv, dty)], ty=c2.dest_ty))

    def bad(c2):
        return c2.ret(mk_enum(c2.eng, "Result", "Err", [mk_unit()], ty=c2.dest_ty))

    return ctx.fork([(fits, ok), (z3.Not(fits), bad)])


def m_option_cloned(ctx):
    """Option<&T>::cloned / copied for T: Copy-like (value copy of the pointee)."""
    o = ctx.args[0]
    tag = _opt_tag(ctx, o, "Option")

    def some(c2):
        r = payload(c2.eng, c2.args[0], "Some", 0)
        v = c2.eng.deref(r)
        return c2.ret(mk_enum(c2.eng, "Option", "Some", [copy_node(v)], ty=c2.dest_ty))

    def none(c2):
        n = Node(fresh_root("e"), ty=c2.dest_ty or "Option")
        n.tag = bv64(0)
        n.variants = {}
        return c2.ret(n)

    return ctx.fork([(tag == bv64(1), some), (tag == bv64(0), none)])


def finish_call(eng, st, stash, node):
    """Continuation helper: deliver `node` as the result of the modelled call recorded in stash."""
    frame = st.frames[-1]
    if stash.get("ret_bb") is None:
        raise Cut("panic", "diverging modelled call returned")
    if stash.get("dest") is not None:
        dst = eng.place(st, frame, stash["dest"])
        assign_node(dst, node)
        if dst.ty is None:
            dst.ty = stash.get("dest_ty")
    frame.bb = stash["ret_bb"]
    return True


def call_stash(ctx, **kw):
    d = {"dest": ctx.dest, "dest_ty": ctx.dest_ty, "ret_bb": ctx.ret_bb}
    d.update(kw)
    return d


def m_ok_or_else(ctx):
    """Option::ok_or_else(opt, f): Some(v) -> Ok(v); None -> Err(f())  (closure body executed from the dump)."""
    o, f = ctx.args
    tag = _opt_tag(ctx, o, "Option")

    def some(c2):
        v = payload(c2.eng, c2.args[0], "Some", 0)
        return c2.ret(mk_enum(c2.eng, "Result", "Ok", [copy_node(v)], ty=c2.dest_ty))

    def none(c2):
        def cont(eng, st, stash, ret):
            return finish_call(eng, st, stash, mk_enum(eng, "Result", "Err", [copy_node(ret)], ty=stash["dest_ty"]))
        cl = closure_of(c2.eng, c2.args[1])
        if cl is None:
            raise Unsupported("ok_or_else with a callable that is not a closure of the crate")
        return c2.eng.call_closure(c2.st, cl, [], call_stash(c2), cont)

    return ctx.fork([(tag == bv64(1), some), (tag == bv64(0), none)])


def m_and_then(ctx):
    """Option::and_then(opt, f): None -> None; Some(v) -> f(v) (closure body from the dump)."""
    o, f = ctx.args
    tag = _opt_tag(ctx, o, "Option")
    if closure_of(ctx.eng, f) is None:
        return ctx.eng.uninterpreted(ctx.st, ctx.frame, ctx.dest, ctx.dest_ty, ctx.ret_bb, ctx.callee, ctx.norm,
                                     ctx.args, ctx.site)

    def none(c2):
        n = Node(fresh_root("e"), ty=c2.dest_ty or "Option")
        n.tag = bv64(0)
        n.variants = {}
        return c2.ret(n)

    def some(c2):
        v = copy_node(payload(c2.eng, c2.args[0], "Some", 0))

        def cont(eng, st, stash, ret):
            return finish_call(eng, st, stash, copy_node(ret))
        return c2.eng.call_closure(c2.st, closure_of(c2.eng, c2.args[1]), [v], call_stash(c2), cont)

    return ctx.fork([(tag == bv64(0), none), (tag == bv64(1), some)])


def m_ok_or(ctx):
    o, e = ctx.args
    tag = _opt_tag(ctx, o, "Option")

    def some(c2):
        v = payload(c2.eng, c2.args[0], "Some", 0)
        return c2.ret(mk_enum(c2.eng, "Result", "Ok", [copy_node(v)], ty=c2.dest_ty))

    def none(c2):
        return c2.ret(mk_enum(c2.eng, "Result", "Err", [copy_node(c2.args[1])], ty=c2.dest_ty))

    return ctx.fork([(tag == bv64(1), some), (tag == bv64(0), none)])


def m_map_err(ctx):
    """Result::map_err(r, f): Ok(v) -> Ok(v); Err(e) -> Err(f(e)) with f a closure in the dump or a ctor."""
    r, f = ctx.args
    tag = _opt_tag(ctx, r, "Result")
    ctor = _ctor_of(f)
    if ctor is None and closure_of(ctx.eng, f) is None:
        return ctx.eng.uninterpreted(ctx.st, ctx.frame, ctx.dest, ctx.dest_ty, ctx.ret_bb, ctx.callee, ctx.norm,
                                     ctx.args, ctx.site)

    def ok(c2):
        v = payload(c2.eng, c2.args[0], "Ok", 0)
        return c2.ret(mk_enum(c2.eng, "Result", "Ok", [copy_node(v)], ty=c2.dest_ty))

    def err(c2):
        e = copy_node(payload(c2.eng, c2.args[0], "Err", 0))
        if ctor is not None:
            w = apply_ctor(c2, ctor, e)
            if w is None:
                raise Unsupported("map_err with fn item %s" % ctor)
            return c2.ret(mk_enum(c2.eng, "Result", "Err", [w], ty=c2.dest_ty))

        def cont(eng, st, stash, ret):
            return finish_call(eng, st, stash, mk_enum(eng, "Result", "Err", [copy_node(ret)], ty=stash["dest_ty"]))
        return c2.eng.call_closure(c2.st, closure_of(c2.eng, c2.args[1]), [e], call_stash(c2), cont)

    return ctx.fork([(tag == bv64(0), ok), (tag == bv64(1), err)])


def _ctor_of(arg):
    """fn-item operand naming an enum/tuple-struct constructor -> path text or None."""
    if arg.conc and isinstance(arg.conc, tuple) and arg.conc[0] == "const":
        if "{closure@" in arg.conc[1]:
            return None
        return arg.conc[1]
    return None


def closure_of(eng, arg):
    """closure value (captured environment node) if `arg` is a closure whose body is in the dump."""
    if arg.conc and isinstance(arg.conc, tuple) and arg.conc[0] == "const" and "{closure@" in arg.conc[1]:
        m = re.search(r"\{closure@[^}]*\}", arg.conc[1])
        n = Node(fresh_root("zc"), ty=m.group(0))
        n.fields = {}
        return n if eng.closure_body(n.ty) is not None else None
    if arg.ty and "{closure@" in arg.ty and eng.closure_body(arg.ty) is not None:
        return arg
    return None


def apply_ctor(ctx, ctor_text, val, ty=None):
    eng = ctx.eng
    path = strip_turbofish(strip_lifetimes(ctor_text))
    segs = path.split("::")
    if len(segs) >= 2 and eng.variant_index(segs[-2], segs[-1]) is not None:
        return mk_enum(eng, segs[-2], segs[-1], [val], ty=ty or segs[-2])
    return None


def m_map_ctor(head, good, bad):
    """Option::map / Result::map with a constructor fn item (e.g. `.map(OutputValue::Value)`).
    With a closure argument the call is left uninterpreted (an event)."""
    def model(ctx):
        o, f = ctx.args
        ctor = _ctor_of(f)
        clos = closure_of(ctx.eng, f) if ctor is None else None
        if ctor is None and clos is None:
            return ctx.eng.uninterpreted(ctx.st, ctx.frame, ctx.dest, ctx.dest_ty, ctx.ret_bb, ctx.callee,
                                         ctx.norm, ctx.args, ctx.site)
        tag = _opt_tag(ctx, o, head)
        gi = ctx.eng.variant_index(head, good)
        bi = ctx.eng.variant_index(head, bad)

        def g(c2):
            v = payload(c2.eng, c2.args[0], good, 0)
            if ctor is None:
                cl = closure_of(c2.eng, c2.args[1])

                def cont(eng, st, stash, ret):
                    return finish_call(eng, st, stash, mk_enum(eng, head, good, [copy_node(ret)], ty=stash["dest_ty"]))
                return c2.eng.call_closure(c2.st, cl, [copy_node(v)], call_stash(c2), cont)
            w = apply_ctor(c2, ctor, copy_node(v))
            if w is None:
                raise Unsupported("map with non-constructor fn item %s" % ctor)
            return c2.ret(mk_enum(c2.eng, head, good, [w], ty=c2.dest_ty))

        def b(c2):
            if head == "Option":
                n = Node(fresh_root("e"), ty=c2.dest_ty or "Option")
                n.tag = bv64(0)
                n.variants = {}
                return c2.ret(n)
            e = payload(c2.eng, c2.args[0], bad, 0)
            return c2.ret(mk_enum(c2.eng, head, bad, [copy_node(e)], ty=c2.dest_ty))

        return ctx.fork([(tag == bv64(gi), g), (tag == bv64(bi), b)])
    return model


# ------------------------------------------------------------------ arithmetic on references / helper methods

_REF_OPS = {"bitand": "BitAnd", "bitor": "BitOr", "bitxor": "BitXor", "add": "Add", "sub": "Sub", "mul": "Mul",
            "shl": "Shl", "shr": "Shr", "div": "Div", "rem": "Rem"}


def m_ref_binop(ctx):
    meth = ctx.norm.rsplit("::", 1)[1]
    a, b = ctx.args
    eng = ctx.eng
    self_ty, _ = generic_args(ctx.callee)
    if self_ty and self_ty.strip().startswith("&"):
        a = eng.deref(a, strip_ref(self_ty))
    if b.target is not None and b.term is None:
        b = eng.deref(b)
    if a.ty is None:
        a.ty = strip_ref(self_ty) if self_ty and self_ty.startswith("&") else self_ty
    name = _REF_OPS[meth]
    if name in ("Div", "Rem"):
        raise Unsupported("operator trait %s through reference" % meth)
    if name in ("Add", "Sub", "Mul", "Shl", "Shr"):
        # core's operator impls on primitives carry #[rustc_inherit_overflow_checks]: they panic on overflow exactly when
        # the calling crate is built with overflow checks (dev profile) and wrap otherwise (release profile)
        k = scalar_kind(a.ty)
        if k is None or k[0] != "bv":
            raise Unsupported("operator trait %s on %r" % (meth, a.ty))
        w, signed = k[1], k[2]
        ta = eng.scalar(a, a.ty)
        tb = eng.scalar(b, b.ty or a.ty)
        if name in ("Shl", "Shr"):
            wb = tb.size()
            big = max(w, wb)
            tbx = z3.ZeroExt(big - wb, tb) if wb < big else tb
            ovf = z3.UGE(tbx, z3.BitVecVal(w, big))
            amt = z3.Extract(w - 1, 0, tbx) if big > w else tbx
            amt = amt & z3.BitVecVal(w - 1, w)
            res = (ta << amt) if name == "Shl" else ((ta >> amt) if signed else z3.LShR(ta, amt))
            msg = "attempt to shift %s with overflow" % ("left" if name == "Shl" else "right")
        else:
            if tb.size() != w:
                raise Unsupported("operator trait %s with operands of different widths" % meth)
            if name == "Add":
                res = ta + tb
                ovf = z3.Not(z3.And(z3.BVAddNoOverflow(ta, tb, signed), z3.BVAddNoUnderflow(ta, tb) if signed else z3.BoolVal(True)))
                msg = "attempt to add with overflow"
            elif name == "Sub":
                res = ta - tb
                ovf = z3.Not(z3.And(z3.BVSubNoUnderflow(ta, tb, signed), z3.BVSubNoOverflow(ta, tb) if signed else z3.BoolVal(True)))
                msg = "attempt to subtract with overflow"
            else:
                res = ta * tb
                ovf = z3.Not(z3.And(z3.BVMulNoOverflow(ta, tb, signed), z3.BVMulNoUnderflow(ta, tb) if signed else z3.BoolVal(True)))
                msg = "attempt to multiply with overflow"
        if eng.profile != "dev":
            return ctx.ret(mk_scalar(res, a.ty))

        def bad(c2):
            c2.panic(msg)

        def good(c2):
            return c2.ret(mk_scalar(res, a.ty))
        return ctx.fork([(ovf, bad), (z3.Not(ovf), good)])
    return ctx.ret(eng.binop(name, a, b))


def m_int_method(ctx):
    """i64::wrapping_add & friends."""
    eng = ctx.eng
    meth = ctx.norm.rsplit("::", 1)[1]
    mt = re.search(r"<impl ([iu](?:8|16|32|64|128|size))>", ctx.norm)
    ty = mt.group(1) if mt else ctx.norm.split("::")[-2]
    k = scalar_kind(ty)
    if k is None:
        raise Unsupported("int method on %s" % ty)
    w, sg = k[1], k[2]
    a = ctx.args[0]
    if a.ty is None:
        a.ty = ty
    ta = eng.scalar(a, ty)

    def amt(b):
        tb = eng.scalar(b, "u32")
        if tb.size() < w:
            tb = z3.ZeroExt(w - tb.size(), tb)
        elif tb.size() > w:
            tb = z3.Extract(w - 1, 0, tb)
        return tb & z3.BitVecVal(w - 1, w)

    if meth in ("wrapping_add", "wrapping_sub", "wrapping_mul"):
        tb = eng.scalar(ctx.args[1], ty)
        r = {"wrapping_add": ta + tb, "wrapping_sub": ta - tb, "wrapping_mul": ta * tb}[meth]
        return ctx.ret(mk_scalar(r, ty))
    if meth == "wrapping_neg":
        return ctx.ret(mk_scalar(-ta, ty))
    if meth == "wrapping_shl":
        return ctx.ret(mk_scalar(ta << amt(ctx.args[1]), ty))
    if meth == "wrapping_shr":
        s = amt(ctx.args[1])
        return ctx.ret(mk_scalar((ta >> s) if sg else z3.LShR(ta, s), ty))
    if meth in ("wrapping_div", "wrapping_rem"):
        tb = eng.scalar(ctx.args[1], ty)
        zero = tb == z3.BitVecVal(0, w)
        if meth == "wrapping_div":
            r = (ta / tb) if sg else z3.UDiv(ta, tb)     # SMT bvsdiv(MIN,-1) = MIN = wrapping result
            msg = "attempt to divide by zero"
        else:
            r = z3.SRem(ta, tb) if sg else z3.URem(ta, tb)  # bvsrem(MIN,-1) = 0
            msg = "attempt to calculate the remainder with a divisor of zero"

        def bad(c2):
            c2.panic(msg)

        def ok(c2):
            return c2.ret(mk_scalar(r, ty))

        return ctx.fork([(zero, bad), (z3.Not(zero), ok)])
    if meth in ("checked_add", "checked_sub", "checked_mul"):
        tb = eng.scalar(ctx.args[1], ty)
        b = mk_scalar(tb, ty)
        pair = eng.binop({"checked_add": "AddWithOverflow", "checked_sub": "SubWithOverflow",
                          "checked_mul": "MulWithOverflow"}[meth], a, b)
        ovf = pair.fields[1].term
        out = Node(fresh_root("e"), ty="Option<%s>" % ty)
        out.tag = z3.If(ovf, bv64(0), bv64(1))
        p = Node(fresh_root("p"))
        p.fields = {0: pair.fields[0]}
        out.variants = {"Some": p}
        return ctx.ret(out)
    if meth in ("checked_div", "checked_rem"):
        tb = eng.scalar(ctx.args[1], ty)
        bad = tb == z3.BitVecVal(0, w)
        if sg:
            bad = z3.Or(bad, z3.And(ta == z3.BitVecVal(-(1 << (w - 1)), w), tb == z3.BitVecVal(-1, w)))
        if meth == "checked_div":
            r = (ta / tb) if sg else z3.UDiv(ta, tb)
        else:
            r = z3.SRem(ta, tb) if sg else z3.URem(ta, tb)
        out = Node(fresh_root("e"), ty="Option<%s>" % ty)
        out.tag = z3.If(bad, bv64(0), bv64(1))
        p = Node(fresh_root("p"))
        p.fields = {0: mk_scalar(r, ty)}
        out.variants = {"Some": p}
        return ctx.ret(out)
    if meth in ("checked_shl", "checked_shr"):
        tb = eng.scalar(ctx.args[1], "u32")
        inr = z3.ULT(tb, z3.BitVecVal(w, tb.size()))
        s_ = amt(ctx.args[1])
        r = (ta << s_) if meth == "checked_shl" else ((ta >> s_) if sg else z3.LShR(ta, s_))
        out = Node(fresh_root("e"), ty="Option<%s>" % ty)
        out.tag = z3.If(inr, bv64(1), bv64(0))
        p = Node(fresh_root("p"))
        p.fields = {0: mk_scalar(r, ty)}
        out.variants = {"Some": p}
        return ctx.ret(out)
    if meth == "checked_neg":
        bad = (ta == z3.BitVecVal(-(1 << (w - 1)), w)) if sg else (ta != z3.BitVecVal(0, w))
        out = Node(fresh_root("e"), ty="Option<%s>" % ty)
        out.tag = z3.If(bad, bv64(0), bv64(1))
        p = Node(fresh_root("p"))
        p.fields = {0: mk_scalar(-ta, ty)}
        out.variants = {"Some": p}
        return ctx.ret(out)
    if meth in ("overflowing_add", "overflowing_sub", "overflowing_mul"):
        b = mk_scalar(eng.scalar(ctx.args[1], ty), ty)
        return ctx.ret(eng.binop({"overflowing_add": "AddWithOverflow", "overflowing_sub": "SubWithOverflow",
                                  "overflowing_mul": "MulWithOverflow"}[meth], a, b))
    if meth in ("saturating_add", "saturating_sub"):
        b = mk_scalar(eng.scalar(ctx.args[1], ty), ty)
        pair = eng.binop("AddWithOverflow" if meth == "saturating_add" else "SubWithOverflow", a, b)
        res, ovf = pair.fields[0].term, pair.fields[1].term
        if sg:
            mx = z3.BitVecVal((1 << (w - 1)) - 1, w)
            mn = z3.BitVecVal(-(1 << (w - 1)), w)
            tb = b.term
            neg_dir = (tb < 0) if meth == "saturating_add" else (tb > 0)
            sat = z3.If(neg_dir, mn, mx)
        else:
            sat = z3.BitVecVal((1 << w) - 1, w) if meth == "saturating_add" else z3.BitVecVal(0, w)
        return ctx.ret(mk_scalar(z3.If(ovf, sat, res), ty))
    if meth in ("wrapping_abs", "abs", "unsigned_abs"):
        if meth == "abs":
            # plain abs panics on MIN in builds with overflow checks of *core*; refuse to guess
            raise Unsupported("i64::abs")
        return ctx.ret(mk_scalar(z3.If(ta < 0, -ta, ta), ty if meth == "wrapping_abs" else "u" + ty[1:]))
    if meth in ("min", "max"):
        tb = eng.scalar(ctx.args[1], ty)
        lt = (ta < tb) if sg else z3.ULT(ta, tb)
        return ctx.ret(mk_scalar(z3.If(lt, ta, tb) if meth == "min" else z3.If(lt, tb, ta), ty))
    if meth in ("count_ones", "leading_zeros", "trailing_zeros", "pow", "rotate_left", "rotate_right"):
        raise Unsupported("int method %s" % meth)
    raise Unsupported("int method %s" % meth)


def m_ord_minmax(ctx):
    eng = ctx.eng
    meth = ctx.norm.rsplit("::", 1)[1]
    a, b = ctx.args
    ta = eng.scalar(a)
    tb = eng.scalar(b, a.ty)
    k = scalar_kind(a.ty) or scalar_kind(b.ty)
    if k is None or k[0] != "bv":
        raise Unsupported("min/max on %r" % a.ty)
    lt = (ta < tb) if k[2] else z3.ULT(ta, tb)
    return ctx.ret(mk_scalar(z3.If(lt, ta, tb) if meth == "min" else z3.If(lt, tb, ta), a.ty or b.ty))


# ------------------------------------------------------------------ mem::{replace, swap, take}

def m_mem_replace(ctx):
    dst_ref, new = ctx.args
    dst = ctx.eng.deref(dst_ref)
    old = copy_node(dst)
    assign_node(dst, new)
    # a store into memory the caller can see: part of the path's write log (like a MIR assignment through a reference)
    ctx.st.extra.setdefault("writes", []).append((short_name(ctx.frame.fn.name), "mem::replace(%s)" % (dst_ref.ty or "&mut _")[:40],
                                                  len(ctx.st.trace), len(ctx.st.frames)))
    return ctx.ret(old)


def m_mem_swap(ctx):
    a = ctx.eng.deref(ctx.args[0])
    b = ctx.eng.deref(ctx.args[1])
    ca, cb = copy_node(a), copy_node(b)
    assign_node(a, cb)
    assign_node(b, ca)
    ctx.st.extra.setdefault("writes", []).append((short_name(ctx.frame.fn.name), "mem::swap", len(ctx.st.trace), len(ctx.st.frames)))
    ctx.st.trace.append(Event(ctx.callee, "mem::swap", [copy_node(x) for x in ctx.args], None, ctx.site,
                              len(ctx.st.frames), "note"))
    return ctx.ret(mk_unit())


# ------------------------------------------------------------------ Clone / Deref / conversions

def m_clone_copy(ctx):
    """<T as Clone>::clone for plain-data T (scalars and enums/structs of scalars): a value copy."""
    src = ctx.eng.deref(ctx.args[0])
    return ctx.ret(copy_node(src))


def m_deref_vec(ctx):
    """<Vec<T> as Deref>::deref(&v) -> &[T]: the slice view of the vector model."""
    v = ctx.eng.deref(ctx.args[0])
    return ctx.ret(mk_ref(vec_slice(ctx.eng, v), ctx.dest_ty))


def vec_slice(eng, v):
    if v.vec is None:
        self_ty = v.ty
        v.vec = eng.intern(v, ".buf", ("[%s]" % elem_ty(self_ty)) if elem_ty(self_ty) else None)
    return v.vec


def m_vec_new(ctx):
    v = Node(fresh_root("vec"), ty=ctx.dest_ty)
    s = Node(fresh_root("buf"), ty=("[%s]" % elem_ty(ctx.dest_ty)) if elem_ty(ctx.dest_ty) else None)
    s.length = bv64(0)
    s.elems = []
    v.vec = s
    return ctx.ret(v)


def m_vec_len(ctx):
    v = ctx.eng.deref(ctx.args[0])
    if ctx.norm.startswith("Vec") or (v.ty and v.ty.replace("std::vec::", "").startswith("Vec")):
        v = vec_slice(ctx.eng, v)
    return ctx.ret(mk_usize(ctx.eng.length(v)))


def m_vec_is_empty(ctx):
    v = ctx.eng.deref(ctx.args[0])
    if ctx.norm.startswith("Vec") or (v.ty and v.ty.replace("std::vec::", "").startswith("Vec")):
        v = vec_slice(ctx.eng, v)
    return ctx.ret(mk_bool(ctx.eng.length(v) == bv64(0)))


def m_index_usize(ctx):
    """<Vec<T> as Index<usize>>::index / <[T] as Index<usize>>: bounds check + element reference."""
    eng = ctx.eng
    from .itermodels import index_elem
    v = eng.deref(ctx.args[0])
    if v.vec is not None or (v.ty and "Vec<" in v.ty):
        v = vec_slice(eng, v)
    idx = eng.scalar(ctx.args[1], "usize")
    ln = eng.length(v)
    inb = z3.ULT(idx, ln)
    c = z3.simplify(inb)
    if z3.is_true(c):
        return ctx.ret(mk_ref(index_elem(eng, ctx.st, v, idx), ctx.dest_ty))

    def bad(c2):
        c2.panic("index out of bounds")

    def ok(c2):
        vv = c2.eng.deref(c2.args[0])
        if vv.vec is not None or (vv.ty and "Vec<" in vv.ty):
            vv = vec_slice(c2.eng, vv)
        return c2.ret(mk_ref(index_elem(c2.eng, c2.st, vv, idx), c2.dest_ty))

    return ctx.fork([(z3.Not(inb), bad), (inb, ok)])


def m_identity(ctx):
    return ctx.ret(copy_node(ctx.args[0]))


def m_into(ctx):
    """<A as Into<B>>::into / <B as From<A>>::from: identity when A == B, crate `From` impl inlined when
    present, otherwise an uninterpreted event."""
    eng = ctx.eng
    self_ty, trait = generic_args(ctx.callee)
    if ctx.norm.endswith("::into"):
        src = self_ty
        dst = (type_params(trait) or [ctx.dest_ty])[0] if trait else ctx.dest_ty
    else:
        dst = self_ty
        src = (type_params(trait) or [None])[0] if trait else None
    if src is not None and norm_ty(src) == norm_ty(dst):
        return ctx.ret(copy_node(ctx.args[0]))
    # lossless primitive conversions of core: bool -> integer (0 / 1), integer -> wider integer of the same or a
    # wider signed kind (zero- / sign-extension)
    ks, kd = scalar_kind(norm_ty(src) or "") if src else None, scalar_kind(norm_ty(dst) or "") if dst else None
    if ks is not None and kd is not None and kd[0] == "bv":
        t = eng.scalar(ctx.args[0], norm_ty(src))
        if ks[0] == "bool":
            w = kd[1]
            return ctx.ret(mk_scalar(z3.If(t, z3.BitVecVal(1, w), z3.BitVecVal(0, w)), norm_ty(dst)))
        if ks[0] == "bv" and kd[1] >= ks[1] and (kd[1] > ks[1] or kd[2] == ks[2]) and (not ks[2] or kd[2]):
            ext = kd[1] - ks[1]
            r = t if ext == 0 else (z3.SignExt(ext, t) if ks[2] else z3.ZeroExt(ext, t))
            return ctx.ret(mk_scalar(r, norm_ty(dst)))
    target = find_from_impl(eng, src, dst) if src else None
    if target is not None:
        dst_node = eng.place(ctx.st, ctx.frame, ctx.dest)
        return eng.enter_node(ctx.st, ctx.frame, target, [ctx.args[0]], dst_node, ctx.ret_bb, ctx.callee)
    return eng.uninterpreted(ctx.st, ctx.frame, ctx.dest, ctx.dest_ty, ctx.ret_bb, ctx.callee, ctx.norm,
                             ctx.args, ctx.site)


def m_box_new(ctx):
    b = Node(fresh_root("box"), ty=ctx.dest_ty)
    tgt = copy_node(ctx.args[0])
    inner = Node(fresh_root("nn"))
    ptr = Node(fresh_root("ptr"))
    ptr.target = tgt
    inner.fields = {0: ptr}
    b.fields = {0: inner}
    b.target = tgt
    return ctx.ret(b)


def m_panic(ctx):
    msg = ctx.norm
    if ctx.args and ctx.args[0].target is not None and isinstance(ctx.args[0].target.conc, str):
        msg = "%s: %s" % (ctx.norm, ctx.args[0].target.conc)
    raise Cut("panic", msg)


def m_gen_range(ctx):
    """rand's documented contract for Rng::gen_range(low..high) on i64: panics iff the range is empty, otherwise
    returns low <= v < high. The draw itself is an uninterpreted event (one per call) in the trace."""
    eng = ctx.eng
    rng, r = ctx.args
    lo = eng.scalar(eng.field(r, 0, "i64"))
    hi = eng.scalar(eng.field(r, 1, "i64"))
    empty = z3.Not(lo < hi)

    def bad(c2):
        c2.event("gen_range(empty)", kind="note")
        c2.panic("cannot sample empty range")

    def ok(c2):
        ev = c2.event("Rng::gen_range")
        v = c2.eng.scalar(ev.ret, "i64")
        c = z3.And(lo <= v, v < hi)
        c2.st.pc.append(c)
        c2.eng.solver.add(c)
        c2.st.assumptions.append("rand contract: gen_range(lo..hi) returns lo <= v < hi")
        return c2.ret(ev.ret)

    return ctx.fork([(empty, bad), (z3.Not(empty), ok)])


def install(eng):
    M = eng.models
    M["<Result as Try>::branch"] = m_result_branch
    M["<Option as Try>::branch"] = m_option_branch
    M["<Result as FromResidual>::from_residual"] = m_result_from_residual
    M["<Option as FromResidual>::from_residual"] = m_option_from_residual
    M["Option::unwrap"] = m_unwrap("Option", "Some", "called `Option::unwrap()` on a `None` value")
    M["Option::expect"] = m_unwrap("Option", "Some", "expect")
    M["Result::unwrap"] = m_unwrap("Result", "Ok", "called `Result::unwrap()` on an `Err` value")
    M["Result::expect"] = m_unwrap("Result", "Ok", "expect")
    M["Option::unwrap_or"] = m_option_unwrap_or
    M["Result::unwrap_or"] = m_result_unwrap_or
    M["Option::is_some"] = m_option_is("some")
    M["Option::is_none"] = m_option_is("none")
    M["Result::is_ok"] = m_result_is("ok")
    M["Result::is_err"] = m_result_is("err")
    M["Option::cloned"] = m_option_cloned
    M["Option::copied"] = m_option_cloned
    M["Option::ok_or_else"] = m_ok_or_else
    M["Option::and_then"] = m_and_then
    M["Option::ok_or"] = m_ok_or
    M["Result::map_err"] = m_map_err
    M["Option::map"] = m_map_ctor("Option", "Some", "None")
    M["Result::map"] = m_map_ctor("Result", "Ok", "Err")
    M["std::mem::replace"] = m_mem_replace
    M["std::mem::swap"] = m_mem_swap
    M["<Vec as Deref>::deref"] = m_deref_vec
    M["<Vec as DerefMut>::deref_mut"] = m_deref_vec
    M["Vec::new"] = m_vec_new
    M["Vec::len"] = m_vec_len
    M["Vec::is_empty"] = m_vec_is_empty
    M["core::slice::<impl [T]>::len"] = m_vec_len
    M["core::slice::<impl [T]>::is_empty"] = m_vec_is_empty
    M["<Vec as Index>::index"] = m_index_usize
    M["Box::new"] = m_box_new
    for p in ("panic", "panic_fmt", "core::panicking::panic", "core::panicking::panic_fmt",
              "std::rt::panic_fmt", "core::panicking::unreachable_display", "unwrap_failed", "expect_failed",
              "core::panicking::panic_bounds_check", "std::rt::begin_panic"):
        M[p] = m_panic
    M["<StdRng as Rng>::gen_range"] = m_gen_range
    R = eng.model_rx
    R.append((re.compile(r"<&?(?:i|u)(?:8|16|32|64|128|size) as (?:BitAnd|BitOr|BitXor|Add|Sub|Mul|Shl|Shr)>::(?:bitand|bitor|bitxor|add|sub|mul|shl|shr)"),
              m_ref_binop))
    R.append((re.compile(r"core::num::<impl [iu](?:8|16|32|64|128|size)>::(?:wrapping|checked|overflowing|saturating)_\w+"), m_int_method))
    R.append((re.compile(r"core::num::<impl [iu](?:8|16|32|64|128|size)>::(?:unsigned_abs|abs)"), m_int_method))
    R.append((re.compile(r"<[iu](?:8|16|32|64|128|size) as Ord>::(?:min|max)"), m_ord_minmax))
    R.append((re.compile(r"std::cmp::(?:min|max)"), m_ord_minmax))
    R.append((re.compile(r"<(?:bool|char|[iu](?:8|16|32|64|128|size)|InputValue|OutputValue|ExpectedValue|BinOp"
                         r"|UnaryOp|TokenKind|OutputEntryIndex|InputEntry|OutputEntry|ExpectedEntry|Range) as Clone>::clone"),
              m_clone_copy))
    R.append((re.compile(r"<[iu](?:8|16|32|64|128|size) as TryFrom>::try_from"), m_int_try_from))
    R.append((re.compile(r"<.* as Into>::into"), m_into))
    R.append((re.compile(r"<.* as From>::from"), m_into))
