"""std::cell::RefCell as an exact model with dynamic borrow tracking: borrow_mut / borrow hand out guards and panic as
the real ones do when the cell is already borrowed; the guard's MIR `drop` releases it.  What happens while a guard
is alive is recorded as an interval of the path's event trace, so an obligation can ask "what is called while the
cell is borrowed?" (re-entrancy is how a RefCell panics at run time)."""
import z3

from .sym import Node, Cut, Unsupported, copy_node, mk_ref, mk_unit, fresh_root, strip_lifetimes


def _cell_of(eng, ref):
    n = ref
    for _ in range(3):
        if n.fields and "cellv" in n.fields:
            return n
        ty = strip_lifetimes(n.ty or "")
        if n.target is not None or ty.startswith("&"):
            n = eng.deref(n)
            continue
        break
    if not (n.fields and "cellv" in n.fields):
        if n.fields is None:
            n.fields = {}
        n.fields["cellv"] = eng.intern(n, ".value")
    return n


def _key(cell):
    return "%s%s" % (cell.root, cell.path)


def _borrow(ctx, mutable):
    eng = ctx.eng
    cell = _cell_of(eng, ctx.args[0])
    held = ctx.st.extra.setdefault("cell_held", {})
    k = _key(cell)
    cur = held.get(k)
    if cur is not None and (mutable or cur[0] == "mut"):
        raise Cut("panic", "RefCell already %sborrowed" % ("mutably " if cur[0] == "mut" else ""))
    held[k] = ("mut" if mutable else "shared", (cur[1] + 1) if cur else 1)
    ctx.st.extra.setdefault("cell_log", []).append(("borrow", k, len(ctx.st.trace)))
    g = Node(fresh_root("guard"), ty=ctx.dest_ty)
    g.fields = {"guard_of": mk_ref(cell), 0: mk_ref(cell.fields["cellv"])}
    g.target = cell.fields["cellv"]
    g.conc = ("guard", k)
    return ctx.ret(g)


def m_borrow_mut(ctx):
    return _borrow(ctx, True)


def m_borrow(ctx):
    return _borrow(ctx, False)


def m_guard_deref(ctx):
    g = ctx.eng.deref(ctx.args[0]) if not (isinstance(ctx.args[0].conc, tuple) and ctx.args[0].conc[0] == "guard") else ctx.args[0]
    tgt = g.target if g.target is not None else ctx.eng.deref(g)
    return ctx.ret(mk_ref(tgt, ctx.dest_ty))


def m_cell_new(ctx):
    c = Node(fresh_root("cell"), ty=ctx.dest_ty)
    c.fields = {"cellv": copy_node(ctx.args[0])}
    return ctx.ret(c)


def m_get_mut(ctx):
    cell = _cell_of(ctx.eng, ctx.args[0])
    return ctx.ret(mk_ref(cell.fields["cellv"], ctx.dest_ty))


def drop_hook(eng, st, frame, place, ty):
    t = strip_lifetimes(ty)
    if "RefMut<" in t or t.startswith("std::cell::Ref<") or t.startswith("Ref<"):
        try:
            g = eng.place(st, frame, place)
        except Exception:
            return
        if isinstance(g.conc, tuple) and g.conc[0] == "guard":
            k = g.conc[1]
            held = st.extra.setdefault("cell_held", {})
            cur = held.get(k)
            if cur is not None:
                if cur[1] <= 1:
                    held.pop(k)
                else:
                    held[k] = (cur[0], cur[1] - 1)
            st.extra.setdefault("cell_log", []).append(("release", k, len(st.trace)))
            g.conc = None


def install(eng):
    mm = eng.models
    mm["RefCell::borrow_mut"] = m_borrow_mut
    mm["RefCell::borrow"] = m_borrow
    mm["RefCell::new"] = m_cell_new
    mm["RefCell::get_mut"] = m_get_mut
    mm["<RefMut as DerefMut>::deref_mut"] = m_guard_deref
    mm["<RefMut as Deref>::deref"] = m_guard_deref
    mm["<Ref as Deref>::deref"] = m_guard_deref
    eng.drop_hook = drop_hook


def events_while_borrowed(path):
    """[(event, cell key)] of the path's trace that happened while a guard of that cell was alive"""
    log = path.state.extra.get("cell_log", [])
    out = []
    open_ = {}
    ivs = []
    for what, k, idx in log:
        if what == "borrow":
            open_.setdefault(k, []).append(idx)
        elif open_.get(k):
            ivs.append((k, open_[k].pop(), idx))
    for k, starts in open_.items():
        for s_ in starts:
            ivs.append((k, s_, len(path.trace)))
    for k, a, b in ivs:
        for e in path.trace[a:b]:
            if e.kind == "call":
                out.append((e, k))
    return out
