"""Run every battery scenario against the current tree and report judge verdicts (development aid; the
judges must be silent on a tree where the properties hold)."""
import sys
from . import replay
from .props import batteries as B


def main():
    groups = {"protocol": (B.protocol_battery, B.protocol_judge), "attribution": (B.attribution_battery, B.attribution_judge),
              "fault": (B.fault_battery, B.fault_judge)}
    for extra in ("reads", "virtual", "binding", "lines", "static", "control", "random", "bind", "vars", "malformed", "parse", "dig"):
        if hasattr(B, extra + "_battery"):
            groups[extra] = (getattr(B, extra + "_battery"), getattr(B, extra + "_judge"))
    from .props import C10
    groups["runtime"] = (C10.runtime_battery, C10.runtime_judge)
    only = sys.argv[1:] 
    bad = 0
    for name, (bat, judge) in groups.items():
        if only and name not in only:
            continue
        for sc in bat():
            obs = replay.run(sc)
            w = judge(obs, sc)
            print("%-12s %-45s %s" % (name, sc.note[:45], "ok" if not w else "DEVIATION: " + w))
            if w:
                bad += 1
                if "-v" in sys.argv or True:
                    print(obs["dev"].text)
    print("deviations:", bad)


if __name__ == "__main__":
    main()
