"""CLI: python3-vt -m mirsym.run <PROPERTY> [--tier quick|thorough]

exit 0  every obligation of the property held (known findings are printed, not alarms)
exit 1  a solver counterexample reproduced natively through the public API and is not a listed known finding
exit 2  inconclusive (unsupported construct, vacuous class, solver unknown/disagreement, non-reproducing
        counterexample): never reported as success, never as a violation
"""
import argparse
import importlib
import json
import os
import sys
import time
import traceback

from . import frontend, oblig, sym, replay as replay_mod

VERIF = frontend.VERIF


def main(argv=None):
    ap = argparse.ArgumentParser()
    ap.add_argument("prop")
    ap.add_argument("--tier", default=os.environ.get("VERIF_TIER", "quick"))
    ap.add_argument("--only", default=None, help="regex on obligation ids")
    ap.add_argument("--verbose", "-v", action="store_true")
    ap.add_argument("--no-evidence", action="store_true")
    a = ap.parse_args(argv)
    tier = a.tier if a.tier in ("quick", "thorough") else "quick"
    try:
        seed = int(os.environ.get("VERIF_SEED", "0"))
    except ValueError:
        seed = 0
    prop = a.prop
    t0 = time.time()
    run = oblig.Run(prop, tier, seed)
    try:
        importlib.import_module("mirsym.props." + prop)
    except ImportError as e:
        print("no obligations module for %s: %s" % (prop, e))
        return 2
    obs = list(oblig.REGISTRY.get(prop, []))
    if a.only:
        import re
        obs = [o for o in obs if re.search(a.only, o.id)]
    run.rng.shuffle(obs)
    mirs = {}
    dump_s = 0.0
    fatal = None
    jobs = []
    for ob in obs:
        if ob.tier == "thorough" and tier != "thorough":
            continue
        for profile in ob.profiles:
            if profile not in mirs:
                try:
                    mirs[profile] = frontend.load(profile)
                    dump_s += mirs[profile].dump_s
                except Exception as e:
                    fatal = "MIR dump failed for profile %s: %s" % (profile, e)
                    break
            jobs.append((ob, profile))
        if fatal:
            break
    if fatal:
        run.problems.append(fatal)
        jobs = []
    # make sure the replay binaries exist before forking (workers only read them)
    global _JOBS, _CTX
    _JOBS = jobs
    _CTX = (prop, tier, seed, mirs)
    try:
        nproc = int(os.environ.get("VERIF_JOBS", "0")) or min(len(jobs), os.cpu_count() or 1, 16)
    except ValueError:
        nproc = 1
    results = []
    if nproc <= 1 or len(jobs) <= 1:
        for i in range(len(jobs)):
            results.append(_work(i))
    else:
        results = _run_jobs(len(jobs), nproc)
    results.sort(key=lambda r: r["index"])

    known = oblig.load_known()
    violations = []
    known_hits = []
    nonrepro = []
    os.makedirs(os.path.join(VERIF, "replays", prop), exist_ok=True)
    seen_keys = set()
    for r in results:
        rec = r["rec"]
        run.records.append(rec)
        run.total_queries += r["queries"]
        run.total_branch_checks += r["branch_checks"]
        run.replays += r["replays"]
        run.problems.extend(r["problems"])
        for k, v in r["cross_stats"].items():
            run.cross_stats[k] = run.cross_stats.get(k, 0) + v
        if a.verbose:
            print("  [%s] %s (%s) paths=%d queries=%d %.2fs" % (
                rec["status"], rec["id"], rec["profile"], rec["paths"], rec["queries"], rec["wall_s"]))
            for n in rec["notes"]:
                print("      " + n[:600])
        for cd in r["cands"]:
            key = (cd["ob_id"], json.dumps(cd["facts"], sort_keys=True, default=str))
            if key in seen_keys:
                continue
            seen_keys.add(key)
            c = oblig.Candidate(cd["ob_id"], cd["profile"], cd["label"], cd["model"], cd["facts"], [], None, cd["label"])
            if not cd["reproduced"]:
                nonrepro.append((c, cd["why"]))
                continue
            n = len(os.listdir(os.path.join(VERIF, "replays", prop)))
            path = os.path.join(VERIF, "replays", prop, "%s-%d.json" % (c.ob_id.replace("/", "_"), n))
            with open(path, "w") as f:
                json.dump({"property": prop, "obligation": c.ob_id, "profile_of_encoding": c.profile, "label": c.label,
                           "facts": c.facts, "solver_model": c.model, "deviation": cd["why"], "scenario": cd["scenario"],
                           "observed": cd["observed"],
                           "how_to_replay": "python3-vt -m mirsym.replay_cli %s" % path}, f, indent=1, default=str)
            c.replay_path = path
            hit = None
            for kf in known.get("findings", []):
                if oblig.finding_matches(kf, c):
                    hit = kf
                    break
            if hit:
                known_hits.append((c, hit, cd["why"]))
            else:
                violations.append((c, cd["why"]))

    # ---- verdict
    inconclusive = [r for r in run.records if r["status"] == "inconclusive"]
    status_lines = []
    for c, kf, why in known_hits:
        status_lines.append("KNOWN-FINDING: property=%s %s [%s] (%s)" % (prop, kf.get("what", ""), c.ob_id, why[:200]))
    # de-duplicate known-finding lines
    status_lines = sorted(set(status_lines))
    for c, why in violations:
        status_lines.append("VIOLATION property=%s replay=%s" % (prop, c.replay_path))
        status_lines.append("  obligation=%s profile=%s facts=%s" % (c.ob_id, c.profile, json.dumps(c.facts, default=str)))
        status_lines.append("  deviation: %s" % why[:500])
    for c, why in nonrepro:
        status_lines.append("INCONCLUSIVE property=%s obligation=%s: %s facts=%s" % (
            prop, c.ob_id, why[:400], json.dumps(c.facts, default=str)[:300]))
    for r in inconclusive:
        for n in r["notes"]:
            if n.startswith("INCONCLUSIVE"):
                status_lines.append("INCONCLUSIVE property=%s obligation=%s (%s): %s" % (
                    prop, r["id"], r["profile"], n[14:400]))
    for p in run.problems:
        status_lines.append("PROBLEM: " + p)

    if violations:
        rc = 1
    elif nonrepro or inconclusive or run.problems or not run.records:
        rc = 2
    else:
        rc = 0

    # ---- evidence
    wall = time.time() - t0
    if not a.no_evidence and not a.only:
        write_evidence(run, prop, tier, seed, wall, dump_s, violations, known_hits, nonrepro, mirs)

    held = sum(1 for r in run.records if r["status"] == "held")
    print("%s tier=%s seed=%d: %d obligation runs, %d held, %d with counterexamples, %d inconclusive; "
          "%d paths, %d solver queries (+%d branch checks), %d native replays, %.1fs" % (
              prop, tier, seed, len(run.records), held, sum(1 for r in run.records if r["status"] == "violated"),
              len(inconclusive), sum(r["paths"] for r in run.records), run.total_queries, run.total_branch_checks,
              run.replays, wall))
    for l in status_lines:
        print(l)
    return rc


_JOBS = []
_CTX = None
FALLBACK_ONLY = set()      # jobs whose symbolic part killed its worker: only the battery fallback is run (fresh process)
MAX_REPLAYED_PER_OBLIGATION = 48
REPLAY_BUDGET_S = {"quick": 90, "thorough": 900}


def _child(i, conn):
    _limit_memory()
    # deep recursion of the explorer (continuation-passing iterator models) runs on a thread with a large stack: the
    # default 8 MB main-thread stack ended some explorations of changed trees with a segmentation fault
    import threading
    box = {}

    def body():
        try:
            box["r"] = _work(i)
        except BaseException as e:      # MemoryError and friends: reported, never swallowed
            box["r"] = _dead_result(i, "worker failed: %s: %s" % (type(e).__name__, str(e)[:200]))
    try:
        threading.stack_size(1 << 29)
        t = threading.Thread(target=body)
        t.start()
        t.join()
    except Exception:
        body()
    r = box.get("r") or _dead_result(i, "worker thread ended without a result")
    try:
        conn.send(r)
    except Exception as e:
        try:
            conn.send(_dead_result(i, "worker result could not be sent: %s" % str(e)[:200]))
        except Exception:
            pass
    finally:
        conn.close()


def _dead_result(i, why):
    ob, profile = _JOBS[i]
    rec = {"id": ob.id, "profile": profile, "desc": ob.desc, "functions": {}, "paths": 0, "paths_by_outcome": {}, "queries": 0,
           "unsat": 0, "sat": 0, "unknown": 0, "witnesses": [], "status": "inconclusive", "notes": ["INCONCLUSIVE: " + why],
           "blocks": 0, "solver_s": 0.0, "pruned": 0, "assumed_unreachable": [], "models_used": [], "uninterpreted": [], "wall_s": 0.0}
    return {"index": i, "rec": rec, "cands": [], "queries": 0, "branch_checks": 0, "replays": 0, "problems": [], "cross_stats": {}}


def _run_jobs(njobs, nproc):
    """One forked process per job, at most nproc at a time.  A worker that dies (address-space cap, solver abort, kill)
    yields an inconclusive record for its job - it can neither hang the run nor be mistaken for success."""
    import multiprocessing as mp
    from multiprocessing.connection import wait
    ctxmp = mp.get_context("fork")
    pending = list(range(njobs))
    running = {}     # conn -> (index, process)
    results = []
    retried = set()
    dead_notes = {}
    while pending or running:
        while pending and len(running) < nproc:
            i = pending.pop(0)
            parent, child = ctxmp.Pipe(duplex=False)
            pr = ctxmp.Process(target=_child, args=(i, child))
            pr.start()
            child.close()
            running[parent] = (i, pr)
        ready = wait(list(running.keys()), timeout=5)
        for conn in ready:
            i, pr = running.pop(conn)
            try:
                r = conn.recv()
            except (EOFError, OSError):
                pr.join(1)
                r = _dead_result(i, "worker process died without a result (exit code %s): out of memory under the per-worker "
                                    "cap, or a solver abort" % pr.exitcode)
            if r["rec"]["notes"] and "worker process died" in r["rec"]["notes"][0] and i not in retried:
                # the symbolic part killed its process: run the property's battery for this obligation in a fresh one
                retried.add(i)
                FALLBACK_ONLY.add(i)
                pending.append(i)
                dead_notes[i] = r["rec"]["notes"][0]
            else:
                if i in dead_notes:
                    r["rec"]["notes"].insert(0, dead_notes[i])
                    if r["rec"]["status"] == "held":
                        r["rec"]["status"] = "inconclusive"
                results.append(r)
            conn.close()
            pr.join(5)
    return results


def _limit_memory():
    """Address-space cap per worker (VERIF_MEM_GB, default 9): a path explosion ends as an inconclusive obligation
    (MemoryError / solver out-of-memory), not as an exhausted machine (62 GB, no swap, 16 workers)."""
    import resource
    try:
        # quick: 9 GB; thorough: 12 GB (the N = 4 token-stream jobs need ~9 GB of heap, and the 512 MB thread stack below
        # counts against the address space too)
        gb = float(os.environ.get("VERIF_MEM_GB", "12" if (_CTX and _CTX[1] == "thorough") else "9"))
        lim = int(gb * (1 << 30))
        resource.setrlimit(resource.RLIMIT_AS, (lim, lim))
    except Exception:
        pass


def _work(i):
    """Run one (obligation, profile) job: explore, decide, confirm on the second solver, replay counterexamples.
    Returns plain data (picklable) so that jobs can run in forked worker processes."""
    ob, profile = _JOBS[i]
    prop, tier, seed, mirs = _CTX
    sub = oblig.Run(prop, tier, seed + i)
    ctx = oblig.ObCtx(sub, ob, mirs[profile])
    t1 = time.time()
    try:
        if i in FALLBACK_ONLY:
            raise LookupError("the symbolic exploration of this obligation ended its worker process (memory cap / solver abort)")
        ob.func(ctx)
    except (sym.Unsupported, LookupError) as e:
        ctx.inconclusive("%s: %s" % (type(e).__name__, e))
        # The code no longer has the shape the obligation is formulated over (a field or function it names is gone):
        # nothing is decided symbolically.  The property's native battery is still run - a deviation there is a
        # reproduced violation; silence leaves the obligation inconclusive (exit 2), never held.
        try:
            mod = sys.modules.get("mirsym.props.%s" % prop)
            R = mod.rep() if mod is not None and hasattr(mod, "rep") else None
            if R is not None and R.battery:
                ctx.violation("the obligation cannot be formulated on this tree (%s); battery run instead" % str(e)[:120], None,
                              dict(R.facts, what="code shape changed"), R.battery, R.judge, str(e)[:200])
                ctx.rec["status"] = "inconclusive"
        except Exception:
            pass
    except Exception as e:
        ctx.inconclusive("internal error: %s\n%s" % (e, traceback.format_exc()[-1500:]))
        # same fallback: an obligation that breaks on this tree (e.g. a field changed its integer type) decides nothing;
        # the battery may still show a native deviation
        try:
            mod = sys.modules.get("mirsym.props.%s" % prop)
            R = mod.rep() if mod is not None and hasattr(mod, "rep") else None
            if R is not None and R.battery:
                ctx.violation("the obligation breaks on this tree (%s); battery run instead" % str(e)[:120], None,
                              dict(R.facts, what="obligation not applicable to this code"), R.battery, R.judge, str(e)[:200])
                ctx.rec["status"] = "inconclusive"
        except Exception:
            pass
    # an obligation left inconclusive because the code no longer runs through the engine (an unsupported construct on its
    # paths, a vacuous class) decides nothing either: the battery may still show a native deviation (same rule as above)
    if ctx.rec["status"] == "inconclusive" and not sub.candidates and \
            any(("unsupported construct" in n_ or "vacuous" in n_) for n_ in ctx.rec["notes"]):
        try:
            mod = sys.modules.get("mirsym.props.%s" % prop)
            R = mod.rep() if mod is not None and hasattr(mod, "rep") else None
            if R is not None and R.battery:
                ctx.violation("the obligation could not be decided on this tree; battery run instead", None,
                              dict(R.facts, what="obligation undecided on this code"), R.battery, R.judge, "undecided")
                ctx.rec["status"] = "inconclusive"
        except Exception:
            pass
    ctx.rec["wall_s"] = round(time.time() - t1, 3)
    sub.run_crosschecks(budget_s=60 if tier == "quick" else 600)
    cands = []
    seen = set()
    replayed = 0
    battery_memo = {}
    t_replay = time.time()
    for c in sub.candidates:
        key = json.dumps(c.facts, sort_keys=True, default=str)
        if key in seen:
            continue
        seen.add(key)
        d = {"ob_id": c.ob_id, "profile": c.profile, "label": c.label, "facts": c.facts, "model": c.model,
             "reproduced": False, "why": "", "scenario": None, "observed": None}
        if not c.scenarios or c.judge is None:
            d["why"] = "no public-API scenario template for this counterexample"
            cands.append(d)
            continue
        if replayed >= MAX_REPLAYED_PER_OBLIGATION or time.time() - t_replay > REPLAY_BUDGET_S.get(tier, 90):
            d["why"] = "not replayed: more than %d distinct counterexamples (or the replay budget) for this obligation" % MAX_REPLAYED_PER_OBLIGATION
            cands.append(d)
            continue
        replayed += 1
        last = None
        # candidates of one obligation usually share their battery: replay a given (scenario list, judge) once
        bkey = (tuple(id(x) for x in c.scenarios), id(c.judge))
        if bkey in battery_memo:
            hit = battery_memo[bkey]
            if hit is not None:
                d.update(hit)
                ctx.rec["status"] = "violated"
                cands.append(d)
                continue
            if c.assumed:
                ctx.rec["assumed_unreachable"].append({"site": c.label[:120], "invariant": c.assumed, "replayed": len(c.scenarios)})
                continue
            d["why"] = "counterexample did not reproduce natively (same scenarios as an earlier candidate of this obligation)"
            cands.append(d)
            replayed -= 1
            continue
        for sc in c.scenarios:
            try:
                obsv = replay_mod.run(sc)
                sub.replays += len(obsv)
            except Exception as e:
                sub.problems.append("replay failed: %s" % e)
                last = "replay infrastructure error: %s" % e
                continue
            why = c.judge(obsv, sc)
            last = {p: o.summary() for p, o in obsv.items()}
            if why:
                d.update(reproduced=True, why=why, scenario=sc.to_json(), observed={p: o.text for p, o in obsv.items()})
                break
        battery_memo[bkey] = ({"reproduced": True, "why": d["why"], "scenario": d["scenario"], "observed": d["observed"]}
                              if d["reproduced"] else None)
        if not d["reproduced"]:
            if c.assumed:
                # on the committed assumed-unreachable list and confirmed not to reproduce: an assumption, not a result
                ctx.rec["assumed_unreachable"].append({"site": c.label[:120], "invariant": c.assumed, "replayed": len(c.scenarios)})
                continue
            d["why"] = "counterexample did not reproduce natively: %s" % json.dumps(last, default=str)[:600]
        else:
            ctx.rec["status"] = "violated"
        cands.append(d)
    # if something reproduced, the cap message of the others is noise, not an inconclusive result
    if any(x["reproduced"] for x in cands):
        cands = [x for x in cands if x["reproduced"] or not x["why"].startswith("not replayed")]
    return {"index": i, "rec": ctx.rec, "cands": cands, "queries": sub.total_queries,
            "branch_checks": sub.total_branch_checks, "replays": sub.replays, "problems": sub.problems,
            "cross_stats": sub.cross_stats}


def write_evidence(run, prop, tier, seed, wall, dump_s, violations, known_hits, nonrepro, mirs):
    recs = run.records
    functions = {}
    for r in recs:
        for k, v in r["functions"].items():
            functions.setdefault(k, {})[r["profile"]] = v
    samples = []
    for r in recs[:60]:
        samples.append({"obligation": r["id"], "profile": r["profile"], "status": r["status"], "what": r["desc"][:300],
                        "functions": sorted(r["functions"].keys()), "paths": r["paths"],
                        "paths_by_outcome": r["paths_by_outcome"], "queries": r["queries"],
                        "witnesses": r["witnesses"][:2], "notes": [n[:300] for n in r["notes"][:4]]})
    uninterp = sorted(set(x for r in recs for x in r["uninterpreted"]))
    assumed = [x for r in recs for x in r["assumed_unreachable"]]
    ev = {
        "property_id": prop,
        "tier": tier,
        "seed": seed,
        "level": "model_checking",
        "coverage": {
            "states": max(1, sum(r["paths"] for r in recs)),
            "transitions": max(1, sum(r["blocks"] for r in recs)),
            "traces_validated_against_impl": run.replays + run.validation["vectors"],
            "samples": samples or [{"note": "no obligation ran"}],
            "obligations": len(recs),
            "discharged": sum(1 for r in recs if r["status"] == "held"),
            "exhaustive": False,
            "explanation": "states = feasible symbolic paths (end states) through the encoded MIR bodies; transitions = "
                           "MIR basic blocks executed symbolically; traces_validated_against_impl = native replays of "
                           "solver models through the public API plus translator-validation vectors taken from the "
                           "repository's own test suite.",
            "functions_encoded": functions,
            "mir_tree_hash": {p: m.tree for p, m in mirs.items()},
            "bounds": "every encoded body is executed exhaustively over all feasible paths with unbounded (64-bit) data; "
                      "loops of the crate are cut at their headers (one segment from an arbitrary state), callees not "
                      "on the model/inline lists are uninterpreted (arbitrary result, havoc of &mut arguments)",
            "solver_queries": run.total_queries,
            "branch_feasibility_checks": run.total_branch_checks,
            "solver_seconds": round(sum(r["solver_s"] for r in recs), 3),
            "second_solver": run.cross_stats,
            "second_engine_kani": [dict(r["kani"], obligation=r["id"]) for r in recs if r.get("kani")],
            "uninterpreted_callees": uninterp,
            "assumed_unreachable": assumed,
            "translator_validation": run.validation,
            "mir_dump_seconds": round(dump_s, 2),
            "counterexamples_reproduced": [{"obligation": c.ob_id, "facts": c.facts, "replay": c.replay_path}
                                           for c, _ in violations],
            "known_findings_hit": [{"obligation": c.ob_id, "facts": c.facts, "finding": kf.get("id")}
                                   for c, kf, _ in known_hits],
            "non_reproducing": [{"obligation": c.ob_id, "facts": c.facts, "why": why[:300]} for c, why in nonrepro],
            "problems": run.problems,
        },
        "assumptions": [
            "rustc's MIR (pinned nightly, -Zunpretty=mir) for the flag set of each profile is what the stable toolchain compiles",
            "mirsym's translation of the supported MIR subset (counterexamples replayed natively; the integer kernels of C03 / C07 / C08 / C10 are decided a second time by Kani / CBMC over the compiled code)",
            "exact models of core/alloc functions listed in mirsym/models.py; every other callee is uninterpreted",
            "per-function / per-loop-segment scope: the induction from per-step facts to whole runs is argued in DESIGN.md, not mechanised",
        ],
        "wall_s": round(wall, 2),
        "violations": len(violations),
    }
    ev["coverage"].update(run.extra_evidence)
    os.makedirs(os.path.join(VERIF, "evidence"), exist_ok=True)
    tmp = os.path.join(VERIF, "evidence", prop + ".json.tmp")
    with open(tmp, "w") as f:
        json.dump(ev, f, indent=1, default=str)
    os.replace(tmp, os.path.join(VERIF, "evidence", prop + ".json"))


if __name__ == "__main__":
    sys.exit(main())
