"""python3-vt -m mirsym.replay_cli <replay.json>: re-run a stored counterexample against the current tree."""
import json
import sys

from . import replay


def main():
    d = json.load(open(sys.argv[1]))
    sc = d["scenario"]
    import tempfile, subprocess, os
    bins = replay.build()
    rc = 0
    for prof, b in bins.items():
        with tempfile.NamedTemporaryFile("w", suffix=".scn", delete=False, dir="/var/tmp") as f:
            f.write(sc["scenario_text"])
            path = f.name
        r = subprocess.run([b, path], stdout=subprocess.PIPE, text=True)
        os.remove(path)
        print("== %s build (exit %d)" % (prof, r.returncode))
        print(r.stdout)
    print("recorded deviation:", d.get("deviation"))


if __name__ == "__main__":
    main()
