"""The run-time half of logos 0.14 (`logos::Lexer` and its `LexerInternal` methods) as exact models, so that the
*generated* half - the DFA functions `lex`, `gotoN..`, `patternK` and their jump tables, which are part of the crate's
MIR - can be executed symbolically over a source whose bytes are solver variables.

Modelled (logos-0.14.1 src/lexer.rs, src/source.rs for `str`, src/internal.rs; each is a few lines of Rust):
  Lexer::new / Logos::lexer   token_start = token_end = 0, token = None
  <Lexer as Iterator>::next   token_start = token_end; Token::lex(self); take(token)
  read::<u8|&[u8;N]>()        Some(chunk at token_end) iff token_end + N - 1 < len
  read_at::<..>(k)            the same at token_end + k
  bump_unchecked(k)           token_end += k   (dev profile: debug_assert token_end + k <= len)
  trivia()                    token_start = token_end
  set(r) / end() / error()    token = Some(r) / None / Some(Err(())) after moving token_end up to a char boundary
  logos::skip, <Skip as CallbackResult>::construct     trivia(); Token::lex(lex)
  span / slice / remainder / morph / spanned / bump, SpannedIter::next

The lexer state lives in the pointee node of the `&mut Lexer` under string field keys; `token_end` is kept concrete
(the harnesses start at a concrete offset and every path advances it by concrete amounts), the source bytes are the
UF-indexed elements of the `str` node (`src[](i)`) and its length is a term.
"""
import re

import z3

from .sym import (Node, Cut, Unsupported, copy_node, mk_scalar, mk_bool, mk_usize, mk_unit, mk_ref, fresh_root, bv64,
                  strip_lifetimes, Event)
from .models import mk_enum, turbofish_params, call_stash, finish_call
from .itermodels import decide, fork_with

BLANKS = (0x20, 0x09, 0x0D, 0x0C)      # space, tab, CR, FF: the crate's WS rules (FF is in the rule, not in the property)


# ------------------------------------------------------------------ state access

def lexer_node(eng, a):
    """The Lexer behind a `&mut Lexer` / `&Lexer` / SpannedIter value."""
    n = a
    for _ in range(3):
        if isinstance(n.conc, tuple) and n.conc and n.conc[0] == "lexer":
            return n
        if n.fields and "end" in n.fields:
            return n
        ty = strip_lifetimes(n.ty or "")
        if ty.startswith("&") or n.target is not None:
            n = eng.deref(n)
            continue
        if "SpannedIter" in ty:
            n = eng.field(n, 0)
            continue
        break
    if not (n.fields and "end" in n.fields):
        init_lexer(eng, n, None)
    return n


def init_lexer(eng, n, src, start=None, end=None):
    """Make node `n` a modelled lexer over str node `src` (None: an arbitrary lexer, lazily named)."""
    if n.fields is None:
        n.fields = {}
    if src is None:
        src = eng.intern(n, ".source", "str")
        s = mk_usize(n.leaf(".token_start", z3.BitVecSort(64)))
        e = mk_usize(n.leaf(".token_end", z3.BitVecSort(64)))
    else:
        s = mk_usize(bv64(0) if start is None else start)
        e = mk_usize(bv64(0) if end is None else end)
    n.fields["src"] = mk_ref(src, "&str")
    n.fields["start"] = s
    n.fields["end"] = e
    n.fields["token"] = _none()
    n.conc = ("lexer",)
    return n


def _none():
    t = Node(fresh_root("e"), ty="Option")
    t.tag = bv64(0)
    t.variants = {}
    return t


def src_of(eng, lx):
    return lx.fields["src"].target


def end_of(lx):
    t = z3.simplify(lx.fields["end"].term)
    if not z3.is_bv_value(t):
        raise Unsupported("lexer position is not concrete")
    return t.as_long()


def start_term(lx):
    return lx.fields["start"].term


def src_len(eng, src):
    if isinstance(src.conc, str):
        return bv64(len(src.conc.encode()))
    return eng.length(src)


def byte_at(eng, src, i):
    if isinstance(src.conc, str):
        b = src.conc.encode()
        if i < len(b):
            return z3.BitVecVal(b[i], 8)
    return eng.scalar(eng.elem(src, bv64(i), "u8"), "u8")


def valid_utf8(eng, src, L, start=0):
    """The `str` invariant for a source of at most L bytes: src[start..len] is well-formed UTF-8 (RFC 3629 table)."""
    n = src_len(eng, src)
    b = [byte_at(eng, src, i) for i in range(L + 4)]

    def rng(x, lo, hi):
        return z3.And(z3.UGE(x, lo), z3.ULE(x, hi))
    V = {}
    for i in range(L + 4, start - 1, -1):
        if i > L:
            V[i] = n == bv64(i)
            continue
        here = n == bv64(i)
        more = z3.UGT(n, bv64(i))
        alts = []
        if i + 1 <= L + 4 and i + 1 in V:
            alts.append(z3.And(z3.ULT(b[i], 0x80), V[i + 1]))
        if i + 2 in V:
            alts.append(z3.And(rng(b[i], 0xC2, 0xDF), z3.UGT(n, bv64(i + 1)), rng(b[i + 1], 0x80, 0xBF), V[i + 2]))
        if i + 3 in V:
            second = z3.Or(z3.And(b[i] == 0xE0, rng(b[i + 1], 0xA0, 0xBF)),
                           z3.And(z3.Or(rng(b[i], 0xE1, 0xEC), rng(b[i], 0xEE, 0xEF)), rng(b[i + 1], 0x80, 0xBF)),
                           z3.And(b[i] == 0xED, rng(b[i + 1], 0x80, 0x9F)))
            alts.append(z3.And(second, z3.UGT(n, bv64(i + 2)), rng(b[i + 2], 0x80, 0xBF), V[i + 3]))
        if i + 4 in V:
            second = z3.Or(z3.And(b[i] == 0xF0, rng(b[i + 1], 0x90, 0xBF)),
                           z3.And(rng(b[i], 0xF1, 0xF3), rng(b[i + 1], 0x80, 0xBF)),
                           z3.And(b[i] == 0xF4, rng(b[i + 1], 0x80, 0x8F)))
            alts.append(z3.And(second, z3.UGT(n, bv64(i + 3)), rng(b[i + 2], 0x80, 0xBF), rng(b[i + 3], 0x80, 0xBF),
                               V[i + 4]))
        V[i] = z3.Or(here, z3.And(more, z3.Or(alts))) if alts else here
    return z3.And(V[start], z3.ULE(n, bv64(L)))


# ------------------------------------------------------------------ models

def _chunk(ctx):
    ps = turbofish_params(ctx.callee)
    t = strip_lifetimes(ps[0]).strip() if ps else ""
    if t == "u8":
        return 1, False
    m = re.fullmatch(r"&\s*\[u8;\s*(\d+)(?:_usize)?\]", t)
    if m:
        return int(m.group(1)), True
    raise Unsupported("lexer chunk type %r" % t)


def _do_read(ctx, extra):
    eng = ctx.eng
    lx = lexer_node(eng, ctx.args[0])
    size, is_arr = _chunk(ctx)
    off = end_of(lx) + extra
    src = src_of(eng, lx)
    n = src_len(eng, src)
    ctx.st.extra["lex_reads"] = max(ctx.st.extra.get("lex_reads", 0), off + size)
    cond = z3.ULT(bv64(off + size - 1), n)
    stash = call_stash(ctx, off=off, size=size, arr=is_arr, lxref=ctx.args[0])

    def some(st2, sh):
        lx2 = lexer_node(eng, sh["lxref"])
        s2 = src_of(eng, lx2)
        if sh["arr"]:
            arr = Node(fresh_root("chunk"), ty="[u8; %d]" % sh["size"])
            arr.elems = [(bv64(i), mk_scalar(byte_at(eng, s2, sh["off"] + i), "u8")) for i in range(sh["size"])]
            arr.length = bv64(sh["size"])
            val = mk_ref(arr, "&[u8; %d]" % sh["size"])
        else:
            val = mk_scalar(byte_at(eng, s2, sh["off"]), "u8")
        return finish_call(eng, st2, sh, mk_enum(eng, "Option", "Some", [val], ty=sh["dest_ty"]))

    def none(st2, sh):
        t = _none()
        t.ty = sh["dest_ty"]
        return finish_call(eng, st2, sh, t)
    return decide(eng, ctx.st, cond, stash, some, none)


def m_read(ctx):
    return _do_read(ctx, 0)


def m_read_at(ctx):
    k = z3.simplify(ctx.eng.scalar(ctx.args[1], "usize"))
    if not z3.is_bv_value(k):
        raise Unsupported("read_at with a symbolic offset")
    return _do_read(ctx, k.as_long())


def m_test(ctx):
    """test::<u8, F>(&self, f): match self.source.read::<u8>(self.token_end) { Some(c) => f(c), None => false }"""
    eng = ctx.eng
    from .sym import normalise_callee
    lx = lexer_node(eng, ctx.args[0])
    ps = turbofish_params(ctx.callee)
    if not ps or strip_lifetimes(ps[0]).strip() != "u8":
        raise Unsupported("lexer test over chunk %r" % (ps[:1],))
    f = ctx.args[1]
    target = None
    if isinstance(f.conc, tuple) and f.conc[0] == "const":
        target = eng.resolve(normalise_callee(f.conc[1]), 1)
    if target is None:
        raise Unsupported("lexer test with a predicate that is not a generated function: %r" % (f.conc,))
    off = end_of(lx)
    src = src_of(eng, lx)
    ctx.st.extra["lex_reads"] = max(ctx.st.extra.get("lex_reads", 0), off + 1)
    cond = z3.ULT(bv64(off), src_len(eng, src))
    stash = call_stash(ctx, off=off, lxref=ctx.args[0], target=target)

    def some(st2, sh):
        lx2 = lexer_node(eng, sh["lxref"])
        b = mk_scalar(byte_at(eng, src_of(eng, lx2), sh["off"]), "u8")

        def after(eng_, st3, sh3, ret):
            return finish_call(eng_, st3, sh3, ret)
        return eng.call_then(st2, sh["target"], [b], sh, after, callee="pattern")

    def none(st2, sh):
        return finish_call(eng, st2, sh, mk_bool(z3.BoolVal(False)))
    return decide(eng, ctx.st, cond, stash, some, none)


def m_bump_unchecked(ctx):
    eng = ctx.eng
    lx = lexer_node(eng, ctx.args[0])
    k = z3.simplify(eng.scalar(ctx.args[1], "usize"))
    if not z3.is_bv_value(k):
        raise Unsupported("bump_unchecked by a symbolic amount")
    new = end_of(lx) + k.as_long()
    lx.fields["end"].term = bv64(new)
    _op(ctx.st, "bump")
    if eng.profile == "dev":
        # debug_assert!(token_end + size <= source.len()) is compiled into logos in the dev profile
        ok = z3.ULE(bv64(new), src_len(eng, src_of(eng, lx)))
        stash = call_stash(ctx)

        def fine(st2, sh):
            return finish_call(eng, st2, sh, mk_unit())

        def bad(st2, sh):
            raise Cut("panic", "Bumping out of bounds!")
        return decide(eng, ctx.st, ok, stash, fine, bad)
    return ctx.ret(mk_unit())


def _op(st, what):
    st.extra["lex_ops"] = st.extra.get("lex_ops", 0) + 1
    st.extra.setdefault("lex_log", []).append(what)


def m_trivia(ctx):
    lx = lexer_node(ctx.eng, ctx.args[0])
    lx.fields["start"].term = lx.fields["end"].term
    _op(ctx.st, "trivia")
    return ctx.ret(mk_unit())


def m_set(ctx):
    lx = lexer_node(ctx.eng, ctx.args[0])
    lx.fields["token"] = mk_enum(ctx.eng, "Option", "Some", [copy_node(ctx.args[1])])
    _op(ctx.st, "set")
    return ctx.ret(mk_unit())


def m_end(ctx):
    lx = lexer_node(ctx.eng, ctx.args[0])
    lx.fields["token"] = _none()
    _op(ctx.st, "end")
    return ctx.ret(mk_unit())


def m_error(ctx):
    """token_end = source.find_boundary(token_end); token = Some(Err(()))  (`str`: while !is_char_boundary(i) {i += 1})"""
    eng = ctx.eng
    stash = call_stash(ctx, lxref=ctx.args[0], steps=0)
    _op(ctx.st, "error")

    def step(st2, sh):
        lx = lexer_node(eng, sh["lxref"])
        src = src_of(eng, lx)
        i = end_of(lx)
        n = src_len(eng, src)
        if sh["steps"] > 8:
            raise Cut("cut", "find_boundary does not stop within 8 bytes (only possible past the end of the source)")
        # str::is_char_boundary(i): i == 0 || (i < len ? (bytes[i] as i8) >= -0x40 : i == len)
        if i == 0:
            is_b = z3.BoolVal(True)
        else:
            b = byte_at(eng, src, i)
            is_b = z3.If(z3.ULT(bv64(i), n), z3.Not(z3.And(z3.UGE(b, 0x80), z3.ULE(b, 0xBF))), n == bv64(i))

        def done(st3, sh3):
            lx3 = lexer_node(eng, sh3["lxref"])
            err = mk_enum(eng, "Result", "Err", [mk_unit()])
            lx3.fields["token"] = mk_enum(eng, "Option", "Some", [err])
            return finish_call(eng, st3, sh3, mk_unit())

        def more(st3, sh3):
            lx3 = lexer_node(eng, sh3["lxref"])
            lx3.fields["end"].term = bv64(end_of(lx3) + 1)
            sh3 = dict(sh3)
            sh3["steps"] += 1
            return step(st3, sh3)
        return decide(eng, st2, is_b, sh, done, more)
    return step(ctx.st, stash)


def lex_fn_for(eng, callee):
    """The generated `<T as Logos>::lex` for the token type named in a callee's generics."""
    m = re.search(r"Lexer<(?:'\w+,\s*)?(?:[\w:]*::)?(\w+)>", callee) or re.search(r",\s*(?:[\w:]*::)?(\w+)>>?::construct", callee) \
        or re.search(r"skip::<(?:'\w+,\s*)?(?:[\w:]*::)?(\w+)>", callee)
    if not m:
        raise Unsupported("cannot tell the token type of %s" % callee)
    tok = m.group(1)
    cache = eng.__dict__.setdefault("_lexfns", {})
    if tok not in cache:
        found = None
        for name, fn in eng.funcs.items():
            if name.endswith("::lex") and fn.params and re.search(r"Lexer<(?:'\w+,\s*)?(?:[\w:]*::)?%s>" % tok, fn.params[0][1]):
                found = fn
        cache[tok] = found
    if cache[tok] is None:
        raise Unsupported("no generated lex function for %s" % tok)
    return cache[tok]


def _enter_lex(ctx, lxref, after):
    """Call Token::lex(lex); a re-entry after trivia can be cut into an event (eng.lex_reentry == 'event')."""
    eng = ctx.eng
    fn = lex_fn_for(eng, ctx.callee)
    stash = call_stash(ctx, lxref=lxref)
    return eng.call_then(ctx.st, fn, [copy_node(lxref)], stash, after, callee="Logos::lex")


def m_construct_skip(ctx):
    """<Skip as CallbackResult>::construct(self, _, lex): lex.trivia(); T::lex(lex)"""
    eng = ctx.eng
    lxref = ctx.args[2]
    lx = lexer_node(eng, lxref)
    lx.fields["start"].term = lx.fields["end"].term
    _op(ctx.st, "trivia")
    if getattr(eng, "lex_reentry", "inline") == "event":
        ev = ctx.event("Logos::lex[re-entry]", [lxref])
        ev.ret = None
        ctx.st.extra.setdefault("lex_reentries", []).append(
            {"end": end_of(lx), "ops": ctx.st.extra.get("lex_ops", 0), "token_tag": lx.fields["token"].tag})
        return ctx.ret(mk_unit())

    def after(eng_, st2, sh, ret):
        return finish_call(eng_, st2, sh, mk_unit())
    return _enter_lex(ctx, lxref, after)


def m_skip(ctx):
    n = Node(fresh_root("skip"), ty="logos::Skip")
    n.fields = {}
    return ctx.ret(n)


def m_lexer_next(ctx):
    """<Lexer as Iterator>::next: token_start = token_end; Token::lex(self); take(token)"""
    eng = ctx.eng
    lxref = ctx.args[0]
    lx = lexer_node(eng, lxref)
    lx.fields["start"].term = lx.fields["end"].term
    lx.fields["token"] = _none()

    def after(eng_, st2, sh, ret):
        lx2 = lexer_node(eng_, sh["lxref"])
        tok = copy_node(lx2.fields["token"])
        tok.ty = sh["dest_ty"]
        return finish_call(eng_, st2, sh, tok)
    return _enter_lex(ctx, lxref, after)


def m_spanned_next(ctx):
    """SpannedIter::next: self.lexer.next().map(|token| (token, self.lexer.span()))"""
    eng = ctx.eng
    lxref = ctx.args[0]
    lx = lexer_node(eng, lxref)
    lx.fields["start"].term = lx.fields["end"].term
    lx.fields["token"] = _none()

    def after(eng_, st2, sh, ret):
        lx2 = lexer_node(eng_, sh["lxref"])
        tok = lx2.fields["token"]
        t = z3.simplify(tok.tag)
        if not z3.is_bv_value(t):
            raise Unsupported("lexer token option is symbolic")
        if t.as_long() == 0:
            r = _none()
            r.ty = sh["dest_ty"]
            return finish_call(eng_, st2, sh, r)
        res = copy_node(tok.variants["Some"].fields[0])
        tup = Node(fresh_root("t"), ty="(Result, Span)")
        tup.fields = {0: res, 1: _span(lx2)}
        return finish_call(eng_, st2, sh, mk_enum(eng_, "Option", "Some", [tup], ty=sh["dest_ty"]))
    return _enter_lex(ctx, lxref, after)


def _span(lx):
    r = Node(fresh_root("span"), ty="std::ops::Range<usize>")
    r.fields = {0: mk_usize(lx.fields["start"].term), 1: mk_usize(lx.fields["end"].term)}
    return r


def m_span(ctx):
    lx = lexer_node(ctx.eng, ctx.args[0])
    ctx.st.extra["lex_reads_start"] = True
    return ctx.ret(_span(lx))


def substr(eng, src, s, e):
    """&src[s..e] as a str node: same bytes at shifted offsets when s is concrete, else an opaque identity."""
    sn = Node(fresh_root("str"), ty="str")
    f = z3.Function("text_of_span", z3.BitVecSort(64), z3.BitVecSort(64), z3.BitVecSort(64))
    sn.fields = {"sid": mk_scalar(f(s, e), "u64")}
    sn.length = e - s
    sn.conc = ("substr", src.name(), s, e)
    return sn


def m_slice(ctx):
    eng = ctx.eng
    lx = lexer_node(eng, ctx.args[0])
    ctx.st.extra["lex_reads_start"] = True
    sn = substr(eng, src_of(eng, lx), lx.fields["start"].term, lx.fields["end"].term)
    return ctx.ret(mk_ref(sn, "&str"))


def m_new(ctx):
    eng = ctx.eng
    src = eng.deref(ctx.args[0])
    if src.ty is None:
        src.ty = "str"
    n = Node(fresh_root("lexer"), ty=ctx.dest_ty)
    init_lexer(eng, n, src)
    return ctx.ret(n)


def m_morph(ctx):
    eng = ctx.eng
    lx = lexer_node(eng, ctx.args[0])
    n = Node(fresh_root("lexer"), ty=ctx.dest_ty)
    n.fields = {"src": copy_node(lx.fields["src"]), "start": copy_node(lx.fields["start"]),
                "end": copy_node(lx.fields["end"]), "token": _none()}
    n.conc = ("lexer",)
    return ctx.ret(n)


def m_spanned(ctx):
    lx = lexer_node(ctx.eng, ctx.args[0])
    n = Node(fresh_root("spanned"), ty=ctx.dest_ty or "logos::SpannedIter")
    n.fields = {0: copy_node(lx)}
    return ctx.ret(n)


def install(eng):
    mm = eng.models
    mm["<Lexer as LexerInternal>::read"] = m_read
    mm["<Lexer as LexerInternal>::read_at"] = m_read_at
    mm["<Lexer as LexerInternal>::test"] = m_test
    mm["<Lexer as LexerInternal>::bump_unchecked"] = m_bump_unchecked
    mm["<Lexer as LexerInternal>::trivia"] = m_trivia
    mm["<Lexer as LexerInternal>::set"] = m_set
    mm["<Lexer as LexerInternal>::end"] = m_end
    mm["<Lexer as LexerInternal>::error"] = m_error
    mm["logos::skip"] = m_skip
    mm["<Skip as CallbackResult>::construct"] = m_construct_skip
    mm["<Lexer as Iterator>::next"] = m_lexer_next
    mm["<SpannedIter as Iterator>::next"] = m_spanned_next
    mm["Lexer::span"] = m_span
    mm["Lexer::slice"] = m_slice
    mm["Lexer::new"] = m_new
    mm["Lexer::morph"] = m_morph
    mm["Lexer::spanned"] = m_spanned
    eng.lex_reentry = "inline"

    def m_unmodelled(ctx):
        raise Unsupported("%s is not part of the lexer model (used by a hand-written callback?)" % ctx.norm)
    eng.model_rx.append((re.compile(r"(?:logos::)?Lexer::\w+|<Lexer as \w+>::\w+|<SpannedIter as \w+>::\w+"), m_unmodelled))
