"""Obtain the MIR of /repo's *current working tree* (both arithmetic profiles) and the enum tables.

The dump is regenerated whenever the content hash of the tree changes; the hash-keyed cache under
/verif/.cache only avoids re-running rustc for an identical tree within one session.
"""
import hashlib
import os
import pickle
import re
import shutil
import subprocess
import sys
import time

from . import mirparse, sym

REPO = os.environ.get("VERIF_REPO", "/repo")
VERIF = os.path.dirname(os.path.dirname(os.path.abspath(__file__)))
CACHE = os.environ.get("VERIF_CACHE", os.path.join(VERIF, ".cache"))
NIGHTLY = os.environ.get("VERIF_NIGHTLY", "nightly")

PROFILE_FLAGS = {
    "dev": ["-C", "debug-assertions=off", "-C", "overflow-checks=on"],
    "release": ["-C", "debug-assertions=off", "-C", "overflow-checks=off"],
}


def tree_files(repo=None):
    repo = repo or REPO
    out = []
    for base in ("src",):
        for d, _, fs in os.walk(os.path.join(repo, base)):
            for f in sorted(fs):
                out.append(os.path.join(d, f))
    for f in ("Cargo.toml", "Cargo.lock"):
        p = os.path.join(repo, f)
        if os.path.exists(p):
            out.append(p)
    return sorted(out)


def tree_hash(repo=None):
    repo = repo or REPO
    h = hashlib.sha256()
    for p in tree_files(repo):
        h.update(os.path.relpath(p, repo).encode())
        h.update(b"\0")
        with open(p, "rb") as f:
            h.update(f.read())
        h.update(b"\0")
    return h.hexdigest()[:20]


def make_scratch(repo=None, tag="mir"):
    repo = repo or REPO
    d = "/var/tmp/dtrv.%s.%d.%d" % (tag, os.getpid(), int(time.time() * 1000) % 100000)
    os.makedirs(d)
    subprocess.check_call(["rsync", "-a", "--exclude", "target", "--exclude", ".git", repo + "/", d + "/"])
    return d


def dump_mir(profile, repo=None):
    """Return MIR text for `profile`, from cache if the tree hash matches."""
    repo = repo or REPO
    th = tree_hash(repo)
    cdir = os.path.join(CACHE, "mir", th)
    path = os.path.join(cdir, profile + ".txt")
    if os.path.exists(path) and os.path.getsize(path) > 1000:
        try:
            os.utime(cdir, None)              # most recently used, for the pruning below
        except OSError:
            pass
        return open(path).read(), th, 0.0
    os.makedirs(cdir, exist_ok=True)
    scratch = make_scratch(repo)
    t0 = time.time()
    try:
        env = dict(os.environ)
        env["CARGO_NET_OFFLINE"] = "true"
        env["CARGO_TARGET_DIR"] = os.path.join(CACHE, "target-mir-" + profile)
        env.pop("RUSTFLAGS", None)
        cmd = ["cargo", "+" + NIGHTLY, "rustc", "--offline", "--lib", "--", "-Zunpretty=mir"] + PROFILE_FLAGS[profile]
        p = subprocess.run(cmd, cwd=scratch, env=env, stdout=subprocess.PIPE, stderr=subprocess.PIPE, text=True)
        if p.returncode != 0 or len(p.stdout) < 1000:
            sys.stderr.write(p.stderr[-4000:])
            raise RuntimeError("MIR dump failed for profile %s (rc=%d)" % (profile, p.returncode))
        os.makedirs(cdir, exist_ok=True)      # (a concurrent run on other trees may have pruned it meanwhile)
        tmp = path + ".tmp%d" % os.getpid()
        with open(tmp, "w") as f:
            f.write(p.stdout)
        os.replace(tmp, path)
        # keep the cache small: only the 40 most recent trees
        try:
            ds = sorted((os.path.getmtime(os.path.join(CACHE, "mir", x)), x) for x in os.listdir(os.path.join(CACHE, "mir")))
            for _, x in ds[:-40]:
                shutil.rmtree(os.path.join(CACHE, "mir", x), ignore_errors=True)
        except OSError:
            pass
        return p.stdout, th, time.time() - t0
    finally:
        shutil.rmtree(scratch, ignore_errors=True)


def dump_expanded(repo=None):
    """Macro-expanded source of the current tree (`-Zunpretty=expanded`).  Only the declaration order of the local
    `enum Jump {..}` tables that the logos derive puts inside its generated functions is taken from it: MIR prints
    enum variants by name and the discriminant order of a macro-generated enum is nowhere in src/."""
    repo = repo or REPO
    th = tree_hash(repo)
    cdir = os.path.join(CACHE, "mir", th)
    path = os.path.join(cdir, "expanded.rs")
    if os.path.exists(path) and os.path.getsize(path) > 1000:
        return open(path).read()
    os.makedirs(cdir, exist_ok=True)
    scratch = make_scratch(repo, "exp")
    try:
        env = dict(os.environ)
        env["CARGO_NET_OFFLINE"] = "true"
        env["CARGO_TARGET_DIR"] = os.path.join(CACHE, "target-mir-dev")
        env.pop("RUSTFLAGS", None)
        cmd = ["cargo", "+" + NIGHTLY, "rustc", "--offline", "--lib", "--", "-Zunpretty=expanded"]
        p = subprocess.run(cmd, cwd=scratch, env=env, stdout=subprocess.PIPE, stderr=subprocess.PIPE, text=True)
        if p.returncode != 0 or len(p.stdout) < 1000:
            sys.stderr.write(p.stderr[-4000:])
            raise RuntimeError("macro expansion failed (rc=%d)" % p.returncode)
        os.makedirs(cdir, exist_ok=True)
        tmp = path + ".tmp%d" % os.getpid()
        with open(tmp, "w") as f:
            f.write(p.stdout)
        os.replace(tmp, path)
        return p.stdout
    finally:
        shutil.rmtree(scratch, ignore_errors=True)


_JUMP_RX = re.compile(r"\b(goto\w+)::Jump\b")


def rename_jump_enums(text):
    """`goto15::Jump` -> `Jump__goto15`: every generated function has its own local enum called Jump."""
    return _JUMP_RX.sub(lambda m_: "Jump__" + m_.group(1), text)


def jump_enums(expanded):
    """{'Jump__goto15': ['__', 'J5', ...]} from the expanded source (declaration order = discriminant order)."""
    out = {}
    last_fn = None
    for m_ in re.finditer(r"\bfn (goto\w+)\s*<|\benum Jump \{([^}]*)\}", expanded):
        if m_.group(1):
            last_fn = m_.group(1)
        elif last_fn is not None:
            vs = [v.strip() for v in m_.group(2).split(",") if v.strip()]
            key = "Jump__" + last_fn
            if key in out and out[key] != vs:
                out[key] = None      # two generated functions of the same name with different tables: unusable
            else:
                out[key] = vs
    return {k: v for k, v in out.items() if v}


class Mir:
    def __init__(self, profile, funcs, enums, tree, dump_s, structs=None):
        self.structs = structs or {}
        self.repo = REPO
        self.profile = profile
        self.funcs = funcs
        self.enums = enums
        self.tree = tree
        self.dump_s = dump_s

    def engine(self, **kw):
        kw.setdefault("repo_root", self.repo)
        return sym.Engine(self.funcs, self.enums, self.profile, **kw)

    def find(self, suffix, **kw):
        return sym.find_fn(self.funcs, suffix, **kw)

    def fidx(self, struct, field):
        """Field index of a crate struct (declaration order); LookupError if the struct changed shape."""
        fs = self.structs.get(struct)
        if fs is None or field not in fs:
            raise LookupError("struct %s has no field %s (fields: %s)" % (struct, field, fs))
        return fs.index(field)

    def vidx(self, enum, variant):
        vs = self.enums.get(enum)
        if vs is None or variant not in vs:
            raise LookupError("enum %s has no variant %s (variants: %s)" % (enum, variant, vs))
        return vs.index(variant)


_loaded = {}


def load(profile, repo=None):
    repo = repo or REPO
    key = (profile, repo)
    if key in _loaded:
        return _loaded[key]
    text, th, secs = dump_mir(profile, repo)
    ppath = os.path.join(CACHE, "mir", th, profile + ".pickle")
    funcs = None
    if os.path.exists(ppath):
        try:
            with open(ppath, "rb") as f:
                ver, funcs = pickle.load(f)
            if ver != _parser_version():
                funcs = None
        except Exception:
            funcs = None
    if funcs is None:
        funcs = mirparse.parse_dump(rename_jump_enums(text))
        try:
            with open(ppath + ".tmp%d" % os.getpid(), "wb") as f:
                pickle.dump((_parser_version(), funcs), f)
            os.replace(ppath + ".tmp%d" % os.getpid(), ppath)
        except Exception:
            pass
    srcs = []
    for p in tree_files(repo):
        if p.endswith(".rs"):
            srcs.append(open(p).read())
    enums = sym.parse_enums_from_source(srcs)
    if "::Jump" in text:
        enums.update(jump_enums(dump_expanded(repo)))
    m = Mir(profile, funcs, enums, th, secs, sym.parse_structs_from_source(srcs))
    m.repo = repo
    _loaded[key] = m
    return m


def _parser_version():
    h = hashlib.sha256(open(mirparse.__file__, "rb").read() + open(__file__, "rb").read()).hexdigest()[:12]
    return h
