"""Second engine: Kani 0.68 / CBMC 6.11 over the *compiled* kernels (C03, C07, C08, C10).

The harnesses live in /verif/kanix/<file>.inc and are appended, per run, to the corresponding source file of a
scratch copy of the current tree (`#[cfg(kani)] mod verif_kani { use super::*; ... }`), because the kernels are
private to their modules; /repo itself carries no hook.  `cargo kani` then compiles the real code with the harnesses
and CBMC decides every harness over all values of its `kani::any()` inputs.  A FAILED harness comes with concrete
values (`-Z concrete-playback --concrete-playback=print`), which the caller turns into a public-API scenario that is
replayed natively before anything is reported.

Verdict per harness: 'success' | 'failed' (with values) | 'error' (build failure, unwinding assertion, timeout,
out of memory, missing) - an error is inconclusive, never success.
"""
import os
import re
import shutil
import subprocess
import time

from . import frontend

KANIX = os.path.join(frontend.VERIF, "kanix")


def _parse_playback(block):
    """concrete-playback test body -> list of little-endian byte vectors (one per kani::any() call, in call order)"""
    vals = []
    for m in re.finditer(r"vec!\[([0-9,\s]*)\]", block):
        txt = m.group(1).strip()
        if not txt:
            vals.append(b"")
            continue
        try:
            vals.append(bytes(int(x) for x in txt.replace(" ", "").strip(",").split(",")))
        except ValueError:
            continue
    return vals


def le_signed(b):
    return int.from_bytes(b, "little", signed=True)


def le_unsigned(b):
    return int.from_bytes(b, "little", signed=False)


def run(files, harnesses, repo=None, tag="k", timeout=420, harness_timeout=90):
    """files: list of source files relative to src/ that get their .inc appended.
    Returns (results: {harness: dict(status, seconds, values, failed_checks, detail)}, info: dict)."""
    repo = repo or frontend.REPO
    scratch = frontend.make_scratch(repo, "kani")
    info = {"engine": "kani 0.68.0 / cbmc 6.11.0 (cadical)", "files": list(files), "build_s": None, "cmd": None}
    res = {h: {"status": "error", "seconds": 0.0, "values": None, "failed_checks": [], "detail": "not run"} for h in harnesses}
    try:
        for f in files:
            inc = os.path.join(KANIX, f + ".inc")
            dst = os.path.join(scratch, "src", f)
            if not os.path.exists(dst):
                for h in harnesses:
                    res[h]["detail"] = "source file src/%s does not exist on this tree" % f
                return res, info
            with open(dst, "a") as out:
                out.write(open(inc).read())
        env = dict(os.environ)
        env["CARGO_NET_OFFLINE"] = "true"
        env.pop("RUSTFLAGS", None)
        tdir = os.path.join(frontend.CACHE, "target-kani")      # one build cache for all properties (cargo serialises on its lock)
        cmd = ["cargo", "kani", "--target-dir", tdir, "-Z", "concrete-playback", "--concrete-playback=print",
               "-Z", "unstable-options", "--harness-timeout", "%ds" % harness_timeout]
        for h in harnesses:
            cmd += ["--harness", "verif_kani::" + h]
        info["cmd"] = " ".join(cmd)
        t0 = time.time()
        try:
            # own address-space cap for CBMC: a blow-up ends as an error, not as an exhausted machine
            p = subprocess.Popen(["bash", "-c", "ulimit -v 12000000; exec \"$@\"", "kani"] + cmd, cwd=scratch, env=env,
                                 stdout=subprocess.PIPE, stderr=subprocess.STDOUT, text=True, start_new_session=True)
            try:
                out, _ = p.communicate(timeout=timeout)
            except subprocess.TimeoutExpired:
                import signal
                try:
                    os.killpg(p.pid, signal.SIGKILL)      # cargo-kani, kani-driver and cbmc
                except OSError:
                    pass
                out, _ = p.communicate()
                raise
        except subprocess.TimeoutExpired:
            out = out or ""
            for h in harnesses:
                res[h]["detail"] = "timeout after %ds" % timeout
            # results of harnesses that finished before the timeout are still parsed below
        info["wall_s"] = round(time.time() - t0, 2)
        if "error: could not compile" in out or "error[E" in out:
            errs = [l for l in out.split("\n") if l.startswith("error")][:4]
            for h in harnesses:
                res[h]["detail"] = "harness does not compile on this tree: %s" % " | ".join(errs)[:400]
            return res, info
        # split per harness
        parts = re.split(r"^Checking harness ", out, flags=re.M)
        for part in parts[1:]:
            name = part.split("...", 1)[0].strip()
            short = name.split("::")[-1]
            if short not in res:
                continue
            r = res[short]
            m = re.search(r"Verification Time: ([0-9.]+)s", part)
            r["seconds"] = float(m.group(1)) if m else 0.0
            failed = re.findall(r"Check \d+: (\S+)\n\s+- Status: FAILURE\n\s+- Description: \"([^\"]*)\"", part)
            r["failed_checks"] = [(a, b) for a, b in failed][:10]
            if "VERIFICATION:- SUCCESSFUL" in part:
                r["status"] = "success"
                r["detail"] = ""
            elif "VERIFICATION:- FAILED" in part:
                if any("unwinding assertion" in b for _, b in failed):
                    r["status"] = "error"
                    r["detail"] = "unwinding assertion failed: the bound is too small, nothing is decided"
                elif "Status: ERROR" in part or "CBMC failed" in part or "out of memory" in part.lower():
                    r["status"] = "error"
                    r["detail"] = "CBMC timed out (harness cap)" if "CBMC timed out" in part else "CBMC error / out of memory"
                else:
                    r["status"] = "failed"
                    r["detail"] = "; ".join(b for _, b in failed)[:300]
                    pb = re.search(r"Concrete playback unit test for `[^`]*`:(.*?)(?:^INFO|\Z)", part, flags=re.S | re.M)
                    r["values"] = _parse_playback(pb.group(1)) if pb else None
            else:
                r["status"] = "error"
                r["detail"] = "no verdict in the output: %s" % part[-300:]
        for h in harnesses:
            if res[h]["detail"] == "not run":
                res[h]["detail"] = "harness was not run: %s" % out[-400:]
        return res, info
    finally:
        shutil.rmtree(scratch, ignore_errors=True)
