"""Models of slices, Vec, iterator adaptors/consumers and strings for mirsym.

Iterators are lazy descriptor nodes (conc = ("iter", kind), components in .fields) that are *driven* by the
consumers (collect, any, position, find_map, next, ...) in continuation-passing style, invoking closure
bodies from the MIR dump. Slice lengths may be symbolic: every `is there another element?` question forks
on the solver, up to `eng.iter_bound` elements per iterator (beyond that the path is cut and reported as
outside the bound).  Strings are abstracted to identities: equality of contents is equality of an
uninterpreted 64-bit id (reflexive, symmetric, transitive - all that `==` code can observe).
"""
import itertools
import re
import zlib

import z3

from . import mirparse
from .sym import (Node, Cut, Unsupported, copy_node, assign_node, mk_scalar, mk_bool, mk_usize, mk_unit, mk_ref,
                  fresh_root, bv64, BV64, strip_ref, elem_ty, type_head, scalar_kind, strip_lifetimes, Event)
from .models import (CallCtx, mk_enum, payload, finish_call, call_stash, closure_of, _ctor_of, apply_ctor, vec_slice,
                     generic_args, type_params, turbofish_params, _opt_tag)

_fw = itertools.count()


def fork_with(eng, st, payload_obj, alts, site="model"):
    """Fork `st`; each alternative fn(s2, payload2) gets the payload re-fetched from its own state."""
    key = "_fw%d" % next(_fw)
    st.extra[key] = payload_obj

    def mk(fn):
        def cont(s2):
            eng.cur_state = s2
            pl = s2.extra.pop(key)
            try:
                r = fn(s2, pl)
            except Cut as c:
                eng._end(s2, c.outcome, c.detail, c.ret, site=site)
                return
            except Unsupported as e:
                eng._end(s2, "unsupported", str(e), site=site)
                return
            if r:
                eng._run(s2)
        return cont
    eng._fork(st, [(c, mk(f)) for c, f in alts])
    return None


def decide(eng, st, cond, payload_obj, if_true, if_false, site="model"):
    """Branch on a boolean term: concrete -> direct call, otherwise a solver-pruned fork."""
    c = z3.simplify(cond)
    if z3.is_true(c):
        return if_true(st, payload_obj)
    if z3.is_false(c):
        return if_false(st, payload_obj)
    return fork_with(eng, st, payload_obj, [(c, if_true), (z3.Not(c), if_false)], site)


# ------------------------------------------------------------------ iterator descriptors

def mk_iter(kind, fields, ty=None):
    n = Node(fresh_root("it"), ty=ty)
    n.conc = ("iter", kind)
    n.fields = dict(enumerate(fields))
    return n


def is_iter(n):
    return n is not None and isinstance(n.conc, tuple) and n.conc[0] == "iter"


def slice_of(eng, n):
    """The slice node behind a `&[T]`, `&Vec<T>`, `&mut Vec<T>` or Vec<T> value."""
    t = n
    if t.target is not None or (t.ty and strip_ref(t.ty) is not None and not type_head(t.ty) == "Box"):
        if t.vec is None and t.length is None and t.elems is None:
            t = eng.deref(t)
    if t.vec is not None or (t.ty and re.match(r"(std::vec::)?Vec<", strip_lifetimes(t.ty))):
        t = vec_slice(eng, t)
    return t


def slice_iter(eng, sl, by_value=False, ty=None):
    return mk_iter("slice", [mk_ref(sl), mk_usize(bv64(0)), mk_usize(eng.length(sl)), mk_bool(z3.BoolVal(by_value))], ty)


def kind_of(it):
    return it.conc[1]


def it_next(eng, st, it, stash, k, back=False):
    """Drive iterator node `it` one step; then k(eng, st, stash, item_or_None)."""
    if not is_iter(it):
        raise Unsupported("next() on a value that is not a modelled iterator (%r)" % it.ty)
    kind = kind_of(it)
    f = it.fields
    if kind == "slice":
        sl = f[0].target
        front, backc = f[1].term, f[2].term
        by_value = z3.is_true(f[3].term)

        def some(st2, pl):
            it2, stash2 = pl
            ff = it2.fields
            s2 = ff[0].target
            if back:
                idx = z3.simplify(ff[2].term - bv64(1))
                ff[2].term = idx
            else:
                idx = z3.simplify(ff[1].term)
                ff[1].term = z3.simplify(idx + bv64(1))
            el = index_elem(eng, st2, s2, idx)
            item = copy_node(el) if by_value else mk_ref(el)
            return k(eng, st2, stash2, item)

        def none(st2, pl):
            return k(eng, st2, pl[1], None)
        # unwinding bound on the number of elements taken from one iterator
        taken = z3.simplify(front)
        if z3.is_bv_value(taken) and taken.as_long() >= eng.iter_bound and not back:
            c = z3.simplify(z3.ULT(front, backc))
            if not z3.is_false(c):
                def cut(st2, pl):
                    raise Cut("cut", "iterator bound %d" % eng.iter_bound)
                return decide(eng, st, c, (it, stash), cut, none)
        return decide(eng, st, z3.ULT(front, backc), (it, stash), some, none)
    if kind == "range":
        cur, end = f[0], f[1]
        sg = scalar_kind(cur.ty)[2] if scalar_kind(cur.ty) else False
        lt = (cur.term < end.term) if sg else z3.ULT(cur.term, end.term)

        def some(st2, pl):
            it2, stash2 = pl
            c2, e2 = it2.fields[0], it2.fields[1]
            one = z3.BitVecVal(1, c2.term.size())
            if back:
                e2.term = z3.simplify(e2.term - one)
                item = mk_scalar(e2.term, c2.ty)
            else:
                item = mk_scalar(c2.term, c2.ty)
                c2.term = z3.simplify(c2.term + one)
            cnt = it2.fields[2]
            cnt.term = z3.simplify(cnt.term + bv64(1))
            return k(eng, st2, stash2, item)

        def none(st2, pl):
            return k(eng, st2, pl[1], None)
        cnt = z3.simplify(f[2].term)
        if z3.is_bv_value(cnt) and cnt.as_long() >= max(eng.iter_bound, eng.range_bound):
            c = z3.simplify(lt)
            if not z3.is_false(c):
                def cut(st2, pl):
                    raise Cut("cut", "range bound")
                return decide(eng, st, c, (it, stash), cut, none)
        return decide(eng, st, lt, (it, stash), some, none)
    if kind == "map":
        def k2(eng_, st2, sh, item):
            if item is None:
                return k(eng_, st2, sh["stash"], None)
            fn = sh["it"].fields[1]
            ctor = _ctor_of(fn)
            if ctor is not None:
                # function items that only re-type a string reference: same contents, same identity
                if re.search(r"(?:String::as_str|<String as Deref>::deref|<String as AsRef<str>>::as_ref|<str as AsRef<str>>::as_ref)$", str(ctor)):
                    return k(eng_, st2, sh["stash"], item)
                raise Unsupported("map over fn item %s" % ctor)
            clos = closure_of(eng_, fn)
            if clos is None:
                raise Unsupported("map with unknown callable")

            def k3(eng__, st3, sh3, ret):
                return k(eng__, st3, sh3["stash"], copy_node(ret))
            return eng_.call_closure(st2, clos, [item], sh, k3)
        return it_next(eng, st, f[0], {"it": it, "stash": stash}, k2, back)
    if kind == "cloned":
        def k2(eng_, st2, sh, item):
            if item is None:
                return k(eng_, st2, sh["stash"], None)
            return k(eng_, st2, sh["stash"], copy_node(eng_.deref(item)))
        return it_next(eng, st, f[0], {"it": it, "stash": stash}, k2, back)
    if kind == "rev":
        return it_next(eng, st, f[0], stash, k, not back)
    if kind == "enumerate":
        if back:
            inner = f[0]
            if not is_iter(inner) or kind_of(inner) != "slice":
                raise Unsupported("rev() of enumerate over a non-slice iterator")

            def k2(eng_, st2, sh, item):
                if item is None:
                    return k(eng_, st2, sh["stash"], None)
                it2 = sh["it"]
                inn = it2.fields[0]
                # index = count + remaining length after taking from the back
                idx = z3.simplify(it2.fields[1].term + (inn.fields[2].term - inn.fields[1].term))
                tup = Node(fresh_root("t"))
                tup.fields = {0: mk_usize(idx), 1: item}
                return k(eng_, st2, sh["stash"], tup)
            return it_next(eng, st, inner, {"it": it, "stash": stash}, k2, True)

        def k2(eng_, st2, sh, item):
            if item is None:
                return k(eng_, st2, sh["stash"], None)
            it2 = sh["it"]
            idx = it2.fields[1].term
            it2.fields[1].term = z3.simplify(idx + bv64(1))
            tup = Node(fresh_root("t"))
            tup.fields = {0: mk_usize(idx), 1: item}
            return k(eng_, st2, sh["stash"], tup)
        return it_next(eng, st, f[0], {"it": it, "stash": stash}, k2, False)
    if kind == "zip":
        if back:
            raise Unsupported("rev() of zip")

        def ka(eng_, st2, sh, a):
            if a is None:
                return k(eng_, st2, sh["stash"], None)
            sh["a"] = a

            def kb(eng__, st3, sh3, b):
                if b is None:
                    return k(eng__, st3, sh3["stash"], None)
                tup = Node(fresh_root("t"))
                tup.fields = {0: sh3["a"], 1: b}
                return k(eng__, st3, sh3["stash"], tup)
            return it_next(eng_, st2, sh["it"].fields[1], sh, kb)
        return it_next(eng, st, f[0], {"it": it, "stash": stash}, ka)
    if kind == "chain":
        if back:
            raise Unsupported("rev() of chain")

        def ka(eng_, st2, sh, a):
            if a is not None:
                return k(eng_, st2, sh["stash"], a)
            return it_next(eng_, st2, sh["it"].fields[1], sh["stash"], k)
        return it_next(eng, st, f[0], {"it": it, "stash": stash}, ka)
    if kind in ("filter", "filter_map"):
        def k2(eng_, st2, sh, item):
            if item is None:
                return k(eng_, st2, sh["stash"], None)
            clos = closure_of(eng_, sh["it"].fields[1])
            if clos is None:
                raise Unsupported("%s with unknown callable" % kind)
            sh["item"] = item

            def k3(eng__, st3, sh3, ret):
                if kind == "filter":
                    t = eng__.scalar(ret, "bool")

                    def yes(st4, pl):
                        return k(eng__, st4, pl["stash"], pl["item"])

                    def no(st4, pl):
                        return it_next(eng__, st4, pl["it"], pl["stash"], k, back)
                    return decide(eng__, st3, t, sh3, yes, no)
                ret = copy_node(ret)
                if ret.ty is None:
                    ret.ty = "Option"
                tag = eng__.tag_of(ret, st3)
                sh3["ret"] = ret

                def yes(st4, pl):
                    return k(eng__, st4, pl["stash"], copy_node(payload(eng__, pl["ret"], "Some", 0)))

                def no(st4, pl):
                    return it_next(eng__, st4, pl["it"], pl["stash"], k, back)
                return decide(eng__, st3, tag == bv64(1), sh3, yes, no)
            arg = mk_ref(item) if kind == "filter" else item
            return eng_.call_closure(st2, clos, [arg], sh, k3)
        return it_next(eng, st, f[0], {"it": it, "stash": stash}, k2, back)
    raise Unsupported("iterator kind %s" % kind)


def index_elem(eng, st, sl, idx):
    """Element node of slice `sl` at index term idx (no bounds check). Concrete vectors indexed by a symbolic
    index are split over their elements by the caller (NeedSplit)."""
    idx = z3.simplify(idx)
    if sl.elems and not z3.is_bv_value(idx) and any(z3.is_bv_value(i) for i, _ in sl.elems):
        for i, e in sl.elems:
            if z3.eq(i, idx):
                return e
        # is the index forced to one value by the path condition?
        eng.stats["solver_checks"] += 1
        if eng.solver.check() == z3.sat:
            v = eng.solver.model().eval(idx, model_completion=True)
            eng.solver.push()
            eng.solver.add(idx != v)
            forced = eng.solver.check() == z3.unsat
            eng.solver.pop()
            if forced:
                for i, e in sl.elems:
                    if z3.eq(i, v):
                        return e
        merged = _table_lookup(sl, idx)
        if merged is not None:
            return merged
        raise NeedSplit([idx == i for i, _ in sl.elems if z3.is_bv_value(i)])
    return eng.elem(sl, idx)


_TABLES = {}


def _table_lookup(sl, idx):
    """Constant table (>= 16 entries of plain integers or field-less enum values) read at a symbolic index: one
    if-then-else term over index ranges instead of one path per entry."""
    if len(sl.elems) < 16:
        return None
    ent = _TABLES.get(id(sl.elems))
    if ent is None or ent[0] is not sl.elems:
        groups = {}
        mode = None
        ok = True
        for i, e in sl.elems:
            if not z3.is_bv_value(i):
                ok = False
                break
            if e.term is not None and e.tag is None and not e.fields and not e.variants and z3.is_bv_value(z3.simplify(e.term)):
                k, v = "term", z3.simplify(e.term)
            elif e.tag is not None and e.term is None and not e.fields and z3.is_bv_value(e.tag) and \
                    all(not pv.fields for pv in (e.variants or {}).values()):
                k, v = "tag", e.tag
            else:
                ok = False
                break
            if mode is None:
                mode = k
            elif mode != k:
                ok = False
                break
            groups.setdefault(v.as_long(), (v, []))[1].append(i.as_long())
        if not ok:
            ent = (sl.elems, None, None)
        else:
            items = []
            for v, idxs in sorted(groups.values(), key=lambda t: -len(t[1])):
                idxs = sorted(idxs)
                rs = []
                for x in idxs:
                    if rs and rs[-1][1] == x - 1:
                        rs[-1][1] = x
                    else:
                        rs.append([x, x])
                items.append((v, rs))
            ent = (sl.elems, mode, items)
        if sl.conc is not None and len(_TABLES) < 4096:
            _TABLES[id(sl.elems)] = ent
    _, mode, items = ent
    if mode is None:
        return None
    val = items[0][0]
    w = idx.size()
    for v, rs in items[1:]:
        cs = [(idx == z3.BitVecVal(lo, w)) if lo == hi else z3.And(z3.UGE(idx, z3.BitVecVal(lo, w)), z3.ULE(idx, z3.BitVecVal(hi, w)))
              for lo, hi in rs]
        val = z3.If(z3.Or(cs) if len(cs) > 1 else cs[0], v, val)
    proto = sl.elems[0][1]
    out = Node(fresh_root("tbl"), ty=proto.ty)
    if mode == "term":
        out.term = val
    else:
        out.tag = val
        out.variants = {}
    return out


class NeedSplit(Exception):
    def __init__(self, conds):
        self.conds = conds


# ------------------------------------------------------------------ adaptors (constructors of descriptors)

def m_slice_iter(ctx):
    sl = slice_of(ctx.eng, ctx.args[0])
    return ctx.ret(slice_iter(ctx.eng, sl, False, ctx.dest_ty))


def m_into_iter(ctx):
    a = ctx.args[0]
    if is_iter(a):
        return ctx.ret(a)
    self_ty, _ = generic_args(ctx.callee)
    st = strip_lifetimes(self_ty or "")
    if st.startswith("&"):
        return ctx.ret(slice_iter(ctx.eng, slice_of(ctx.eng, a), False, ctx.dest_ty))
    if re.match(r"(std::vec::)?Vec<", st):
        return ctx.ret(slice_iter(ctx.eng, vec_slice(ctx.eng, a), True, ctx.dest_ty))
    if re.match(r"(std::ops::)?Range<", st):
        return ctx.ret(range_iter(ctx.eng, a, ctx.dest_ty))
    return ctx.eng.uninterpreted(ctx.st, ctx.frame, ctx.dest, ctx.dest_ty, ctx.ret_bb, ctx.callee, ctx.norm,
                                 ctx.args, ctx.site)


def range_iter(eng, r, ty=None):
    s = eng.field(r, 0)
    e = eng.field(r, 1)
    if scalar_kind(s.ty) is None:
        m = re.search(r"Range<([iu]\w+)>", r.ty or "")
        s.ty = e.ty = m.group(1) if m else "usize"
    eng.scalar(s)
    eng.scalar(e, s.ty)
    return mk_iter("range", [copy_node(s), copy_node(e), mk_usize(bv64(0))], ty)


def as_iter(eng, n):
    if is_iter(n):
        return n
    t = strip_lifetimes(n.ty or "")
    if re.match(r"(std::ops::)?Range<", t) or (n.fields and set(n.fields.keys()) == {0, 1} and n.conc is None
                                                 and scalar_kind(n.fields[0].ty)):
        return range_iter(eng, n)
    if n.target is not None or t.startswith("&") or re.match(r"(std::vec::)?Vec<", t) or n.vec is not None:
        return slice_iter(eng, slice_of(eng, n), not (n.target is not None or t.startswith("&")))
    raise Unsupported("cannot view %r as an iterator" % n.ty)


def m_adaptor(kind, nargs):
    def model(ctx):
        try:
            inner = as_iter(ctx.eng, ctx.args[0])
        except Unsupported:
            return ctx.eng.uninterpreted(ctx.st, ctx.frame, ctx.dest, ctx.dest_ty, ctx.ret_bb, ctx.callee,
                                         ctx.norm, ctx.args, ctx.site)
        if kind == "enumerate":
            return ctx.ret(mk_iter("enumerate", [inner, mk_usize(bv64(0))], ctx.dest_ty))
        if kind == "zip" or kind == "chain":
            other = as_iter(ctx.eng, ctx.args[1])
            return ctx.ret(mk_iter(kind, [inner, other], ctx.dest_ty))
        if nargs == 1:
            return ctx.ret(mk_iter(kind, [inner], ctx.dest_ty))
        return ctx.ret(mk_iter(kind, [inner, ctx.args[1]], ctx.dest_ty))
    return model


# ------------------------------------------------------------------ consumers

def new_vec(ty=None):
    v = Node(fresh_root("vec"), ty=ty)
    s = Node(fresh_root("buf"), ty=("[%s]" % elem_ty(ty)) if elem_ty(ty) else None)
    s.length = bv64(0)
    s.elems = []
    v.vec = s
    return v


def vec_push(eng, v, item):
    s = vec_slice(eng, v)
    n = z3.simplify(eng.length(s))
    if s.elems is None:
        s.elems = []
    s.elems.append((n, item))
    s.length = z3.simplify(n + bv64(1))


def m_collect(ctx):
    eng = ctx.eng
    it = ctx.args[0]
    tps = turbofish_params(ctx.callee)
    target = strip_lifetimes(tps[0]) if tps else strip_lifetimes(ctx.dest_ty or "")
    target = re.sub(r"\bstd::(vec|result|option)::", "", target)
    if not is_iter(it):
        return eng.uninterpreted(ctx.st, ctx.frame, ctx.dest, ctx.dest_ty, ctx.ret_bb, ctx.callee, ctx.norm,
                                 ctx.args, ctx.site)
    if target.startswith("Vec<"):
        mode = "vec"
    elif target.startswith("Result<Vec<"):
        mode = "result"
    else:
        mode = "opaque"     # HashMap / HashSet / String: the elements are produced, the container is opaque
    acc = new_vec(ctx.dest_ty if mode == "vec" else None)
    stash = call_stash(ctx, it=it, acc=acc, mode=mode, callee=ctx.callee, norm=ctx.norm, site=ctx.site)
    return _collect_step(eng, ctx.st, stash)


def _collect_step(eng, st, stash):
    return it_next(eng, st, stash["it"], stash, _collect_k)


def _collect_k(eng, st, stash, item):
    mode = stash["mode"]
    if item is None:
        if mode == "vec":
            return finish_call(eng, st, stash, stash["acc"])
        if mode == "result":
            return finish_call(eng, st, stash, mk_enum(eng, "Result", "Ok", [stash["acc"]], ty=stash["dest_ty"]))
        # opaque container built from the produced elements: an event carrying them
        ret = Node(fresh_root("c"), ty=stash["dest_ty"])
        ev = Event(stash["callee"], "collect[%s]" % type_head(stash["dest_ty"] or "?"),
                   [copy_node(stash["acc"])], ret, stash["site"], len(st.frames))
        st.trace.append(ev)
        return finish_call(eng, st, stash, ret)
    if mode == "result":
        item = copy_node(item)
        if item.ty is None:
            item.ty = "Result"
        tag = eng.tag_of(item, st)
        stash["item"] = item

        def ok(st2, pl):
            vec_push(eng, pl["acc"], copy_node(payload(eng, pl["item"], "Ok", 0)))
            return _collect_step(eng, st2, pl)

        def err(st2, pl):
            e = copy_node(payload(eng, pl["item"], "Err", 0))
            return finish_call(eng, st2, pl, mk_enum(eng, "Result", "Err", [e], ty=pl["dest_ty"]))
        return decide(eng, st, tag == bv64(0), stash, ok, err)
    vec_push(eng, stash["acc"], item)
    return _collect_step(eng, st, stash)


def m_consumer(kind):
    """any / all / position / find / find_map / count / next / last / for_each-less consumers."""
    def model(ctx):
        eng = ctx.eng
        a0 = ctx.args[0]
        by_ref = False
        it = a0
        if not is_iter(it) and a0.target is not None and is_iter(a0.target):
            it = a0.target      # `&mut iter`
            by_ref = True
        if not is_iter(it):
            return eng.uninterpreted(ctx.st, ctx.frame, ctx.dest, ctx.dest_ty, ctx.ret_bb, ctx.callee, ctx.norm,
                                     ctx.args, ctx.site)
        fn = ctx.args[1] if len(ctx.args) > 1 else None
        stash = call_stash(ctx, it=it, fn=fn, kind=kind, n=mk_usize(bv64(0)), last=None)
        return _consume_step(eng, ctx.st, stash)
    return model


def _none(ty=None):
    n = Node(fresh_root("e"), ty=ty or "Option")
    n.tag = bv64(0)
    n.variants = {}
    return n


def _consume_step(eng, st, stash):
    return it_next(eng, st, stash["it"], stash, _consume_k)


def _consume_k(eng, st, stash, item):
    kind = stash["kind"]
    dty = stash["dest_ty"]
    if kind == "next":
        if item is None:
            return finish_call(eng, st, stash, _none(dty))
        return finish_call(eng, st, stash, mk_enum(eng, "Option", "Some", [item], ty=dty))
    if item is None:
        if kind == "any":
            return finish_call(eng, st, stash, mk_bool(z3.BoolVal(False)))
        if kind == "all":
            return finish_call(eng, st, stash, mk_bool(z3.BoolVal(True)))
        if kind == "count":
            return finish_call(eng, st, stash, mk_usize(stash["n"].term))
        if kind == "last":
            if stash["last"] is None:
                return finish_call(eng, st, stash, _none(dty))
            return finish_call(eng, st, stash, mk_enum(eng, "Option", "Some", [stash["last"]], ty=dty))
        return finish_call(eng, st, stash, _none(dty))    # position / find / find_map
    if kind == "count":
        stash["n"].term = z3.simplify(stash["n"].term + bv64(1))
        return _consume_step(eng, st, stash)
    if kind == "last":
        stash["last"] = item
        return _consume_step(eng, st, stash)
    clos = closure_of(eng, stash["fn"])
    if clos is None:
        raise Unsupported("%s with unknown callable" % kind)
    stash["item"] = item

    def after(eng_, st2, sh, ret):
        k = sh["kind"]
        if k == "find_map":
            ret = copy_node(ret)
            if ret.ty is None:
                ret.ty = "Option"
            tag = eng_.tag_of(ret, st2)
            sh["ret"] = ret

            def yes(st3, pl):
                return finish_call(eng_, st3, pl, pl["ret"])

            def no(st3, pl):
                return _consume_step(eng_, st3, pl)
            return decide(eng_, st2, tag == bv64(1), sh, yes, no)
        t = eng_.scalar(ret, "bool")

        def yes(st3, pl):
            k3 = pl["kind"]
            if k3 == "any":
                return finish_call(eng_, st3, pl, mk_bool(z3.BoolVal(True)))
            if k3 == "all":
                pl["n"].term = z3.simplify(pl["n"].term + bv64(1))
                return _consume_step(eng_, st3, pl)
            if k3 == "position":
                return finish_call(eng_, st3, pl, mk_enum(eng_, "Option", "Some", [mk_usize(pl["n"].term)],
                                                          ty=pl["dest_ty"]))
            if k3 == "find":
                return finish_call(eng_, st3, pl, mk_enum(eng_, "Option", "Some", [pl["item"]], ty=pl["dest_ty"]))
            raise Unsupported("consumer " + k3)

        def no(st3, pl):
            k3 = pl["kind"]
            if k3 == "all":
                return finish_call(eng_, st3, pl, mk_bool(z3.BoolVal(False)))
            pl["n"].term = z3.simplify(pl["n"].term + bv64(1))
            return _consume_step(eng_, st3, pl)
        return decide(eng_, st2, t, sh, yes, no)
    arg = mk_ref(item) if kind == "find" else item
    return eng.call_closure(st, clos, [arg], stash, after)


# ------------------------------------------------------------------ Vec / slice methods

def m_vec_push(ctx):
    v = ctx.eng.deref(ctx.args[0])
    vec_push(ctx.eng, v, ctx.args[1])
    return ctx.ret(mk_unit())


def m_vec_with_capacity(ctx):
    return ctx.ret(new_vec(ctx.dest_ty))


def m_vec_pop(ctx):
    eng = ctx.eng
    v = eng.deref(ctx.args[0])
    s = vec_slice(eng, v)
    ln = eng.length(s)

    def empty(st2, pl):
        c2 = pl
        return finish_call(eng, st2, c2, _none(c2["dest_ty"]))

    def nonempty(st2, pl):
        vv = eng.deref(pl["v"])
        ss = vec_slice(eng, vv)
        idx = z3.simplify(eng.length(ss) - bv64(1))
        el = index_elem(eng, st2, ss, idx)
        item = copy_node(el)
        if ss.elems:
            ss.elems = [(i, e) for i, e in ss.elems if not z3.eq(i, idx)]
        ss.length = idx
        return finish_call(eng, st2, pl, mk_enum(eng, "Option", "Some", [item], ty=pl["dest_ty"]))
    stash = call_stash(ctx, v=ctx.args[0])
    return decide(eng, ctx.st, ln == bv64(0), stash, empty, nonempty)


def m_slice_last(ctx):
    eng = ctx.eng
    s = slice_of(eng, ctx.args[0])
    ln = eng.length(s)
    mutable = ctx.norm.endswith("last_mut")

    def empty(st2, pl):
        return finish_call(eng, st2, pl, _none(pl["dest_ty"]))

    def nonempty(st2, pl):
        ss = slice_of(eng, pl["a"])
        idx = z3.simplify(eng.length(ss) - bv64(1))
        el = index_elem(eng, st2, ss, idx)
        return finish_call(eng, st2, pl, mk_enum(eng, "Option", "Some", [mk_ref(el)], ty=pl["dest_ty"]))
    return decide(eng, ctx.st, ln == bv64(0), call_stash(ctx, a=ctx.args[0]), empty, nonempty)


def m_vec_extend(ctx):
    """Vec::extend(&mut v, iterable) for a modelled iterable: pushes its items in order."""
    eng = ctx.eng
    try:
        it = as_iter(eng, ctx.args[1])
    except Unsupported:
        return eng.uninterpreted(ctx.st, ctx.frame, ctx.dest, ctx.dest_ty, ctx.ret_bb, ctx.callee, ctx.norm,
                                 ctx.args, ctx.site)
    stash = call_stash(ctx, it=it, vref=ctx.args[0])

    def k(eng_, st, sh, item):
        if item is None:
            return finish_call(eng_, st, sh, mk_unit())
        vec_push(eng_, eng_.deref(sh["vref"]), item)
        return it_next(eng_, st, sh["it"], sh, k)
    return it_next(eng, ctx.st, it, stash, k)


def m_slice_get(ctx):
    """[T]::get(i) / Vec::get(i) with a usize index: Some(&self[i]) iff i < len."""
    eng = ctx.eng
    tps = turbofish_params(ctx.callee)
    if tps and strip_lifetimes(tps[0]).strip() not in ("usize",):
        return eng.uninterpreted(ctx.st, ctx.frame, ctx.dest, ctx.dest_ty, ctx.ret_bb, ctx.callee, ctx.norm, ctx.args, ctx.site)
    s = slice_of(eng, ctx.args[0])
    idx = eng.scalar(ctx.args[1], "usize")
    inb = z3.ULT(idx, eng.length(s))

    def some(st2, pl):
        ss = slice_of(eng, pl["a"])
        el = index_elem(eng, st2, ss, idx)
        return finish_call(eng, st2, pl, mk_enum(eng, "Option", "Some", [mk_ref(el)], ty=pl["dest_ty"]))

    def none(st2, pl):
        return finish_call(eng, st2, pl, _none(pl["dest_ty"]))
    return decide(eng, ctx.st, inb, call_stash(ctx, a=ctx.args[0]), some, none)


def m_vec_truncate(ctx):
    eng = ctx.eng
    v = eng.deref(ctx.args[0])
    s = vec_slice(eng, v)
    n = eng.scalar(ctx.args[1], "usize")
    ln = eng.length(s)
    new_len = z3.simplify(z3.If(z3.ULT(n, ln), n, ln))
    if s.elems:
        keep = []
        for i, e in s.elems:
            c = z3.simplify(z3.ULT(i, new_len))
            if z3.is_false(c):
                continue
            keep.append((i, e))
        s.elems = keep
    s.length = new_len
    return ctx.ret(mk_unit())


def m_vec_clone(ctx):
    eng = ctx.eng
    src = eng.deref(ctx.args[0])
    s = vec_slice(eng, src)
    v = Node(fresh_root("vec"), ty=src.ty)
    b = copy_node(s)
    # a clone is a distinct buffer: if the source is lazily symbolic the copy keeps its names (same contents)
    v.vec = b
    return ctx.ret(v)


def m_index_mut(ctx):
    from .models import m_index_usize
    return m_index_usize(ctx)


def m_from_elem(ctx):
    """vec![x; n]"""
    eng = ctx.eng
    x, n = ctx.args
    nt = z3.simplify(eng.scalar(n, "usize"))
    v = new_vec(ctx.dest_ty)
    if z3.is_bv_value(nt):
        for _ in range(nt.as_long()):
            vec_push(eng, v, copy_node(x))
        return ctx.ret(v)
    # symbolic length: every element equals x -> a lazily symbolic buffer whose reads all give x
    s = v.vec
    s.length = nt
    s.elems = None
    s.conc = ("fill", None)
    s.fields = {0: copy_node(x)}
    return ctx.ret(v)


def m_contains(ctx):
    """[T]::contains(&x) for scalar T over a bounded/concrete slice: disjunction of equalities."""
    eng = ctx.eng
    s = slice_of(eng, ctx.args[0])
    x = eng.deref(ctx.args[1])
    ln = z3.simplify(eng.length(s))
    if not z3.is_bv_value(ln):
        return eng.uninterpreted(ctx.st, ctx.frame, ctx.dest, ctx.dest_ty, ctx.ret_bb, ctx.callee, ctx.norm,
                                 ctx.args, ctx.site)
    xt = eng.scalar(x, elem_ty(s.ty))
    terms = []
    for i in range(ln.as_long()):
        terms.append(eng.scalar(eng.elem(s, bv64(i)), x.ty) == xt)
    return ctx.ret(mk_bool(z3.Or(terms) if terms else z3.BoolVal(False)))


# ------------------------------------------------------------------ strings as identities

def str_id(eng, n):
    """64-bit identity of the contents of a str/String node."""
    t = n
    if t.conc is None and t.target is not None:
        t = t.target
    if isinstance(t.conc, str):
        return bv64(zlib.crc32(t.conc.encode()) | (1 << 62) | (len(t.conc) << 32))
    if t.vec is not None:
        t = t.vec
    f = t.fields.get("sid") if t.fields else None
    if f is None:
        if t.fields is None:
            t.fields = {}
        f = Node(t.root, t.idxs, t.path + ".sid", "u64")
        f.term = f.leaf("", BV64)
        t.fields["sid"] = f
    return f.term


def _str_node(eng, n):
    """Follow references down to the str/String content node."""
    t = n
    for _ in range(4):
        if isinstance(t.conc, str) or (t.fields and "sid" in t.fields):
            return t
        ty = strip_lifetimes(t.ty or "")
        if t.target is not None or ty.startswith("&"):
            t = eng.deref(t)
            continue
        break
    return t


def m_str_eq(ctx):
    eng = ctx.eng
    a = _str_node(eng, ctx.args[0])
    b = _str_node(eng, ctx.args[1])
    eq = str_id(eng, a) == str_id(eng, b)
    if ctx.norm.endswith("::ne"):
        eq = z3.Not(eq)
    return ctx.ret(mk_bool(eq))


def m_string_clone(ctx):
    eng = ctx.eng
    a = _str_node(eng, ctx.args[0])
    n = Node(fresh_root("s"), ty=ctx.dest_ty or "String")
    n.fields = {"sid": mk_scalar(str_id(eng, a), "u64")}
    if isinstance(a.conc, str):
        n.conc = a.conc
    return ctx.ret(n)


def m_string_deref(ctx):
    eng = ctx.eng
    a = _str_node(eng, ctx.args[0])
    s = Node(fresh_root("str"), ty="str")
    s.fields = {"sid": mk_scalar(str_id(eng, a), "u64")}
    if isinstance(a.conc, str):
        s.conc = a.conc
    return ctx.ret(mk_ref(s, "&str"))


def m_string_add(ctx):
    """String + &str: identity is an injective-agnostic uninterpreted function of both identities."""
    eng = ctx.eng
    a = _str_node(eng, ctx.args[0])
    b = _str_node(eng, ctx.args[1])
    f = z3.Function("str_concat", BV64, BV64, BV64)
    n = Node(fresh_root("s"), ty="String")
    n.fields = {"sid": mk_scalar(f(str_id(eng, a), str_id(eng, b)), "u64")}
    return ctx.ret(n)


def m_ref_partial_eq(ctx):
    """<&A as PartialEq<&B>>::eq(a, b) = <A as PartialEq<B>>::eq(*a, *b): dispatch to the crate's impl."""
    eng = ctx.eng
    self_ty, _ = generic_args(ctx.callee)
    inner = strip_lifetimes(self_ty or "").lstrip("&").strip()
    head = type_head(inner)
    meth = ctx.norm.rsplit("::", 1)[1]
    a = eng.deref(ctx.args[0])
    b = eng.deref(ctx.args[1])
    # strip further reference levels (&&A == &&B)
    depth = len(strip_lifetimes(self_ty or "")) - len(strip_lifetimes(self_ty or "").lstrip("&"))
    for _ in range(max(0, depth - 1)):
        a = eng.deref(a)
        b = eng.deref(b)
    ra, rb = a, b          # now of type &A / &B
    if head in ("String", "str"):
        eq = str_id(eng, _str_node(eng, a)) == str_id(eng, _str_node(eng, b))
        return ctx.ret(mk_bool(eq if meth == "eq" else z3.Not(eq)))
    k = scalar_kind(head)
    if k is not None:
        eq = eng.scalar(eng.deref(a), head) == eng.scalar(eng.deref(b), head)
        return ctx.ret(mk_bool(eq if meth == "eq" else z3.Not(eq)))
    target = eng.resolve("<%s as PartialEq>::eq" % head, 2)
    if target is None:
        return eng.uninterpreted(ctx.st, ctx.frame, ctx.dest, ctx.dest_ty, ctx.ret_bb, ctx.callee, ctx.norm,
                                 ctx.args, ctx.site)
    if meth == "eq":
        dst = eng.place(ctx.st, ctx.frame, ctx.dest)
        return eng.enter_node(ctx.st, ctx.frame, target, [ra, rb], dst, ctx.ret_bb, ctx.callee)

    def cont(eng_, st2, stash, ret):
        return finish_call(eng_, st2, stash, mk_bool(z3.Not(eng_.scalar(ret, "bool"))))
    return eng.call_then(ctx.st, target, [ra, rb], call_stash(ctx), cont, ctx.callee)


def m_option_scalar_eq(ctx):
    """<Option<int> as PartialEq>::eq / ne (args by reference): same variant and, for Some, equal payloads."""
    eng = ctx.eng
    self_ty, _ = generic_args(ctx.callee)
    ps = type_params(strip_lifetimes(self_ty or ""))
    inner = ps[0].strip() if ps else None
    if inner is None or scalar_kind(inner) is None:
        return eng.uninterpreted(ctx.st, ctx.frame, ctx.dest, ctx.dest_ty, ctx.ret_bb, ctx.callee, ctx.norm,
                                 ctx.args, ctx.site)
    a = eng.deref(ctx.args[0])
    b = eng.deref(ctx.args[1])
    if a.ty is None:
        a.ty = "Option<%s>" % inner
    if b.ty is None:
        b.ty = "Option<%s>" % inner
    ta, tb = eng.tag_of(a, ctx.st), eng.tag_of(b, ctx.st)
    va = eng.scalar(eng.field(eng.downcast(a, "Some"), 0, inner), inner)
    vb = eng.scalar(eng.field(eng.downcast(b, "Some"), 0, inner), inner)
    eq = z3.And(ta == tb, z3.Or(ta == bv64(0), va == vb))
    return ctx.ret(mk_bool(eq if ctx.norm.endswith("::eq") else z3.Not(eq)))


def m_derived_ne(ctx):
    """<T as PartialEq>::ne for a crate type with derived eq: !eq."""
    eng = ctx.eng
    self_ty, _ = generic_args(ctx.callee)
    head = type_head(strip_lifetimes(self_ty or ""))
    target = eng.resolve("<%s as PartialEq>::eq" % head, 2)
    if target is None:
        return eng.uninterpreted(ctx.st, ctx.frame, ctx.dest, ctx.dest_ty, ctx.ret_bb, ctx.callee, ctx.norm,
                                 ctx.args, ctx.site)

    def cont(eng_, st2, stash, ret):
        return finish_call(eng_, st2, stash, mk_bool(z3.Not(eng_.scalar(ret, "bool"))))
    return eng.call_then(ctx.st, target, [ctx.args[0], ctx.args[1]], call_stash(ctx), cont, ctx.callee)


def m_box_new_uninit(ctx):
    """Box::<T>::new_uninit(): a box whose (uninitialised) pointee is materialised lazily."""
    b = Node(fresh_root("box"), ty=ctx.dest_ty)
    inner = Node(fresh_root("uq"))
    ptr = Node(fresh_root("ptr"))
    ptr.target = Node(fresh_root("uninit"))
    inner.fields = {0: ptr}
    b.fields = {0: inner}
    b.target = ptr.target
    return ctx.ret(b)


def m_box_into_vec(ctx):
    """std::boxed::box_assume_init_into_vec_unsafe(Box<MaybeUninit<[T; N]>>) -> Vec<T>  (lowering of vec![a, b, ..])."""
    eng = ctx.eng
    b = ctx.args[0]
    t = b.target
    if t is None:
        t = eng.deref(eng.field(eng.field(b, 0), 0))
    # MaybeUninit { uninit: (), value: ManuallyDrop { value: MaybeDangling(value) } }
    arr = t
    for k in (1, 0, 0):
        if arr.fields is None or k not in arr.fields:
            raise Unsupported("box_assume_init_into_vec_unsafe: array not initialised the way rustc lowers vec![]")
        arr = arr.fields[k]
    v = Node(fresh_root("vec"), ty=ctx.dest_ty)
    buf = copy_node(arr)
    if buf.length is None:
        raise Unsupported("vec![] array without length")
    v.vec = buf
    return ctx.ret(v)


def install(eng):
    M = eng.models
    R = eng.model_rx
    M["Box::new_uninit"] = m_box_new_uninit
    M["std::boxed::box_assume_init_into_vec_unsafe"] = m_box_into_vec
    eng.iter_bound = 4
    eng.range_bound = 8
    M["core::slice::<impl [T]>::iter"] = m_slice_iter
    M["core::slice::<impl [T]>::iter_mut"] = m_slice_iter
    M["core::slice::<impl [T]>::last"] = m_slice_last
    M["core::slice::<impl [T]>::last_mut"] = m_slice_last
    M["core::slice::<impl [T]>::contains"] = m_contains
    M["core::slice::<impl [T]>::get"] = m_slice_get
    R.append((re.compile(r"<.* as IntoIterator>::into_iter"), m_into_iter))
    for kind, nargs in (("map", 2), ("filter", 2), ("filter_map", 2), ("enumerate", 1), ("rev", 1), ("zip", 2),
                        ("chain", 2), ("cloned", 1), ("copied", 1)):
        k2 = "cloned" if kind == "copied" else kind
        R.append((re.compile(r"<\w+ as Iterator>::%s" % kind), m_adaptor(k2, nargs)))
    R.append((re.compile(r"<\w+ as Iterator>::collect"), m_collect))
    for kind in ("any", "all", "position", "find", "find_map", "count", "next", "last"):
        R.append((re.compile(r"<\w+ as Iterator>::%s" % kind), m_consumer(kind)))
    M["Vec::push"] = m_vec_push
    M["Vec::pop"] = m_vec_pop
    M["Vec::with_capacity"] = m_vec_with_capacity
    M["Vec::truncate"] = m_vec_truncate
    M["<Vec as Clone>::clone"] = m_vec_clone
    M["<Vec as IndexMut>::index_mut"] = m_index_mut
    M["std::vec::from_elem"] = m_from_elem
    M["<String as PartialEq>::eq"] = m_str_eq
    M["<str as PartialEq>::eq"] = m_str_eq
    M["<String as PartialEq>::ne"] = m_str_eq
    M["<str as PartialEq>::ne"] = m_str_eq
    M["<String as Clone>::clone"] = m_string_clone
    M["<str as ToString>::to_string"] = m_string_clone
    M["<String as ToString>::to_string"] = m_string_clone
    M["<str as ToOwned>::to_owned"] = m_string_clone
    M["<String as ToOwned>::to_owned"] = m_string_clone
    M["<String as Deref>::deref"] = m_string_deref
    M["String::as_str"] = m_string_deref
    M["<String as Add>::add"] = m_string_add
    M["<Vec as Extend>::extend"] = m_vec_extend
    M["<Option as PartialEq>::eq"] = m_option_scalar_eq
    M["<Option as PartialEq>::ne"] = m_option_scalar_eq
    R.append((re.compile(r"<&+\w+ as PartialEq>::(eq|ne)"), m_ref_partial_eq))
    R.append((re.compile(r"<(?!str\b|String\b|&)\w+ as PartialEq>::ne"), m_derived_ne))
