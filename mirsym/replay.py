"""Native replay of counterexamples through the public API (see /verif/replay/src/main.rs).

The replay binary is built against a copy of /repo's *current* working tree, in the dev profile
(what `cargo test` and Kani model) and in the release profile (what users run). Binaries are cached
by (tree hash, replay source hash) under /verif/.cache/replay-bin.
"""
import hashlib
import os
import shutil
import subprocess
import tempfile
import time

from . import frontend

REPLAY_SRC = os.path.join(frontend.VERIF, "replay")


def _hex(s):
    return s.encode().hex()


class Scenario:
    """A public-API scenario: source text, signal list, scripted driver."""

    def __init__(self, source, signals=(), mode="run", layout=None, default_answer=None, answers=None,
                 fail_at=(), layout_at=None, override_write=True, max_rows=2000, show_vars=False, echo=False,
                 load=None, repeat_parse=1, render=False, stop_on_err=True, note="", expect=None, abandon=None, pre_layouts=None,
                 pre_digs=None, set_bits=None, step=0):
        self.abandon = abandon
        self.pre_layouts = pre_layouts or []
        self.pre_digs = pre_digs or []       # [(document text, load selector or None)]
        self.set_bits = set_bits or []       # [(signal name, new width)]
        self.step = step                     # > 0: items are pulled with Iterator::nth(step)
        self.expect = expect or {}
        self.source = source
        self.signals = list(signals)   # (kind, name, bits, default) kind in in/out/bidir; default int|'Z'|None
        self.mode = mode
        self.layout = layout
        self.default_answer = default_answer
        self.answers = answers or {}
        self.fail_at = list(fail_at)
        self.layout_at = layout_at or {}
        self.override_write = override_write
        self.max_rows = max_rows
        self.show_vars = show_vars
        self.echo = echo
        self.load = load
        self.repeat_parse = repeat_parse
        self.render = render
        self.stop_on_err = stop_on_err
        self.note = note

    def text(self):
        out = ["MODE %s" % self.mode, "SOURCE_HEX %s" % _hex(self.source)]
        for s in self.signals:
            kind, name, bits = s[0], s[1], s[2]
            if kind == "out":
                out.append("SIGNAL out %s %d" % (_hex(name), bits))
            else:
                out.append("SIGNAL %s %s %d %s" % (kind, _hex(name), bits, s[3]))
        if self.layout is not None:
            out.append("LAYOUT " + " ".join(_hex(x) for x in self.layout))
        if self.default_answer is not None:
            out.append("ANSWER * " + " ".join(str(v) for v in self.default_answer))
        for k, vals in sorted(self.answers.items()):
            out.append("ANSWER %d %s" % (k, " ".join(str(v) for v in vals)))
        for k in self.fail_at:
            out.append("FAIL %d" % k)
        for k, lay in sorted(self.layout_at.items()):
            out.append("LAYOUT_AT %d %s" % (k, " ".join(_hex(x) for x in lay)))
        out.append("WRITE_OVERRIDE %d" % (1 if self.override_write else 0))
        out.append("MAX_ROWS %d" % self.max_rows)
        out.append("VARS %d" % (1 if self.show_vars else 0))
        out.append("ECHO %d" % (1 if self.echo else 0))
        out.append("STOP_ON_ERR %d" % (1 if self.stop_on_err else 0))
        out.append("REPEAT_PARSE %d" % self.repeat_parse)
        out.append("RENDER %d" % (1 if self.render else 0))
        if self.load is not None:
            out.append("LOAD %s" % self.load)
        if getattr(self, "abandon", None) is not None:
            out.append("ABANDON %d" % self.abandon)
        for lay in getattr(self, "pre_layouts", []):
            out.append("PRE_LAYOUT " + " ".join(_hex(x) for x in lay))
        for doc, sel in getattr(self, "pre_digs", []):
            out.append("PRE_DIG %s%s" % (_hex(doc), (" " + sel) if sel else ""))
        if getattr(self, "step", 0):
            out.append("STEP %d" % self.step)
        for name, bits in getattr(self, "set_bits", []):
            out.append("SET_BITS %s %d" % (_hex(name), bits))
        return "\n".join(out) + "\n"

    def to_json(self):
        return {"source": self.source, "signals": self.signals, "mode": self.mode, "layout": self.layout,
                "default_answer": self.default_answer, "answers": {str(k): v for k, v in self.answers.items()},
                "fail_at": self.fail_at, "layout_at": {str(k): v for k, v in self.layout_at.items()},
                "override_write": self.override_write, "note": self.note, "echo": self.echo,
                "load": self.load, "repeat_parse": self.repeat_parse, "expect": self.expect, "abandon": getattr(self, "abandon", None), "pre_layouts": getattr(self, "pre_layouts", []),
                "scenario_text": self.text()}


class Observation:
    """Parsed output of one replay run."""

    def __init__(self, text, rc, profile):
        self.text = text
        self.rc = rc
        self.profile = profile
        self.lines = [l for l in text.split("\n") if l]
        self.calls = []     # (idx, kind, [(name, value, changed, bits)])
        self.rows = []      # dict(line, inputs[(name,val,changed)], outputs[(name,expected,output,check,is_checked)], failing)
        self.srows = []
        self.items = []     # sequence of ('row', row) | ('err', kind, text) | ('panic', msg) | ('end',)
        self.stage = {}     # PARSE/BIND/NEW/DIG/LOAD/STATIC -> (status, rest)
        self.vars = []
        self.signals = []
        self.panics = []
        self.after_end = None
        self.dropped = None
        self.misc = []
        for l in self.lines:
            w = l.split(" ")
            k = w[0]
            if k in ("PARSE", "BIND", "NEW", "DIG", "LOAD", "STATIC", "RENDER"):
                self.stage[k] = (w[1], " ".join(w[2:]))
                if w[1] == "panic":
                    self.panics.append((k, " ".join(w[2:])))
            elif k == "CALL":
                ins = []
                for t in w[3:]:
                    name, rest = t.split("=", 1)
                    val, ch, bits = rest.split(":")
                    ins.append((name, val, ch == "1", int(bits)))
                self.calls.append((int(w[1]), w[2], ins))
            elif k == "ROW":
                i_in = w.index("IN")
                i_out = w.index("OUT")
                i_fail = w.index("FAIL")
                ins = []
                for t in w[i_in + 1:i_out]:
                    name, rest = t.split("=", 1)
                    val, ch = rest.split(":")
                    ins.append((name, val, ch == "1"))
                outs = []
                for t in w[i_out + 1:i_fail]:
                    name, rest = t.split("=", 1)
                    eo, chk, isc = rest.split(":")
                    e, o = eo.split("/")
                    outs.append((name, e, o, chk == "1", isc == "1"))
                failing = [x for x in " ".join(w[i_fail + 1:]).split(",") if x]
                row = {"line": int(w[1]), "inputs": ins, "outputs": outs, "failing": failing,
                       "ncalls_before": len(self.calls)}
                self.rows.append(row)
                self.items.append(("row", row))
            elif k == "SROW":
                i_in = w.index("IN")
                i_exp = w.index("EXP")
                ins = []
                for t in w[i_in + 1:i_exp]:
                    name, rest = t.split("=", 1)
                    val, ch = rest.split(":")
                    ins.append((name, val, ch == "1"))
                exps = [tuple(t.split("=", 1)) for t in w[i_exp + 1:]]
                self.srows.append({"line": int(w[1]), "inputs": ins, "expected": exps})
            elif k == "ITEM":
                if w[1] == "panic":
                    self.panics.append(("ITEM", " ".join(w[2:])))
                    self.items.append(("panic", " ".join(w[2:])))
                else:
                    self.items.append(("err", w[2], " ".join(w[3:])))
            elif k == "SITEM":
                if w[1] == "panic":
                    self.panics.append(("SITEM", " ".join(w[2:])))
                self.misc.append(l)
            elif k == "END":
                self.items.append(("end",))
            elif k == "VARS":
                self.vars.append(dict(t.split("=") for t in w[1:] if t))
            elif k == "SIGNALS":
                self.signals.append(w[1])
            elif k == "DROPPED":
                self.dropped = w[1]
                if w[1] == "panic":
                    self.panics.append(("DROP", " ".join(w[2:])))
            elif k == "AFTER_END":
                self.after_end = " ".join(w[1:])
                if w[1] == "panic":
                    self.panics.append(("AFTER_END", " ".join(w[2:])))
            else:
                self.misc.append(l)
        if rc != 0:
            self.panics.append(("PROCESS", "replay exited with status %d" % rc))

    def ok(self, stage):
        return self.stage.get(stage, ("missing",))[0] == "ok"

    def summary(self):
        return {"profile": self.profile, "stages": {k: v[0] for k, v in self.stage.items()},
                "calls": len(self.calls), "rows": len(self.rows), "panics": self.panics,
                "head": self.lines[:12]}


_built = {}


def build(profiles=("dev", "release"), repo=None):
    """Build (or fetch from cache) the replay binary for each profile against the current tree."""
    repo = repo or frontend.REPO
    th = frontend.tree_hash(repo)
    rh = hashlib.sha256()
    for f in ("Cargo.toml.in", "src/main.rs"):
        rh.update(open(os.path.join(REPLAY_SRC, f), "rb").read())
    key = "%s-%s" % (th, rh.hexdigest()[:12])
    out = {}
    need = []
    for p in profiles:
        b = os.path.join(frontend.CACHE, "replay-bin", key, p, "verif_replay")
        if os.path.exists(b):
            out[p] = b
        else:
            need.append(p)
    if not need:
        return out
    _prune_target(os.path.join(frontend.CACHE, "target-replay"))
    scratch = frontend.make_scratch(repo, "replay")
    try:
        rdir = os.path.join(scratch, "_verif_replay")
        os.makedirs(os.path.join(rdir, "src"))
        toml = open(os.path.join(REPLAY_SRC, "Cargo.toml.in")).read().replace("@REPO@", scratch)
        open(os.path.join(rdir, "Cargo.toml"), "w").write(toml)
        shutil.copy(os.path.join(REPLAY_SRC, "src/main.rs"), os.path.join(rdir, "src/main.rs"))
        lock = os.path.join(repo, "Cargo.lock")
        if os.path.exists(lock):
            shutil.copy(lock, os.path.join(rdir, "Cargo.lock"))
        env = dict(os.environ)
        env["CARGO_NET_OFFLINE"] = "true"
        env["CARGO_TARGET_DIR"] = os.path.join(frontend.CACHE, "target-replay")
        env.pop("RUSTFLAGS", None)
        for p in need:
            cmd = ["cargo", "build", "--offline", "-q"] + (["--release"] if p == "release" else [])
            r = subprocess.run(cmd, cwd=rdir, env=env, stdout=subprocess.PIPE, stderr=subprocess.PIPE, text=True)
            if r.returncode != 0:
                # a stale lock file (e.g. new dependency graph) -> retry without it
                try:
                    os.remove(os.path.join(rdir, "Cargo.lock"))
                except OSError:
                    pass
                r = subprocess.run(cmd, cwd=rdir, env=env, stdout=subprocess.PIPE, stderr=subprocess.PIPE, text=True)
            if r.returncode != 0:
                raise RuntimeError("replay build failed (%s):\n%s" % (p, r.stderr[-3000:]))
            src = os.path.join(env["CARGO_TARGET_DIR"], "release" if p == "release" else "debug", "verif_replay")
            b = os.path.join(frontend.CACHE, "replay-bin", key, p, "verif_replay")
            os.makedirs(os.path.dirname(b), exist_ok=True)
            shutil.copy(src, b + ".tmp")
            os.replace(b + ".tmp", b)
            out[p] = b
        # prune old binaries
        try:
            base = os.path.join(frontend.CACHE, "replay-bin")
            ds = sorted((os.path.getmtime(os.path.join(base, x)), x) for x in os.listdir(base))
            for _, x in ds[:-60]:
                shutil.rmtree(os.path.join(base, x), ignore_errors=True)
        except OSError:
            pass
    finally:
        shutil.rmtree(scratch, ignore_errors=True)
    return out


def _prune_target(tdir, limit_gb=6.0):
    """Every tree gets its own scratch path, hence its own fingerprints in the shared cargo target directory: it grew to
    129 GB over ~1500 changed trees and filled the disk.  Above the limit the directory is dropped (a rebuild is ~20 s)."""
    try:
        out = subprocess.run(["du", "-s", "-B1", tdir], stdout=subprocess.PIPE, stderr=subprocess.DEVNULL, text=True, timeout=60).stdout
        if out and int(out.split()[0]) > limit_gb * (1 << 30):
            shutil.rmtree(tdir, ignore_errors=True)
    except Exception:
        pass


def run(scenario, profiles=("dev", "release"), repo=None, timeout=60):
    bins = build(profiles, repo)
    if any(not os.path.exists(b) for b in bins.values()):      # pruned by a concurrent run on other trees: build again
        _built.clear()
        bins = build(profiles, repo)
    res = {}
    for p in profiles:
        with tempfile.NamedTemporaryFile("w", suffix=".scn", delete=False, dir="/var/tmp") as f:
            f.write(scenario.text())
            path = f.name
        try:
            r = subprocess.run([bins[p], path], stdout=subprocess.PIPE, stderr=subprocess.PIPE, text=True,
                               timeout=timeout)
            res[p] = Observation(r.stdout, r.returncode, p)
        except subprocess.TimeoutExpired:
            o = Observation("", 124, p)
            o.panics.append(("PROCESS", "timeout"))
            res[p] = o
        finally:
            os.remove(path)
    return res


def lit(n):
    """i64 -> expression text of the DSL evaluating to n (no negative literals in the grammar)."""
    n = int(n)
    if n >= 1 << 63:
        n -= 1 << 64
    if n >= 0:
        return str(n)
    if n == -(1 << 63):
        return "(0-9223372036854775807-1)"
    return "(0-%d)" % (-n)


# ------------------------------------------------------------------ native lexing reference (/verif/lexreplay)

LEX_SRC = os.path.join(frontend.VERIF, "lexreplay")


def build_lex(profile="dev", repo=None):
    """Binary that lexes with the crate's own src/lexer/token.rs (compiled in unchanged); cached by tree hash."""
    repo = repo or frontend.REPO
    th = frontend.tree_hash(repo)
    rh = hashlib.sha256()
    for f in ("Cargo.toml.in", "src/main.rs.in"):
        rh.update(open(os.path.join(LEX_SRC, f), "rb").read())
    key = "%s-%s" % (th, rh.hexdigest()[:12])
    b = os.path.join(frontend.CACHE, "replay-bin", key, "lex-" + profile, "verif_lexreplay")
    if os.path.exists(b):
        return b
    scratch = frontend.make_scratch(repo, "lexreplay")
    try:
        rdir = os.path.join(scratch, "_verif_lexreplay")
        os.makedirs(os.path.join(rdir, "src"))
        for f, g in (("Cargo.toml.in", "Cargo.toml"), ("src/main.rs.in", "src/main.rs")):
            open(os.path.join(rdir, g), "w").write(open(os.path.join(LEX_SRC, f)).read().replace("@REPO@", scratch))
        env = dict(os.environ)
        env["CARGO_NET_OFFLINE"] = "true"
        env["CARGO_TARGET_DIR"] = os.path.join(frontend.CACHE, "target-lexreplay")
        env.pop("RUSTFLAGS", None)
        lock = os.path.join(repo, "Cargo.lock")
        cmd = ["cargo", "build", "--offline", "-q"] + (["--release"] if profile == "release" else [])
        r = None
        for with_lock in (True, False):
            lk = os.path.join(rdir, "Cargo.lock")
            if with_lock and os.path.exists(lock):
                shutil.copy(lock, lk)
            elif os.path.exists(lk):
                os.remove(lk)
            r = subprocess.run(cmd, cwd=rdir, env=env, stdout=subprocess.PIPE, stderr=subprocess.PIPE, text=True)
            if r.returncode == 0:
                break
        if r.returncode != 0:
            raise RuntimeError("lexer reference build failed:\n%s" % r.stderr[-3000:])
        src = os.path.join(env["CARGO_TARGET_DIR"], "release" if profile == "release" else "debug", "verif_lexreplay")
        os.makedirs(os.path.dirname(b), exist_ok=True)
        shutil.copy(src, b + ".tmp%d" % os.getpid())
        os.replace(b + ".tmp%d" % os.getpid(), b)
    finally:
        shutil.rmtree(scratch, ignore_errors=True)
    return b


def lex_native(items, profile="dev", repo=None, timeout=120):
    """items: [(mode 'header'|'body', bytes)] -> [list of (kind, start, end) | 'PANIC' | 'INVALID']"""
    b = build_lex(profile, repo)
    inp = "".join("%s %s\n" % (mode, bytes(data).hex()) for mode, data in items)
    r = subprocess.run([b], input=inp, stdout=subprocess.PIPE, stderr=subprocess.PIPE, text=True, timeout=timeout)
    out = []
    for line in r.stdout.split("\n"):
        if not line:
            continue
        if line.startswith("TOKENS"):
            toks = []
            for w in line.split(" ")[1:]:
                k, s, e = w.rsplit(":", 2)
                toks.append((k, int(s), int(e)))
            out.append(toks)
        else:
            out.append(line.strip())
    if len(out) != len(items):
        raise RuntimeError("lexer reference produced %d answers for %d inputs: %s" % (len(out), len(items), r.stderr[-500:]))
    return out
