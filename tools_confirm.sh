#!/bin/bash
# development aid: confirm a sub-agent's mutant in its scratch worktree and store it under /verif/seeded/<id>/
# usage: tools_confirm.sh <worktree> <k> <PROP>
WT="$1"; K="$2"; PROP="$3"
OFF="${4:-0}"; ID="${PROP}-m$((K+OFF))"
M="$WT/_mut/$K"
OUT=/verif/seeded/$ID
LOG=/tmp/confirm_$ID.log
: > "$LOG"
cd "$WT" || exit 1
git checkout -q -- . ; git clean -fdq -e _mut -e target
export CARGO_NET_OFFLINE=true
git apply --check "$M/patch.diff" >>"$LOG" 2>&1 || { echo "$ID: patch does not apply"; exit 1; }
git apply "$M/patch.diff"
cargo test --offline >>"$LOG" 2>&1; SUITE=$?
cp "$M/demo_mutant.rs" tests/demo_mutant.rs
cargo test --offline --test demo_mutant >>"$LOG" 2>&1; DEMO_MUT=$?
git apply -R "$M/patch.diff"
cargo test --offline --test demo_mutant >>"$LOG" 2>&1; DEMO_ORIG=$?
rm -f tests/demo_mutant.rs
git checkout -q -- . ; git clean -fdq -e _mut -e target
if [ $SUITE -eq 0 ] && [ $DEMO_MUT -ne 0 ] && [ $DEMO_ORIG -eq 0 ]; then
  mkdir -p "$OUT"
  cp "$M/patch.diff" "$OUT/patch.diff"; cp "$M/demo_mutant.rs" "$OUT/demo_mutant.rs"
  python3 - "$M/meta.json" "$OUT/meta.json" "$PROP" <<'PY'
import json,sys
try: m=json.load(open(sys.argv[1]))
except Exception: m={}
out={"property":sys.argv[3],"summary":m.get("summary"),"needs":m.get("needs"),"source":"independent sub-agent given only the property text and a scratch worktree",
 "confirmed":{"ran":["git apply patch.diff","cargo test --offline (all existing tests pass)","cargo test --offline --test demo_mutant (fails with the change)","git apply -R patch.diff","cargo test --offline --test demo_mutant (passes without it)"],"suite_with_change":"pass","demo_with_change":"fail","demo_without_change":"pass"},
 "agent_ran":m.get("ran")}
json.dump(out,open(sys.argv[2],"w"),indent=1)
PY
  echo "$ID: CONFIRMED"
else
  echo "$ID: NOT confirmed (suite=$SUITE demo_mut=$DEMO_MUT demo_orig=$DEMO_ORIG)"
fi
